"""C20 — AST extraction of the *argument-validation guards* of constructors and of the consumers of configuration values.

A guard is a statement of a constructor (or of a function a configuration value flows into) that rejects a value:

    if P not in [c1, c2, …]: raise …                         -> oneOf
    if P == c: … elif P in [c…]: … else: raise …             -> oneOf (union of the branch tests; `elif not P` adds "falsy")
    if not all(lo < e < hi for e in P): raise …              -> allBetween lo hi
    if not all(lo < e and isinstance(e, int) for e in P)     -> allIntGt lo
    if not all(e in [c…] for e in P): raise …                -> allOneOf
    if len(P) not in [n…]: raise …                           -> lenIn
    if not (P == c or lo < P <= Q): raise …                  -> eqOrRange c lo Q
    assert all(e % m == 0 for e in P)                        -> allMultipleOf m
    assert len(P) == n / assert P[0] <= P[1]                 -> lenIn [n] / pairOrdered
    if len([A]) != len([B]): raise …                         -> vacuous (a guard that can never fire: reported)
    for k in kwargs: if k not in [...]: raise                -> keyword policy (only names / prefixes)

Guards nested under `if A and B is not None and …:` carry that condition (truthy / not-None atoms); anything else that raises
is recorded as `opaque` (counted in the evidence, never an alarm).  Base-class constructors reached through
`super().__init__(…)` contribute their guards with the parameter names mapped through the call.
"""
from __future__ import annotations

import ast
import enum
import inspect
import pathlib
import sys


class Opaque(Exception):
    pass


# ---- constants ------------------------------------------------------------------------------------------------------
def const_of(node: ast.AST, glob: dict):
    """-> ("none",) | ("bool", b) | ("int", i) | ("str", s, is_enum)"""
    if isinstance(node, ast.Constant):
        v = node.value
        if v is None:
            return ("none",)
        if isinstance(v, bool):
            return ("bool", v)
        if isinstance(v, int):
            return ("int", v)
        if isinstance(v, str):
            return ("str", v, False)
        if isinstance(v, float) and v == int(v):
            return ("int", int(v))
        raise Opaque(f"constant {v!r}")
    if isinstance(node, ast.UnaryOp) and isinstance(node.op, ast.USub) and isinstance(node.operand, ast.Constant) \
            and isinstance(node.operand.value, int):
        return ("int", -node.operand.value)
    if isinstance(node, ast.Attribute) and isinstance(node.value, ast.Name):
        owner = glob.get(node.value.id)
        if inspect.isclass(owner) and issubclass(owner, enum.Enum) and node.attr in owner.__members__:
            m = owner[node.attr]
            if isinstance(m.value, str):
                return ("str", m.value, True)
            if isinstance(m.value, int):
                return ("int", m.value)
    raise Opaque(f"not a constant: {ast.unparse(node)}")


def consts_of(node: ast.AST, glob: dict) -> list:
    if isinstance(node, (ast.List, ast.Tuple, ast.Set)):
        return [const_of(e, glob) for e in node.elts]
    raise Opaque(f"not a literal collection: {ast.unparse(node)}")


def _name(node) -> str | None:
    return node.id if isinstance(node, ast.Name) else None


def _is_len_of(node, what=None) -> str | None:
    if isinstance(node, ast.Call) and _name(node.func) == "len" and len(node.args) == 1 and _name(node.args[0]):
        return node.args[0].id
    return None


def _int(node) -> int:
    c = const_of(node, {})
    if c[0] != "int":
        raise Opaque("not an int")
    return c[1]


def _raises(body: list[ast.stmt]) -> bool:
    return any(isinstance(s, ast.Raise) for s in body)


# ---- one test -> (param, guard) ------------------------------------------------------------------------------------
def guard_of_reject_test(test: ast.AST, glob: dict):
    """`if <test>: raise` -> (param, guard tuple)"""
    # P not in [..]
    if isinstance(test, ast.Compare) and len(test.ops) == 1 and isinstance(test.ops[0], ast.NotIn):
        p = _name(test.left)
        if p:
            return p, ("oneOf", consts_of(test.comparators[0], glob))
        lp = _is_len_of(test.left)
        if lp:
            return lp, ("lenIn", [_int(e) for e in test.comparators[0].elts])
    # len([A]) != len([B])  — a comparison of two literal one-element lists: never fires
    if isinstance(test, ast.Compare) and len(test.ops) == 1 and isinstance(test.ops[0], ast.NotEq):
        l, r = test.left, test.comparators[0]

        def lit_len(n):
            if isinstance(n, ast.Call) and _name(n.func) == "len" and len(n.args) == 1 and isinstance(n.args[0], (ast.List, ast.Tuple)):
                return len(n.args[0].elts), [x for x in map(_name, n.args[0].elts) if x]
            return None

        a, b = lit_len(l), lit_len(r)
        if a and b:
            if a[0] == b[0] and a[1]:
                return a[1][0], ("vacuous", (b[1] or [""])[0])
            raise Opaque("always-firing length guard")
    if isinstance(test, ast.UnaryOp) and isinstance(test.op, ast.Not):
        inner = test.operand
        # not all(<elt> for e in P)
        if isinstance(inner, ast.Call) and _name(inner.func) == "all" and len(inner.args) == 1 \
                and isinstance(inner.args[0], ast.GeneratorExp) and len(inner.args[0].generators) == 1:
            gen = inner.args[0].generators[0]
            e, p = _name(gen.target), _name(gen.iter)
            if e and p and not gen.ifs:
                return p, elem_pred(inner.args[0].elt, e, glob)
        # not (P == c or lo < P <= Q)
        if isinstance(inner, ast.BoolOp) and isinstance(inner.op, ast.Or) and len(inner.values) == 2:
            a, b = inner.values
            if isinstance(a, ast.Compare) and len(a.ops) == 1 and isinstance(a.ops[0], ast.Eq) and _name(a.left) \
                    and isinstance(b, ast.Compare) and len(b.ops) == 2 and isinstance(b.ops[0], ast.Lt) \
                    and isinstance(b.ops[1], ast.LtE) and _name(b.comparators[0]) == a.left.id and _name(b.comparators[1]):
                return a.left.id, ("eqOrRange", _int(a.comparators[0]), _int(b.left), b.comparators[1].id)
        # not set(P).issubset({..})
        if isinstance(inner, ast.Call) and isinstance(inner.func, ast.Attribute) and inner.func.attr == "issubset" \
                and isinstance(inner.func.value, ast.Call) and _name(inner.func.value.func) == "set" \
                and len(inner.func.value.args) == 1 and _name(inner.func.value.args[0]) and len(inner.args) == 1:
            cs = consts_of(inner.args[0], glob)
            if all(c[0] == "str" and len(c[1]) == 1 for c in cs):
                return inner.func.value.args[0].id, ("charsSubset", [ord(c[1]) for c in cs])
    raise Opaque(ast.unparse(test)[:160])


def elem_pred(elt: ast.AST, e: str, glob: dict):
    # lo < e < hi
    if isinstance(elt, ast.Compare) and len(elt.ops) == 2 and all(isinstance(o, ast.Lt) for o in elt.ops) \
            and _name(elt.comparators[0]) == e:
        return ("allBetween", _int(elt.left), _int(elt.comparators[1]))
    # e in [..]
    if isinstance(elt, ast.Compare) and len(elt.ops) == 1 and isinstance(elt.ops[0], ast.In) and _name(elt.left) == e:
        return ("allOneOf", consts_of(elt.comparators[0], glob))
    # e % m == 0
    if isinstance(elt, ast.Compare) and len(elt.ops) == 1 and isinstance(elt.ops[0], ast.Eq) \
            and isinstance(elt.left, ast.BinOp) and isinstance(elt.left.op, ast.Mod) and _name(elt.left.left) == e \
            and _int(elt.comparators[0]) == 0:
        return ("allMultipleOf", _int(elt.left.right))
    # lo < e and isinstance(e, int)   (either order)
    if isinstance(elt, ast.BoolOp) and isinstance(elt.op, ast.And) and len(elt.values) == 2:
        lo = None
        is_int = False
        for v in elt.values:
            if isinstance(v, ast.Compare) and len(v.ops) == 1 and isinstance(v.ops[0], ast.Lt) and _name(v.comparators[0]) == e:
                lo = _int(v.left)
            elif isinstance(v, ast.Compare) and len(v.ops) == 1 and isinstance(v.ops[0], ast.Gt) and _name(v.left) == e:
                lo = _int(v.comparators[0])
            elif isinstance(v, ast.Call) and _name(v.func) == "isinstance" and len(v.args) == 2 and _name(v.args[0]) == e \
                    and _name(v.args[1]) == "int":
                is_int = True
        if lo is not None and is_int:
            return ("allIntGt", lo)
    raise Opaque("element predicate " + ast.unparse(elt)[:120])


def guard_of_assert(test: ast.AST, glob: dict):
    """`assert <test>` -> [(param, guard)]"""
    if isinstance(test, ast.BoolOp) and isinstance(test.op, ast.And):
        out = []
        for v in test.values:
            out += guard_of_assert(v, glob)
        return out
    if isinstance(test, ast.Call) and _name(test.func) == "all" and len(test.args) == 1 and isinstance(test.args[0], ast.GeneratorExp) \
            and len(test.args[0].generators) == 1:
        gen = test.args[0].generators[0]
        e, p = _name(gen.target), _name(gen.iter)
        if e and p:
            return [(p, elem_pred(test.args[0].elt, e, glob))]
    if isinstance(test, ast.Compare) and len(test.ops) == 1 and isinstance(test.ops[0], ast.Eq) and _is_len_of(test.left):
        return [(_is_len_of(test.left), ("lenIn", [_int(test.comparators[0])]))]
    if isinstance(test, ast.Compare) and len(test.ops) == 1 and isinstance(test.ops[0], (ast.LtE, ast.Lt)):
        l, r = test.left, test.comparators[0]

        def sub(n, i):
            return isinstance(n, ast.Subscript) and _name(n.value) and isinstance(n.slice, ast.Constant) and n.slice.value == i

        if sub(l, 0) and sub(r, 1) and l.value.id == r.value.id:
            return [(l.value.id, ("pairOrdered", isinstance(test.ops[0], ast.Lt)))]
    raise Opaque("assert " + ast.unparse(test)[:140])


def branch_values(test: ast.AST, glob: dict):
    """test of one branch of an if/elif chain -> (param, [consts], falsy?)"""
    if isinstance(test, ast.Compare) and len(test.ops) == 1 and _name(test.left):
        if isinstance(test.ops[0], ast.Eq):
            return test.left.id, [const_of(test.comparators[0], glob)], False
        if isinstance(test.ops[0], ast.In):
            return test.left.id, consts_of(test.comparators[0], glob), False
    if isinstance(test, ast.UnaryOp) and isinstance(test.op, ast.Not) and _name(test.operand):
        return test.operand.id, [], True
    raise Opaque("branch test " + ast.unparse(test)[:120])


def cond_atoms(test: ast.AST):
    """`A and B is not None and …` -> [("truthy", A), ("notNone", B)]"""
    vals = test.values if isinstance(test, ast.BoolOp) and isinstance(test.op, ast.And) else [test]
    out = []
    for v in vals:
        if _name(v):
            out.append(("truthy", v.id))
        elif isinstance(v, ast.Compare) and len(v.ops) == 1 and isinstance(v.ops[0], ast.IsNot) and _name(v.left) \
                and isinstance(v.comparators[0], ast.Constant) and v.comparators[0].value is None:
            out.append(("notNone", v.left.id))
        else:
            raise Opaque("condition " + ast.unparse(v)[:100])
    return out


# ---- a function body ---------------------------------------------------------------------------------------------------
class Found:
    def __init__(self):
        self.guards: list[dict] = []     # {param, guard, cond, line}
        self.opaque: list[str] = []
        self.kw_policy = None            # None | {"names": [...], "prefixes": [...]}
        self.super_call: ast.Call | None = None
        self.kwargs_reads: set[str] = set()
        self.kwargs_forwarded = False


def scan_function(fn: ast.FunctionDef, glob: dict, where: str) -> Found:
    out = Found()
    params = {a.arg for a in fn.args.args + fn.args.kwonlyargs}
    kwname = fn.args.kwarg.arg if fn.args.kwarg else None
    kw_aliases = {kwname} if kwname else set()

    def note_opaque(st, why):
        out.opaque.append(f"{where}:{st.lineno}: {why}")

    def add(param, guard, cond, st):
        if param not in params:
            note_opaque(st, f"guard on `{param}` which is not a parameter")
            return
        out.guards.append({"param": param, "guard": guard, "cond": list(cond), "line": st.lineno})

    def walk(body, cond):
        for st in body:
            if isinstance(st, (ast.FunctionDef, ast.AsyncFunctionDef, ast.ClassDef)):
                continue
            # aliases of the **kwargs mapping
            if isinstance(st, ast.Assign) and len(st.targets) == 1 and _name(st.targets[0]) and kwname:
                src = ast.unparse(st.value).replace(" ", "")
                if src in (f"{kwname}.keys()", kwname, f"list({kwname}.keys())", f"list({kwname})"):
                    kw_aliases.add(st.targets[0].id)
            if isinstance(st, ast.Expr) and isinstance(st.value, ast.Call):
                c = st.value
                if isinstance(c.func, ast.Attribute) and c.func.attr == "__init__" and isinstance(c.func.value, ast.Call) \
                        and _name(c.func.value.func) == "super":
                    out.super_call = c
            if isinstance(st, ast.For) and kwname and ast.unparse(st.iter).replace(" ", "") in \
                    {a for k in kw_aliases for a in (k, f"{k}.keys()")} and _name(st.target):
                key = st.target.id
                for s2 in st.body:
                    if isinstance(s2, ast.If) and _raises(s2.body):
                        try:
                            out.kw_policy = kw_policy_of(s2.test, key)
                        except Opaque as e:
                            note_opaque(s2, f"keyword policy: {e}")
                continue
            if isinstance(st, ast.Assert):
                try:
                    for p, g in guard_of_assert(st.test, glob):
                        add(p, g, cond, st)
                except Opaque as e:
                    note_opaque(st, str(e))
                continue
            if isinstance(st, ast.If):
                # (a) if <reject>: raise
                if _raises(st.body) and not st.orelse:
                    try:
                        p, g = guard_of_reject_test(st.test, glob)
                        add(p, g, cond, st)
                    except Opaque as e:
                        note_opaque(st, f"if {e}")
                    continue
                # (b) if/elif/…/else: raise
                chain, node = [], st
                while True:
                    chain.append(node)
                    if len(node.orelse) == 1 and isinstance(node.orelse[0], ast.If):
                        node = node.orelse[0]
                    else:
                        break
                if node.orelse and _raises(node.orelse):
                    try:
                        ps, cs, falsy = set(), [], False
                        for n in chain:
                            p, c, f = branch_values(n.test, glob)
                            ps.add(p)
                            cs += c
                            falsy = falsy or f
                        if len(ps) != 1:
                            raise Opaque("chain over several names")
                        add(ps.pop(), ("oneOfOrFalsy" if falsy else "oneOf", cs), cond, st)
                    except Opaque as e:
                        note_opaque(st, f"if-chain {e}")
                    for n in chain:
                        walk([s for s in n.body if not isinstance(s, ast.Raise)], cond + [("opaque", "branch")])
                    continue
                # (c) a conditional block: descend with the condition
                try:
                    atoms = cond_atoms(st.test)
                except Opaque:
                    atoms = [("opaque", ast.unparse(st.test)[:80])]
                walk(st.body, cond + atoms)
                walk(st.orelse, cond + [("opaque", "else")])
                continue
            if isinstance(st, (ast.For, ast.While, ast.With, ast.Try)):
                inner = list(getattr(st, "body", []))
                if any(isinstance(n, ast.Raise) for s in inner for n in ast.walk(s)):
                    walk(inner, cond + [("opaque", type(st).__name__)])
                continue

    walk(fn.body, [])
    # guards under a condition we do not understand are opaque
    kept = []
    for g in out.guards:
        if any(c[0] == "opaque" for c in g["cond"]):
            out.opaque.append(f"{where}:{g['line']}: guard on `{g['param']}` under a condition that is not understood")
        else:
            kept.append(g)
    out.guards = kept
    # what the body reads from **kwargs
    if kwname:
        for n in ast.walk(fn):
            if isinstance(n, ast.Call) and isinstance(n.func, ast.Attribute) and n.func.attr in ("get", "pop") \
                    and _name(n.func.value) == kwname and n.args and isinstance(n.args[0], ast.Constant):
                out.kwargs_reads.add(str(n.args[0].value))
            if isinstance(n, ast.Subscript) and _name(n.value) == kwname and isinstance(n.slice, ast.Constant):
                out.kwargs_reads.add(str(n.slice.value))
            if isinstance(n, ast.Call) and any(k.arg is None and kwname in ast.unparse(k.value) for k in n.keywords):
                out.kwargs_forwarded = True
    return out


def kw_policy_of(test: ast.AST, key: str) -> dict:
    if isinstance(test, ast.Compare) and len(test.ops) == 1 and isinstance(test.ops[0], ast.NotIn) and _name(test.left) == key:
        return {"names": [c[1] for c in consts_of(test.comparators[0], {}) if c[0] == "str"], "prefixes": []}
    if isinstance(test, ast.Compare) and len(test.ops) == 1 and isinstance(test.ops[0], ast.NotEq) and _name(test.left) == key:
        return {"names": [const_of(test.comparators[0], {})[1]], "prefixes": []}
    if isinstance(test, ast.BoolOp) and isinstance(test.op, ast.And):
        names, prefixes = [], []
        for v in test.values:
            if isinstance(v, ast.Compare) and len(v.ops) == 1 and isinstance(v.ops[0], ast.NotEq) and _name(v.left) == key:
                names.append(const_of(v.comparators[0], {})[1])
            elif isinstance(v, ast.Compare) and len(v.ops) == 1 and isinstance(v.ops[0], ast.NotIn) and _name(v.left) == key:
                names += [c[1] for c in consts_of(v.comparators[0], {})]
            elif isinstance(v, ast.UnaryOp) and isinstance(v.op, ast.Not) and isinstance(v.operand, ast.Call) \
                    and isinstance(v.operand.func, ast.Attribute) and v.operand.func.attr == "startswith" \
                    and _name(v.operand.func.value) == key and len(v.operand.args) == 1:
                prefixes.append(const_of(v.operand.args[0], {})[1])
            else:
                raise Opaque(ast.unparse(v)[:100])
        return {"names": names, "prefixes": prefixes}
    raise Opaque(ast.unparse(test)[:100])


# ---- classes -----------------------------------------------------------------------------------------------------------
_AST_CACHE: dict[str, ast.Module] = {}


def _module_ast(path: str) -> ast.Module:
    if path not in _AST_CACHE:
        import warnings

        with warnings.catch_warnings():
            warnings.simplefilter("ignore")
            _AST_CACHE[path] = ast.parse(pathlib.Path(path).read_text())
    return _AST_CACHE[path]


def _find_method(cls: type, name: str = "__init__"):
    mod = sys.modules.get(cls.__module__)
    path = getattr(mod, "__file__", None)
    if not path or not path.endswith(".py"):
        return None, None
    for node in ast.walk(_module_ast(path)):
        if isinstance(node, ast.ClassDef) and node.name == cls.__name__:
            for st in node.body:
                if isinstance(st, ast.FunctionDef) and st.name == name:
                    return st, vars(mod)
    return None, None


def simple_default(p: inspect.Parameter):
    """signature default as a YAML-like value, or the marker NODEFAULT / UNKNOWN"""
    d = p.default
    if d is inspect.Parameter.empty:
        return "NODEFAULT"
    if isinstance(d, enum.Enum):
        return d
    if d is None or isinstance(d, (bool, int, float, str)):
        return d
    if isinstance(d, (list, tuple)) and all(x is None or isinstance(x, (bool, int, float, str)) for x in d):
        return list(d)
    return "UNKNOWN"


def class_guards(cls: type, repo: pathlib.Path) -> dict:
    """guards of `cls.__init__` including those of the base constructors it chains to.
    -> {guards: [{param, guard, cond, where}], opaque: [...], kw_policy, params: {name: default}, varkw, kwargs_reads, forwarded}"""
    res = {"guards": [], "opaque": [], "kw_policy": None, "kwargs_reads": set(), "forwarded": False}
    sig = inspect.signature(cls.__init__)
    res["params"] = {p.name: simple_default(p) for p in list(sig.parameters.values())[1:]
                     if p.kind not in (p.VAR_KEYWORD, p.VAR_POSITIONAL)}
    res["varkw"] = any(p.kind == p.VAR_KEYWORD for p in sig.parameters.values())
    mapping: dict[str, str] | None = None          # base parameter -> parameter of `cls`
    for depth, c in enumerate(cls.__mro__):
        if c is object or "__init__" not in vars(c):
            continue
        mod = sys.modules.get(c.__module__)
        path = getattr(mod, "__file__", "") or ""
        if not path.startswith(str(repo)):
            break
        fn, glob = _find_method(c)
        if fn is None:
            break
        where = f"{pathlib.Path(path).relative_to(repo)}:{c.__name__}.__init__"
        found = scan_function(fn, glob, where)
        for g in found.guards:
            if mapping is None:
                res["guards"].append({**g, "where": where})
            else:
                names = [g["param"]] + [a[1] for a in g["cond"]] + ([g["guard"][3]] if g["guard"][0] == "eqOrRange" else [])
                if all(n in mapping for n in names):
                    g2 = dict(g, param=mapping[g["param"]], cond=[(k, mapping[n]) for k, n in g["cond"]], where=where)
                    if g["guard"][0] == "eqOrRange":
                        g2["guard"] = g["guard"][:3] + (mapping[g["guard"][3]],)
                    if g["guard"][0] == "vacuous":
                        g2["guard"] = ("vacuous", mapping.get(g["guard"][1], g["guard"][1]))
                    res["guards"].append(g2)
                else:
                    res["opaque"].append(f"{where}:{g['line']}: base-class guard on `{g['param']}` not fed by a parameter of {cls.__name__}")
        res["opaque"] += found.opaque
        if mapping is None:
            res["kw_policy"] = found.kw_policy
            res["kwargs_reads"] = found.kwargs_reads
            res["forwarded"] = found.kwargs_forwarded
        if found.super_call is None:
            break
        # parameter mapping through super().__init__(...)
        base = next((b for b in cls.__mro__[depth + 1:] if b is not object and "__init__" in vars(b)), None)
        if base is None:
            break
        bparams = [p.name for p in list(inspect.signature(base.__init__).parameters.values())[1:]]
        new: dict[str, str] = {}
        for i, a in enumerate(found.super_call.args):
            if i < len(bparams) and _name(a):
                new[bparams[i]] = a.id
        for k in found.super_call.keywords:
            if k.arg and _name(k.value):
                new[k.arg] = k.value.id
        mapping = new if mapping is None else {b: mapping[v] for b, v in new.items() if v in mapping}
    return res


def function_guards(module, func: str, repo: pathlib.Path) -> dict:
    path = module.__file__
    for node in ast.walk(_module_ast(path)):
        if isinstance(node, ast.FunctionDef) and node.name == func:
            where = f"{pathlib.Path(path).relative_to(repo)}:{func}"
            found = scan_function(node, vars(module), where)
            return {"guards": [dict(g, where=where) for g in found.guards], "opaque": found.opaque}
    return {"guards": [], "opaque": [f"{path}: function {func} not found"]}


# ---- consumers of configuration values outside constructors: the call chain is checked syntactically ---------------------------
def source_has(repo: pathlib.Path, rel: str, func: str, needles: list[str]) -> bool:
    """the function `func` of `rel` contains every needle (whitespace-insensitive)"""
    try:
        tree = _module_ast(str(repo / rel))
    except (OSError, SyntaxError):
        return False
    for node in ast.walk(tree):
        if isinstance(node, ast.FunctionDef) and node.name == func:
            src = ast.unparse(node).replace(" ", "").replace("\n", "")
            return all(n.replace(" ", "") in src for n in needles)
    return False


# ---- attribute chains rooted at the configuration object --------------------------------------------------------------------
def cfg_attribute_chains(repo: pathlib.Path, files: list[pathlib.Path]) -> list[tuple[str, int, tuple[str, ...], bool]]:
    """every `cfg.a.b.c` / `env.cfg.a.b` / `self.cfg.a.b` attribute chain -> (file, line, (a, b, c), is_store)"""
    out = []
    for p in files:
        try:
            tree = _module_ast(str(p))
        except (OSError, SyntaxError):
            continue
        rel = str(p.relative_to(repo))
        inner: set[int] = set()
        for node in ast.walk(tree):
            if isinstance(node, ast.Attribute):
                if id(node) in inner:
                    continue
                chain = []
                n = node
                while isinstance(n, ast.Attribute):
                    chain.append(n.attr)
                    inner.add(id(n.value))
                    n = n.value
                root = None
                if isinstance(n, ast.Name):
                    root = n.id
                chain.reverse()
                if root == "cfg":
                    path = chain
                elif root in ("env", "self", "environment") and chain[:1] == ["cfg"]:
                    path = chain[1:]
                elif root in ("env", "self") and chain[:2] == ["engine", "cfg"]:
                    path = chain[2:]
                else:
                    continue
                if path:
                    out.append((rel, node.lineno, tuple(path), isinstance(node.ctx, ast.Store)))
    return out


if __name__ == "__main__":   # debugging aid: print what is extracted
    sys.path.insert(0, str(pathlib.Path(__file__).resolve().parents[2]))
    import boot  # noqa: F401
    from core import REPO
    import direct.common.subsample as S

    for n, c in sorted(vars(S).items()):
        if inspect.isclass(c) and n.endswith("MaskFunc"):
            r = class_guards(c, REPO)
            print(n, [(g["param"], g["guard"], g["cond"]) for g in r["guards"]], r["opaque"])


# ---- dispatch chains: `if T == c: … elif T in [...]: … else: …` on a parameter or on `self.attr` ----------------------------------
def _target(node):
    if isinstance(node, ast.Name):
        return ("p", node.id)
    if isinstance(node, ast.Attribute) and isinstance(node.value, ast.Name) and node.value.id == "self":
        return ("s", node.attr)
    return None


def _branch_on(test: ast.AST, glob: dict):
    """-> (target, [consts]) for `T == c` / `T in [..]`"""
    if isinstance(test, ast.Compare) and len(test.ops) == 1:
        t = _target(test.left)
        if t and isinstance(test.ops[0], ast.Eq):
            return t, [const_of(test.comparators[0], glob)]
        if t and isinstance(test.ops[0], ast.In):
            return t, consts_of(test.comparators[0], glob)
    raise Opaque("not a dispatch test")


def dispatch_chains(fn: ast.FunctionDef, glob: dict) -> list[dict]:
    """every dispatch on one target inside `fn`: {target, consts, raises (the final else raises), line}"""
    out = []
    done: set[int] = set()

    def visit(body):
        i = 0
        while i < len(body):
            st = body[i]
            if isinstance(st, (ast.FunctionDef, ast.AsyncFunctionDef, ast.ClassDef)):
                i += 1
                continue
            if isinstance(st, ast.If) and id(st) not in done:
                # shape A: if / elif / … / else
                chain, node = [], st
                while True:
                    chain.append(node)
                    if len(node.orelse) == 1 and isinstance(node.orelse[0], ast.If):
                        node = node.orelse[0]
                    else:
                        break
                try:
                    ts, cs = set(), []
                    for n in chain:
                        t, c = _branch_on(n.test, glob)
                        ts.add(t)
                        cs += c
                    if len(ts) == 1:
                        # shape B: consecutive `if T == c: return …` statements followed by a fallback
                        j = i + 1
                        if not node.orelse and all(isinstance(n.body[-1], ast.Return) for n in chain):
                            while j < len(body) and isinstance(body[j], ast.If) and not body[j].orelse \
                                    and isinstance(body[j].body[-1], ast.Return):
                                try:
                                    t2, c2 = _branch_on(body[j].test, glob)
                                except Opaque:
                                    break
                                if t2 not in ts:
                                    break
                                cs += c2
                                done.add(id(body[j]))
                                j += 1
                        out.append({"target": ts.pop(), "consts": cs, "raises": bool(node.orelse) and _raises(node.orelse),
                                    "line": st.lineno})
                        for n in chain:
                            done.add(id(n))
                except Opaque:
                    pass
            for attr in ("body", "orelse", "finalbody"):
                visit(getattr(st, attr, []) or [])
            for h in getattr(st, "handlers", []) or []:
                visit(h.body)
            i += 1

    visit(fn.body)
    return out


def _annotation_enum(fn: ast.FunctionDef, param: str, glob: dict):
    for a in fn.args.args + fn.args.kwonlyargs:
        if a.arg == param and a.annotation is not None:
            for n in ast.walk(a.annotation):
                if isinstance(n, ast.Name):
                    o = glob.get(n.id)
                    if inspect.isclass(o) and issubclass(o, enum.Enum):
                        return o
    return None


def _intended(consts: list, en) -> list:
    """named branch constants + the members of the annotated enum that no branch names (they take the fallback)"""
    out = list(consts)
    if en is not None:
        for m in en:
            if isinstance(m.value, str) and not any(c[0] == "str" and c[1].lower() == m.value.lower() for c in consts):
                out.append(("str", m.value, True))
    return out


def _self_assignments(init: ast.FunctionDef) -> dict[str, str]:
    """self.attr = <parameter>  ->  {attr: parameter}"""
    params = {a.arg for a in init.args.args + init.args.kwonlyargs}
    out = {}
    for n in ast.walk(init):
        if isinstance(n, ast.Assign) and len(n.targets) == 1:
            t = _target(n.targets[0])
            if t and t[0] == "s" and isinstance(n.value, ast.Name) and n.value.id in params:
                out[t[1]] = n.value.id
    return out


def _class_node(cls: type):
    mod = sys.modules.get(cls.__module__)
    path = getattr(mod, "__file__", None)
    if not path or not path.endswith(".py"):
        return None, None, None
    for node in ast.walk(_module_ast(path)):
        if isinstance(node, ast.ClassDef) and node.name == cls.__name__:
            return node, vars(mod), path
    return None, None, None


def callee_dispatch(obj, repo: pathlib.Path) -> dict[str, list[dict]]:
    """parameter of a function / constructor of a class under /repo -> the dispatches that parameter decides
    [{consts (intended), raises, where}] (soft ones only when an Enum annotation says what the fallback stands for)"""
    res: dict[str, list[dict]] = {}
    if inspect.isclass(obj):
        node, glob, path = _class_node(obj)
        if node is None or not path.startswith(str(repo)):
            return res
        init = next((st for st in node.body if isinstance(st, ast.FunctionDef) and st.name == "__init__"), None)
        if init is None:
            return res
        assigned = _self_assignments(init)
        rel = str(pathlib.Path(path).relative_to(repo))
        for st in node.body:
            if not isinstance(st, ast.FunctionDef):
                continue
            for d in dispatch_chains(st, glob):
                kind, name = d["target"]
                if kind == "s" and name in assigned:
                    p = assigned[name]
                elif kind == "p" and st.name == "__init__":
                    p = name
                else:
                    continue
                en = _annotation_enum(init, p, glob)
                if not d["raises"] and en is None:
                    continue
                res.setdefault(p, []).append({"consts": _intended(d["consts"], None if d["raises"] else en),
                                              "raises": d["raises"], "where": f"{rel}:{obj.__name__}.{st.name}:{d['line']}"})
    elif inspect.isfunction(obj):
        mod = sys.modules.get(obj.__module__)
        path = getattr(mod, "__file__", "") or ""
        if not path.startswith(str(repo)):
            return res
        rel = str(pathlib.Path(path).relative_to(repo))
        for node in ast.walk(_module_ast(path)):
            if isinstance(node, ast.FunctionDef) and node.name == obj.__name__:
                for d in dispatch_chains(node, vars(mod)):
                    kind, name = d["target"]
                    if kind != "p":
                        continue
                    en = _annotation_enum(node, name, vars(mod))
                    if not d["raises"] and en is None:
                        continue
                    res.setdefault(name, []).append({"consts": _intended(d["consts"], None if d["raises"] else en),
                                                     "raises": d["raises"], "where": f"{rel}:{obj.__name__}:{d['line']}"})
                break
    return res


def class_routes(cls: type, repo: pathlib.Path) -> list[dict]:
    """dispatches a constructor parameter of `cls` decides — in its own methods (on `self.attr = parameter`) and, one call
    away, in the functions / classes its constructor hands the parameter to.  -> [{param, consts, raises, where}]"""
    out = []
    seen = set()

    def add(p, d):
        key = (p, d["where"])
        if key not in seen:
            seen.add(key)
            out.append({"param": p, **d})

    own = callee_dispatch(cls, repo)
    init_guard_lines = set()
    node, glob, path = _class_node(cls)
    if node is None:
        return out
    init = next((st for st in node.body if isinstance(st, ast.FunctionDef) and st.name == "__init__"), None)
    for p, ds in own.items():
        for d in ds:
            if ".__init__:" in d["where"] and d["raises"]:
                continue          # already a constructor guard
            add(p, d)
    if init is None:
        return out
    params = {a.arg for a in init.args.args + init.args.kwonlyargs}
    for n in ast.walk(init):
        if not isinstance(n, ast.Call) or not isinstance(n.func, ast.Name):
            continue
        callee = glob.get(n.func.id)
        if callee is None or not (inspect.isfunction(callee) or inspect.isclass(callee)):
            continue
        try:
            sig = inspect.signature(callee.__init__ if inspect.isclass(callee) else callee)
        except (TypeError, ValueError):
            continue
        names = [q.name for q in sig.parameters.values()]
        if inspect.isclass(callee):
            names = names[1:]
        disp = None
        for i, a in enumerate(n.args):
            if isinstance(a, ast.Name) and a.id in params and i < len(names):
                disp = disp if disp is not None else callee_dispatch(callee, repo)
                for d in disp.get(names[i], []):
                    add(a.id, d)
        for k in n.keywords:
            if k.arg and isinstance(k.value, ast.Name) and k.value.id in params:
                disp = disp if disp is not None else callee_dispatch(callee, repo)
                for d in disp.get(k.arg, []):
                    add(k.value.id, d)
    return out


# ---- probes: run the REAL test expressions of a dispatch on a value (used by the oracle and the correspondence) ----------------
def _chain_tests(fn: ast.FunctionDef, line: int, glob: dict):
    """the test expressions (compiled from the current source) of the dispatch starting at `line`, its target, and
    whether the final else raises"""
    for n in ast.walk(fn):
        if isinstance(n, ast.If) and n.lineno == line:
            tests, node = [], n
            while True:
                tests.append(node.test)
                if len(node.orelse) == 1 and isinstance(node.orelse[0], ast.If):
                    node = node.orelse[0]
                else:
                    break
            # shape B: following sibling ifs on the same target are found through dispatch_chains' bookkeeping
            return tests
    return []


def route_probes(cls: type, repo: pathlib.Path) -> list[dict]:
    """for every dispatch a constructor parameter of `cls` decides: {param, where, enum, index(value) -> int}
    `index` evaluates the real test expressions in source order and returns the number of the first true one
    (len(tests) = the fallback)."""
    out = []
    for rt in class_routes(cls, repo):
        rel, owner, line = rt["where"].rsplit(":", 2)
        path = str(repo / rel)
        tree = _module_ast(path)
        fn_name = owner.split(".")[-1]
        cls_name = owner.split(".")[0] if "." in owner else None
        fn = None
        for node in ast.walk(tree):
            if cls_name and isinstance(node, ast.ClassDef) and node.name == cls_name:
                fn = next((st for st in node.body if isinstance(st, ast.FunctionDef) and st.name == fn_name), None)
            elif not cls_name and isinstance(node, ast.FunctionDef) and node.name == fn_name:
                fn = node
            if fn is not None:
                break
        if fn is None:
            continue
        # all tests of the dispatch: the chain at `line` plus (shape B) the sibling ifs dispatch_chains merged into it
        mod = None
        for m in list(sys.modules.values()):
            if getattr(m, "__file__", None) == path:
                mod = m
                break
        if mod is None:
            continue
        glob = vars(mod)
        tests = _chain_tests(fn, int(line), glob)
        if not tests:
            continue
        t0 = _branch_target(tests[0])
        if t0 is None:
            continue
        # siblings (shape B)
        parent_body = None
        for n in ast.walk(fn):
            for attr in ("body", "orelse"):
                b = getattr(n, attr, None)
                if isinstance(b, list) and any(isinstance(x, ast.If) and x.lineno == int(line) for x in b):
                    parent_body = b
        if parent_body is not None:
            idx = next(i for i, x in enumerate(parent_body) if isinstance(x, ast.If) and x.lineno == int(line))
            first = parent_body[idx]
            if not first.orelse and isinstance(first.body[-1], ast.Return):
                for x in parent_body[idx + 1:]:
                    if isinstance(x, ast.If) and not x.orelse and isinstance(x.body[-1], ast.Return) and _branch_target(x.test) == t0:
                        tests.append(x.test)
                    else:
                        break
        codes = [compile(ast.Expression(body=t), f"<{rt['where']}>", "eval") for t in tests]
        en = None
        # the enum the parameter is annotated with (callee side)
        if cls_name:
            owner_cls = glob.get(cls_name)
            cnode, cglob, _ = _class_node(owner_cls) if inspect.isclass(owner_cls) else (None, None, None)
            if cnode is not None:
                init = next((st for st in cnode.body if isinstance(st, ast.FunctionDef) and st.name == "__init__"), None)
                if init is not None:
                    assigned = _self_assignments(init)
                    pname = assigned.get(t0[1], t0[1]) if t0[0] == "s" else t0[1]
                    en = _annotation_enum(init, pname, cglob)
        else:
            en = _annotation_enum(fn, t0[1], glob)

        def index(value, codes=codes, t0=t0, glob=glob):
            import types

            loc = {"self": types.SimpleNamespace(**{t0[1]: value})} if t0[0] == "s" else {t0[1]: value}
            for i, c in enumerate(codes):
                if eval(c, glob, loc):  # noqa: S307 — expressions of the repository's own source
                    return i
            return len(codes)

        out.append({"param": rt["param"], "where": rt["where"], "enum": en, "raises": rt["raises"], "index": index,
                    "n_tests": len(codes)})
    return out


def _branch_target(test: ast.AST):
    if isinstance(test, ast.Compare) and len(test.ops) == 1:
        return _target(test.left)
    return None


def named_member(en, value):
    """the member of `en` a configuration value names: by member name, by member value (case-insensitively), or as the text
    `Cls.NAME` that OmegaConf stores for an Enum default of a `str` field"""
    if en is None or value is None:
        return None
    if isinstance(value, en):
        return value
    text = str(value.value) if isinstance(value, enum.Enum) else str(value)
    if text.startswith(en.__name__ + "."):
        text = text[len(en.__name__) + 1:]
    for m in en:
        if m.name.lower() == text.lower() or str(m.value).lower() == text.lower():
            return m
    return None


# =====================================================================================================================
# collection (called from recipes/c20.py `introspect`) and Lean emission
CONFIG_ROOTS = ("model", "additional_models", "physics", "training", "validation", "inference", "logging")

# the call chains from a configuration value to the function whose guard decides about it; each hop is checked
# syntactically on the current source (a hop that is no longer there makes the consumer `unverified`: reported, not proved)
CONSUMER_ROUTES = [
    {"path": ["validation", "crop"], "module": "direct.nn.mri_models", "attr": "_compute_resolution", "param": "key",
     "needs": ["validation", "datasets"],
     "hops": [("direct/nn/mri_models.py", "evaluate", ["crop=self.cfg.validation.crop"]),
              ("direct/nn/mri_models.py", "reconstruct_volumes", ["_compute_resolution(key=crop"])]},
    {"path": ["training", "loss", "crop"], "module": "direct.nn.mri_models", "attr": "_compute_resolution", "param": "key",
     "needs": ["training", "datasets"],
     "hops": [("direct/nn/mri_models.py", "build_loss", ["_compute_resolution(self.cfg.training.loss.crop"])]},
    {"path": ["inference", "crop"], "module": "direct.nn.mri_models", "attr": "_compute_resolution", "param": "key",
     "needs": ["inference", "dataset"],
     "hops": [("direct/inference.py", "setup_inference_save_to_h5", ["env.cfg.inference.crop", "crop=crop"]),
              ("direct/inference.py", "inference_on_environment", ["crop=crop"]),
              ("direct/engine.py", "predict", ["self.reconstruct_volumes(", "crop=crop"]),
              ("direct/nn/mri_models.py", "reconstruct_volumes", ["_compute_resolution(key=crop"])]},
]

# str_to_class call sites the model knows (file, enclosing function)
MODELLED_STR_TO_CLASS = {
    ("direct/environment.py", "load_model_config_from_name"), ("direct/environment.py", "load_model_from_name"),
    ("direct/environment.py", "load_dataset_config"), ("direct/environment.py", "build_operators"),
    ("direct/environment.py", "setup_engine"), ("direct/common/subsample.py", "build_masking_function"),
    ("direct/data/datasets.py", "build_dataset"), ("direct/engine.py", "_build_function_class"),
    ("direct/train.py", "setup_train"),
}


# modules whose attributes the model's look-ups cover; `direct.nn.<…>` paths are computed from the model name
KNOWN_LOOKUP_MODULES = {"direct.data.datasets_config", "direct.data.transforms", "direct.common.subsample", "direct.data.datasets",
                        "direct.functionals", "torch.optim"}


def lookup_module_known(arg: ast.AST, fn: ast.FunctionDef, tree: ast.Module, depth: int = 0) -> bool:
    """the module expression of a `str_to_class` site denotes one of the modelled modules — whatever the enclosing function is
    called: a constant, an f-string / concatenation starting with `direct.nn.`, a local assigned once from such an expression,
    or a parameter that every call of the function in the file binds to such an expression"""
    if depth > 4:
        return False
    from .c20 import module_string_constants

    consts = module_string_constants(tree)

    def static_prefix(e) -> str:
        """the constant text an expression is known to start with"""
        if isinstance(e, ast.Constant) and isinstance(e.value, str):
            return e.value
        if isinstance(e, ast.Name) and e.id in consts and not any(
                isinstance(n, ast.Name) and n.id == e.id and isinstance(n.ctx, ast.Store) for n in ast.walk(fn)):
            return consts[e.id]
        if isinstance(e, ast.JoinedStr):
            out = ""
            for v in e.values:
                if isinstance(v, ast.Constant):
                    out += str(v.value)
                elif isinstance(v, ast.FormattedValue) and v.conversion == -1 and v.format_spec is None \
                        and isinstance(v.value, ast.Name) and v.value.id in consts:
                    out += consts[v.value.id]
                else:
                    break
            return out
        if isinstance(e, ast.BinOp) and isinstance(e.op, ast.Add):
            return static_prefix(e.left)
        return ""

    if isinstance(arg, ast.Constant) or (isinstance(arg, ast.Name) and static_prefix(arg)):
        text = static_prefix(arg)
        return text in KNOWN_LOOKUP_MODULES or text.startswith("direct.nn.")
    if isinstance(arg, (ast.JoinedStr, ast.BinOp)):
        return static_prefix(arg).startswith("direct.nn.")
    if isinstance(arg, ast.Name):
        assigns = [n.value for n in ast.walk(fn) if isinstance(n, ast.Assign) and len(n.targets) == 1
                   and isinstance(n.targets[0], ast.Name) and n.targets[0].id == arg.id]
        if len(assigns) == 1:
            return lookup_module_known(assigns[0], fn, tree, depth + 1)
        params = [a.arg for a in fn.args.args]
        if not assigns and arg.id in params:
            idx = params.index(arg.id)
            calls = []
            for outer, _cls in _enclosing_functions(tree):
                for n in ast.walk(outer):
                    if isinstance(n, ast.Call) and ast.unparse(n.func).split(".")[-1] == fn.name and outer is not fn:
                        bound = None
                        off = 1 if params and params[0] in ("self", "cls") else 0
                        if idx - off < len(n.args) and idx - off >= 0:
                            bound = n.args[idx - off]
                        for kw in n.keywords:
                            if kw.arg == arg.id:
                                bound = kw.value
                        calls.append((bound, outer))
            return bool(calls) and all(b is not None and lookup_module_known(b, o, tree, depth + 1) for b, o in calls)
    return False


def _enclosing_functions(tree: ast.Module):
    """yield (function node, class name or None) for every function, innermost last"""
    def rec(body, cls):
        for st in body:
            if isinstance(st, ast.ClassDef):
                yield from rec(st.body, st.name)
            elif isinstance(st, (ast.FunctionDef, ast.AsyncFunctionDef)):
                yield st, cls
                yield from rec(st.body, cls)
    yield from rec(tree.body, None)


def collect(info, mods: dict, repo: pathlib.Path):
    import importlib

    # ---- constructors ---------------------------------------------------------------------------------------------
    def add_class(route: int, module: str, attr: str, cls: type, override: dict | None = None):
        r = class_guards(cls, repo)
        params = dict(r["params"])
        params.update(override or {})
        sig = inspect.signature(cls.__init__)
        required = [p.name for p in list(sig.parameters.values())[1:]
                    if p.kind not in (p.VAR_KEYWORD, p.VAR_POSITIONAL) and p.default is inspect.Parameter.empty
                    and p.name not in (override or {})]
        routes = []
        if route == 0:
            try:
                routes = class_routes(cls, repo)
            except Exception as e:  # noqa: BLE001 — a dispatch we cannot read is reported, never fatal
                r["opaque"].append(f"{module}.{attr}: dispatch chains not read ({e!r})")
        info.guard_classes.append({"route": route, "module": module, "attr": attr, "params": params, "required": required,
                                   "varkw": r["varkw"], "kw_policy": r["kw_policy"], "guards": r["guards"],
                                   "opaque": r["opaque"], "kwargs_reads": sorted(r["kwargs_reads"]),
                                   "forwarded": r["forwarded"], "routes": routes})

    for name, _mri in info.registered_models:
        modname, cls = name.rsplit(".", 1)
        m = mods.get("direct.nn." + modname)
        if m is not None and inspect.isclass(getattr(m, cls, None)):
            add_class(0, "direct.nn." + modname, cls, getattr(m, cls))
    sub = mods.get("direct.common.subsample")
    if sub is not None:
        bsig = inspect.signature(sub.build_masking_function)
        # the builder always passes these three, with its own defaults when the block is silent
        builder_over = {p.name: simple_default(p) for p in bsig.parameters.values()
                        if p.name in ("center_fractions", "uniform_range", "mode")}
        for n in info.registered_masks:
            cls = getattr(sub, n + "MaskFunc")
            cparams = inspect.signature(cls.__init__).parameters
            over = {k: v for k, v in builder_over.items() if k in cparams or any(p.kind == p.VAR_KEYWORD for p in cparams.values())}
            add_class(1, "direct.common.subsample", n + "MaskFunc", cls, over)
    ds = mods.get("direct.data.datasets")
    if ds is not None:
        for n in list(info.registered_datasets) + list(info.dataset_bases):
            add_class(2, "direct.data.datasets", n + "Dataset", getattr(ds, n + "Dataset"))
    # ---- functions fed by configuration values ---------------------------------------------------------------------
    seen_fn = set()
    for route in CONSUMER_ROUTES:
        verified = all(source_has(repo, rel, fn, needles) for rel, fn, needles in route["hops"])
        info.consumers.append({**{k: route[k] for k in ("path", "module", "attr", "param", "needs")}, "verified": verified})
        key = (route["module"], route["attr"])
        if key not in seen_fn:
            seen_fn.add(key)
            try:
                module = importlib.import_module(route["module"])
                r = function_guards(module, route["attr"], repo)
            except Exception as e:  # noqa: BLE001
                r = {"guards": [], "opaque": [f"{route['module']}.{route['attr']}: {e!r}"]}
            info.guard_classes.append({"route": 3, "module": route["module"], "attr": route["attr"], "params": {}, "required": [],
                                       "varkw": False, "kw_policy": None, "guards": r["guards"], "opaque": r["opaque"],
                                       "kwargs_reads": [], "forwarded": False, "routes": []})
    # ---- attribute chains rooted at the configuration object ---------------------------------------------------------
    files = sorted((repo / "direct").rglob("*.py")) + sorted((repo / "projects").rglob("*.py")) + sorted((repo / "tools").rglob("*.py"))
    all_src = {}
    for p in files:
        try:
            all_src[p] = p.read_text()
        except OSError:
            pass
    relevant = [p for p, src in all_src.items() if "cfg." in src or "str_to_class(" in src]
    chains = cfg_attribute_chains(repo, [p for p in relevant if "cfg." in all_src[p]])
    fn_index: dict[str, list] = {}
    for p in relevant:
        try:
            tree = _module_ast(str(p))
        except SyntaxError:
            continue
        fn_index[str(p.relative_to(repo))] = [(f.lineno, getattr(f, "end_lineno", f.lineno), f.name, cls, f)
                                              for f, cls in _enclosing_functions(tree)]
    joined = "\n".join(all_src.values())

    def enclosing(rel, line):
        best = None
        for lo, hi, name, cls, f in fn_index.get(rel, []):
            if lo <= line <= hi and (best is None or lo >= best[0]):
                best = (lo, hi, name, cls, f)
        return best

    import re as _re
    from collections import Counter as _Counter

    ident_counts = _Counter(_re.findall(r"[A-Za-z_][A-Za-z_0-9]*", joined))

    for rel, line, path, store in chains:
        if path[0] not in CONFIG_ROOTS:
            continue
        enc = enclosing(rel, line)
        fname = enc[2] if enc else "<module>"
        cls = enc[3] if enc else None
        # a function nobody refers to (other than its own `def`) is never run: its chains are reported separately
        called = True
        if enc and not fname.startswith("__"):
            called = ident_counts.get(fname, 0) > 1
        # the callee of a call is a method name, not a key
        is_method = False
        if enc:
            for n in ast.walk(enc[4]):
                if isinstance(n, ast.Call) and isinstance(n.func, ast.Attribute) and n.func.lineno == line \
                        and n.func.attr == path[-1]:
                    chain = []
                    m = n.func
                    while isinstance(m, ast.Attribute):
                        chain.append(m.attr)
                        m = m.value
                    if tuple(reversed(chain))[-len(path):] == path:
                        is_method = True
        p2 = path[:-1] if is_method else path
        if not p2:
            continue
        if p2[0] == "model" and len(p2) >= 2 and cls and cls.endswith("Engine") and rel.startswith("direct/nn/"):
            mod = rel[:-3].replace("/", ".")
            if p2[1] not in ("model_name", "engine_name"):
                info.engine_model_fields.append((mod, cls, p2[1], f"{rel}:{line}"))
            continue
        info.cfg_chains.append((rel, line, tuple(p2), store, fname, called))
    # an engine class also runs the methods it inherits: attribute the reads of its bases to it
    by_cls: dict[tuple, list] = {}
    for m, c, f, w in info.engine_model_fields:
        by_cls.setdefault((m, c), []).append((f, w))
    for m, c in info.registered_engines:
        cls_obj = getattr(mods.get(m), c, None)
        for base in getattr(cls_obj, "__mro__", [])[1:]:
            for f, w in by_cls.get((base.__module__, base.__name__), []):
                info.engine_model_fields.append((m, c, f, w))
    # ---- every str_to_class call site ----------------------------------------------------------------------------------
    # A private helper that hands its own parameters straight to `str_to_class` is transparent: the sites are the calls of
    # the helper (what matters is which (module, name) strings reach `str_to_class`, not the function they travel through).
    from .c20 import resolver_helpers

    for p in all_src:
        rel = str(p.relative_to(repo))
        if "str_to_class(" not in all_src[p]:
            continue
        try:
            helpers = resolver_helpers(_module_ast(str(p)))
        except SyntaxError:
            helpers = {}
        for lo, hi, name, cls, f in fn_index.get(rel, []):
            if cls is None and name in helpers:
                continue
            for n in ast.walk(f):
                if isinstance(n, ast.Call) and len(n.args) >= 1:
                    cname = ast.unparse(n.func).split(".")[-1]
                    if cname == "str_to_class" or (isinstance(n.func, ast.Name) and cname in helpers):
                        inner = enclosing(rel, n.lineno)
                        if inner and inner[2] == name:
                            marg = n.args[0]
                            if cname != "str_to_class":
                                mi, _ai, ps = helpers[cname]
                                marg = n.args[mi] if mi < len(n.args) else next((kw.value for kw in n.keywords if kw.arg == ps[mi]), marg)
                            known = lookup_module_known(marg, f, _module_ast(str(p)))
                            info.str_to_class_sites.append((rel, name, ast.unparse(marg)[:60], known))
    info.str_to_class_sites = sorted(set(info.str_to_class_sites))
    # ---- interpolation / Hydra-style `defaults` lists in the shipped files ------------------------------------------------
    def walk_vals(v, where, rel):
        if isinstance(v, dict):
            for k, x in v.items():
                walk_vals(x, where + [str(k)], rel)
        elif isinstance(v, list):
            for i, x in enumerate(v):
                walk_vals(x, where + [str(i)], rel)
        elif isinstance(v, str) and "${" in v:
            info.interpolations.append(f"{rel}: {'.'.join(where)} = {v}")

    for rel, tree in info.configs:
        walk_vals(tree, [], rel)
        if isinstance(tree, dict) and "defaults" in tree:
            info.interpolations.append(f"{rel}: Hydra-style `defaults` list")
    # ---- transform builder signature -------------------------------------------------------------------------------------
    mt = mods.get("direct.data.mri_transforms") or importlib.import_module("direct.data.mri_transforms")
    bs = inspect.signature(mt.build_mri_transforms)
    info.builder_defaults = {p.name: simple_default(p) for p in bs.parameters.values() if p.kind != p.VAR_KEYWORD}
    info.builder_required = [n for n, d in info.builder_defaults.items() if d == "NODEFAULT"]
    # ---- report only: config fields swallowed by **kwargs that neither the constructor nor the function it forwards to reads ----
    def callee_reads(module_name: str, attr: str) -> set[str]:
        """keys read from **kwargs by the functions the constructor forwards its **kwargs to (one call away)"""
        reads: set[str] = set()
        m = mods.get(module_name)
        cls = getattr(m, attr, None)
        node, glob, _path = _class_node(cls) if inspect.isclass(cls) else (None, None, None)
        if node is None:
            return reads
        init = next((st for st in node.body if isinstance(st, ast.FunctionDef) and st.name == "__init__"), None)
        if init is None or init.args.kwarg is None:
            return reads
        for n in ast.walk(init):
            if isinstance(n, ast.Call) and isinstance(n.func, ast.Name) and any(k.arg is None for k in n.keywords):
                callee = glob.get(n.func.id)
                if inspect.isfunction(callee) and (getattr(sys.modules.get(callee.__module__), "__file__", "") or "").startswith(str(repo)):
                    for fn in ast.walk(_module_ast(sys.modules[callee.__module__].__file__)):
                        if isinstance(fn, ast.FunctionDef) and fn.name == callee.__name__ and fn.args.kwarg is not None:
                            kw = fn.args.kwarg.arg
                            for c in ast.walk(fn):
                                if isinstance(c, ast.Call) and isinstance(c.func, ast.Attribute) and c.func.attr in ("get", "pop") \
                                        and _name(c.func.value) == kw and c.args and isinstance(c.args[0], ast.Constant):
                                    reads.add(str(c.args[0].value))
        return reads

    import dataclasses as _dc

    for gc in info.guard_classes:
        if gc["route"] != 0 or not gc["varkw"]:
            continue
        cfg_cls = info.schema_classes.get((gc["module"].rsplit(".", 1)[0] + ".config", gc["attr"] + "Config"))
        if cfg_cls is None:
            continue
        allowed = set((gc["kw_policy"] or {}).get("names", []))
        reads = set(gc["kwargs_reads"])
        fwd = callee_reads(gc["module"], gc["attr"]) if gc["forwarded"] else set()
        if gc["forwarded"] and not fwd:
            continue            # forwarded somewhere we cannot read: no claim
        for f in _dc.fields(cfg_cls):
            if f.name in ("model_name", "engine_name") or f.name in gc["params"] or f.name in reads or f.name in allowed:
                continue
            if any(f.name == r or f.name.endswith("_" + r) for r in fwd):
                continue
            info.dead_model_keys.append(f"{cfg_cls.__name__}.{f.name}")
    # ---- strings that become symbols --------------------------------------------------------------------------------------------
    for gc in info.guard_classes:
        info.strings.update(gc["params"].keys())
        info.strings.update(gc["required"])
        for g in gc["guards"]:
            info.strings.add(g["param"])
            info.strings.update(a[1] for a in g["cond"])
            if g["guard"][0] == "eqOrRange":
                info.strings.add(g["guard"][3])
        for rt in gc.get("routes", []):
            info.strings.add(rt["param"])
        for d in gc["params"].values():
            if isinstance(d, enum.Enum):
                info.strings.add(str(d.value))
            elif isinstance(d, str) and d not in ("NODEFAULT", "UNKNOWN"):
                info.strings.add(d)
            elif isinstance(d, float):
                info.strings.add(repr(d))
            elif isinstance(d, list):
                for x in d:
                    if isinstance(x, str):
                        info.strings.add(x)
                    elif isinstance(x, float):
                        info.strings.add(repr(x))
    for c in info.consumers:
        info.strings.update(c["path"] + c["needs"] + [c["param"]])
    for ch in info.cfg_chains:
        info.strings.update(ch[2])
    for e in info.engine_model_fields:
        info.strings.add(e[2])
    info.strings.update(info.builder_defaults.keys())
    info.strings.update(["optimizer", "transform", "transforms", "text_description", "crop", "loss"])
    for d in info.builder_defaults.values():
        if isinstance(d, enum.Enum):
            info.strings.update([d.name, str(d.value)])
        elif isinstance(d, float):
            info.strings.add(repr(d))
        elif isinstance(d, str) and d not in ("NODEFAULT", "UNKNOWN"):
            info.strings.add(d)
        elif isinstance(d, list):
            info.strings.update(repr(x) if isinstance(x, float) else x for x in d if isinstance(x, (str, float)))


# ---- Lean text ------------------------------------------------------------------------------------------------------------
def lean_const(c, packed) -> str:
    if c[0] == "none":
        return ".none"
    if c[0] == "bool":
        return f".bool {'true' if c[1] else 'false'}"
    if c[0] == "int":
        return f".int ({c[1]})"
    return f".str {packed(c[1])} {'true' if c[2] else 'false'}"


def lean_guard(g, S, packed) -> str:
    k = g[0]
    cs = lambda xs: "[" + ", ".join(lean_const(c, packed) for c in xs) + "]"  # noqa: E731
    if k == "oneOf":
        return f"(.oneOf {cs(g[1])} false)"
    if k == "oneOfOrFalsy":
        return f"(.oneOf {cs(g[1])} true)"
    if k == "allOneOf":
        return f"(.allOneOf {cs(g[1])})"
    if k == "allBetween":
        return f"(.allBetween ({g[1]}) ({g[2]}))"
    if k == "allIntGt":
        return f"(.allIntGt ({g[1]}))"
    if k == "allMultipleOf":
        return f"(.allMultipleOf {g[1]})"
    if k == "lenIn":
        return f"(.lenIn {list(g[1])})"
    if k == "pairOrdered":
        return f"(.pairOrdered {'true' if g[1] else 'false'})"
    if k == "eqOrRange":
        return f"(.eqOrRange ({g[1]}) ({g[2]}) {S(g[3])})"
    if k == "charsSubset":
        return f"(.charsSubset {list(g[1])})"
    if k == "vacuous":
        return ".vacuous"
    raise ValueError(k)


COND_CODE = {"truthy": 0, "notNone": 1, "falsy": 2}


def default_val(d, info, pool) -> str:
    """constructor default as a `Val` (an Enum member: its value, with kind bit 8 = "is an enum member")"""
    if isinstance(d, enum.Enum):
        return f".str {info.S(str(d.value))} 8"
    if isinstance(d, str) and d in ("NODEFAULT", "UNKNOWN"):
        return ".missing"
    try:
        return pool.val(d)
    except (TypeError, KeyError):
        return ".missing"


def emit_phase3(info, pool, packed, chunked) -> tuple[str, dict]:
    """Lean text of the phase-3 tables (inside namespace DirectVerif.Gen.C20, after `tables`)"""
    S = info.S
    out: list[str] = []
    status: dict[str, str] = {}
    rows, soft, classes, opaque = [], [], [], []
    for gc in info.guard_classes:
        cls = f"({packed(gc['module'])}, {packed(gc['attr'])})"
        for g in gc["guards"]:
            cond = "[" + ", ".join(f"({COND_CODE[k]}, {S(p)})" for k, p in g["cond"]) + "]"
            rows.append(f"{{ route := {gc['route']}, cls := {cls}, param := {S(g['param'])}, cond := {cond}, "
                        f"guard := {lean_guard(g['guard'], S, packed)} }}")
        for rt in gc.get("routes", []):
            consts = "[" + ", ".join(lean_const(c, packed) for c in rt["consts"]) + "]"
            if rt["raises"]:
                rows.append(f"{{ route := {gc['route']}, cls := {cls}, param := {S(rt['param'])}, cond := [], "
                            f"guard := (.oneOf {consts} false) }}")
            else:
                soft.append(f"{{ route := 4, cls := {cls}, param := {S(rt['param'])}, cond := [], "
                            f"guard := (.oneOf {consts} true) }}")
        opaque += gc["opaque"]
        params = "[" + ", ".join(f"({S(n)}, {default_val(d, info, pool)})" for n, d in gc["params"].items()) + "]"
        pol = gc["kw_policy"]
        kw = "none" if pol is None else ("(some ([" + ", ".join(packed(n) for n in pol["names"]) + "], [" +
                                         ", ".join(packed(n) for n in pol["prefixes"]) + "]))")
        classes.append(f"{{ route := {gc['route']}, cls := {cls}, params := {params}, required := {[S(x) for x in gc['required']]}, "
                       f"varkw := {'true' if gc['varkw'] else 'false'}, kwPolicy := {kw} }}")
    out.append("/-! ## phase 3: value-level guards, constructor signatures, consumers of configuration values -/")
    out.append(chunked("guardRows", "List GuardRow", rows, 16))
    out.append("/-- dispatches without a raising `else`: the value must name one of the branches (or be the fallback's member) -/")
    out.append(chunked("softRows", "List GuardRow", soft, 16))
    out.append(chunked("classInfos", "List ClassInfo", classes, 8))
    # exact value of every float literal; value of every enum member
    floats = []
    for sym in info.symbols:
        try:
            f = float(sym)
        except ValueError:
            continue
        if repr(f) == sym and f == f and f not in (float("inf"), float("-inf")):
            n, d = f.as_integer_ratio()
            floats.append(f"({S(sym)}, ({n}), {d})")
    out.append(chunked("floatRatios", "List (Sym × Int × Nat)", floats, 32))
    evs = []
    for e in info.enums.values():
        for mem in e.__members__:
            v = e[mem].value
            if isinstance(v, str):
                evs.append(f"({S(e.__name__ + '.' + mem)}, {packed(v)})")
    out.append(chunked("enumValues", "List (Sym × PStr)", evs, 32))
    out.append("def gtables : GTables := { floats := floatRatios, enumValues := enumValues, rows := guardRows ++ softRows, classes := classInfos }\n")
    out.append("/-- raising statements of the scanned constructors that the guard language does not express (reported, not judged) -/")
    out.append(f"def opaqueGuards : Nat := {len(opaque)}")
    cons = []
    for c in info.consumers:
        if c["verified"]:
            cons.append(f"{{ path := {[S(x) for x in c['path']]}, cls := ({packed(c['module'])}, {packed(c['attr'])}), "
                        f"param := {S(c['param'])}, needs := {[S(x) for x in c['needs']]} }}")
    out.append("def consumers : List Consumer := [\n  " + ",\n  ".join(cons) + "]")
    out.append(f"def consumersUnverified : Nat := {sum(1 for c in info.consumers if not c['verified'])}")
    out.append(f"def kOptimizer : Sym := {S('optimizer')}")
    out.append(f"def maskingSchema : Ty := " + ("ty_direct_common_subsample_config_MaskingConfig"
               if ("direct.common.subsample_config", "MaskingConfig") in info.schema_classes else "Ty.any"))
    # attribute chains
    pk = [c for c in info.cfg_chains if c[0].startswith("direct/")]
    pr = [c for c in info.cfg_chains if not c[0].startswith("direct/")]

    def chain_list(cs):
        seen, res = set(), []
        for rel, line, path, store, fn, called in cs:
            key = (path, called)
            if key in seen:
                continue
            seen.add(key)
            res.append(f"({[S(x) for x in path]}, {'true' if called else 'false'})")
        return res

    out.append("/-- attribute chains `cfg.a.b.c` of the package / of the project scripts: (path, enclosing function is referenced anywhere) -/")
    out.append(chunked("cfgChainsPackage", "List (List Sym × Bool)", chain_list(pk), 24))
    out.append(chunked("cfgChainsProjects", "List (List Sym × Bool)", chain_list(pr), 24))
    emf = sorted({(m, c, f) for m, c, f, _ in info.engine_model_fields})
    out.append("/-- `self.cfg.model.<field>` read by an engine class: (module, class, field) -/")
    out.append(chunked("engineModelFields", "List (PStr × PStr × Sym)", [f"({packed(m)}, {packed(c)}, {S(f)})" for m, c, f in emf], 16))
    out.append("/-- `str_to_class` call sites: (file, function, is one of the modelled look-ups) -/")
    out.append("def strToClassSites : List (PStr × PStr × Bool) := [" + ", ".join(
        f"({packed(rel)}, {packed(fn)}, {'true' if ok else 'false'})" for rel, fn, _m, ok in info.str_to_class_sites) + "]")
    out.append("/-- `${…}` interpolations / Hydra-style `defaults` lists in the shipped files (none of which the merge model covers) -/")
    out.append(f"def interpolations : Nat := {len(info.interpolations)}")
    bd = info.builder_defaults
    out.append("/-- parameters of `build_mri_transforms` with their defaults -/")
    out.append("def builderDefaults : List (Sym × Val) := [" + ", ".join(
        f"({S(n)}, {default_val(d, info, pool)})" for n, d in bd.items()) + "]")
    out.append(f"def builderRequired : List Sym := {[S(x) for x in info.builder_required]}")
    out.append(f"def kTransform : Sym := {S('transform')}")
    out.append(f"def kTextDescription : Sym := {S('text_description')}\n")
    status["guards"] = (f"extracted: {len(rows)} guard rows, {len(soft)} dispatch rows over {len(classes)} constructors / functions; "
                        f"{len(opaque)} opaque raising statements")
    if opaque:
        status["guards_opaque"] = "; ".join(opaque)[:1500]
    unverified = [c for c in info.consumers if not c["verified"]]
    status["consumers"] = f"{len(cons)} verified" + (f", UNVERIFIED: {[c['path'] for c in unverified]}" if unverified else "")
    status["cfg_chains"] = f"{len(pk)} package + {len(pr)} project attribute chains, {len(emf)} engine model-field reads"
    status["str_to_class_sites"] = f"{len(info.str_to_class_sites)} sites, unmodelled: {[(a, b) for a, b, _c, ok in info.str_to_class_sites if not ok]}"
    if info.dead_model_keys:
        status["dead_model_keys(report-only)"] = ", ".join(info.dead_model_keys)[:600]
    if info.interpolations:
        status["interpolations"] = "; ".join(info.interpolations)[:400]
    return "\n".join(out), status
