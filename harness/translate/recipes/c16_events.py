"""C16 — translation of what runs *between* training iterations (direct/engine.py, direct/nn/mri_models.py,
direct/checkpointer.py).

* `betweenTable`: for each call site of the loop body other than `_do_iteration` (first-example logging, validation rounds,
  periodic checkpoint, log writes, the kill path) and for the prologue of `Engine.train`: every statement in the transitive
  closure of `self.…(…)` calls that touches `.grad`, the optimiser, the LR scheduler or the scaler, as Lean data
  (`C16E.Row`), with a flag for statements of `validation_loop` behind its `if not validation_datasets: return`;
* `preCalls` / `midCalls` / `postCalls`: the between-iteration calls of the loop body in source order, relative to
  `_do_iteration` and `lr_scheduler.step()`;
* `resume_start`: the arithmetic of `start_iter` in the resume branch of `Engine.train` (all assignments up to the call of
  `training_loop`); `val_guard`: the condition of `validate_model_at_interval`;
* `ampTable`: the mixed-precision protocol of the loop body (`scale(loss).backward` in the engines, `unscale_` before the
  clipping, `scaler.step`, `scaler.update`, `zero_grad`) with guards.
"""
from __future__ import annotations

import ast

from ..gen import REPO, Kernel, Untranslatable
from ..pyexpr import ExprTr, emit_def, find_function, parse_file, translate_block

E = "direct/engine.py"
M = "direct/nn/mri_models.py"
CK = "direct/checkpointer.py"
GS = "self.cfg.training.gradient_steps"
EVENTS = ("DirectVerif.Model.C16Events",)

SITES = {
    ".prologue": ("Engine", "train"),
    ".logFirst": ("Engine", "log_first_training_example_and_model"),
    ".validationLoop": ("Engine", "validation_loop"),
    ".checkpoint": ("Engine", "checkpoint_model_at_interval"),
    ".writeLogs": ("Engine", "write_to_logs_at_interval"),
    ".killSave": ("Engine", "checkpoint_and_write_to_logs"),
}
EXTRA_ROOTS = {".validationLoop": [("Engine", "validate_model_at_interval")]}
SITE_CODE = {".prologue": 0, ".logFirst": 1, ".validationLoop": 2, ".checkpoint": 3, ".writeLogs": 4, ".killSave": 5}
TOUCH_CODE = {".zeroGrad": 0, ".optStep": 1, ".schedStep": 2, ".scalerUpdate": 3, ".backward": 4, ".gradWrite": 5,
              ".lrWrite": 6, ".loadState": 7, ".doIterUnguarded": 8}


def _norm(node: ast.AST) -> str:
    return ast.unparse(node).replace(" ", "")


def _classes():
    out = {}
    for rel, names in ((E, ("Engine",)), (M, ("MRIModelEngine",)), (CK, ("Checkpointer",))):
        tree = parse_file(REPO / rel)
        for node in tree.body:
            if isinstance(node, ast.ClassDef) and node.name in names:
                out[node.name] = {f.name: f for f in node.body if isinstance(f, ast.FunctionDef)}
    for n in ("Engine", "Checkpointer"):
        if n not in out:
            raise Untranslatable(f"class {n} not found")
    out.setdefault("MRIModelEngine", {})
    return out


def _resolve(classes, cls: str, name: str):
    """the concrete engine is an `MRIModelEngine`: its overrides win"""
    order = {"Engine": ("MRIModelEngine", "Engine"), "MRIModelEngine": ("MRIModelEngine", "Engine"),
             "Checkpointer": ("Checkpointer",)}[cls]
    for c in order:
        if name in classes[c]:
            return c, classes[c][name]
    return None


def _no_grad(fn: ast.FunctionDef) -> bool:
    return any("no_grad" in ast.unparse(d) or "inference_mode" in ast.unparse(d) for d in fn.decorator_list)


def touch_of_call(call: ast.Call) -> str | None:
    if not isinstance(call.func, ast.Attribute):
        f = _norm(call.func)
        if f.endswith("clip_grad_norm_") or f.endswith("clip_grad_value_"):
            return ".gradWrite"
        return None
    f, attr = _norm(call.func), call.func.attr
    if attr == "zero_grad":
        return ".zeroGrad"
    if attr == "step" and ("optimizer" in f or "_scaler" in f or "scaler." in f):
        return ".optStep"
    if attr == "step" and "scheduler" in f:
        return ".schedStep"
    if attr == "update" and "scaler" in f:
        return ".scalerUpdate"
    if attr == "backward":
        return ".backward"
    if attr == "load_state_dict":
        return ".loadState"
    if attr in ("clip_grad_norm_", "clip_grad_value_", "requires_grad_", "unscale_", "add_param_group"):
        return ".gradWrite"
    if attr.endswith("_") and not attr.endswith("__") and ".grad." in f + ".":
        return ".gradWrite"
    return None


def touch_of_target(t: ast.AST) -> str | None:
    if isinstance(t, ast.Attribute) and t.attr == "grad":
        return ".gradWrite"
    if isinstance(t, ast.Attribute) and t.attr in ("last_epoch", "_step_count", "_last_lr", "base_lrs"):
        return ".lrWrite"
    if isinstance(t, ast.Subscript) and "param_groups" in _norm(t):
        return ".lrWrite"
    if isinstance(t, ast.Subscript) and isinstance(t.value, ast.Attribute) and t.value.attr == "grad":
        return ".gradWrite"
    if isinstance(t, (ast.Tuple, ast.List)):
        for e in t.elts:
            r = touch_of_target(e)
            if r:
                return r
    return None


def _scan(classes, cls: str, fn: ast.FunctionDef, needs_val: bool, seen: set, out: list, skip_calls=(), depth=0):
    """append (touch, needsVal) for every touching statement of `fn` and of the `self.…` methods it calls, in source order"""
    key = (cls, fn.name, needs_val)
    if key in seen or depth > 8:
        return
    seen.add(key)
    guarded = _no_grad(fn)
    state = {"needs_val": needs_val, "eval_mode": False}

    def visit_expr(node, in_no_grad):
        for sub in ast.walk(node):
            if not isinstance(sub, ast.Call):
                continue
            t = touch_of_call(sub)
            if t:
                out.append((t, state["needs_val"]))
            if isinstance(sub.func, ast.Attribute):
                f = _norm(sub.func)
                if f == "self.models_validation_mode":
                    state["eval_mode"] = True
                if f == "self.models_training_mode":
                    state["eval_mode"] = False
                if sub.func.attr == "_do_iteration":
                    if not (in_no_grad or state["eval_mode"]):
                        out.append((".doIterUnguarded", state["needs_val"]))
                    continue
                if f.startswith("self.") and f.count(".") == 1 and sub.func.attr not in skip_calls:
                    r = _resolve(classes, cls, sub.func.attr)
                    if r:
                        _scan(classes, r[0], r[1], state["needs_val"], seen, out, skip_calls, depth + 1)
                if f == "self.checkpointer.save":
                    r = _resolve(classes, "Checkpointer", "save")
                    if r:
                        _scan(classes, r[0], r[1], state["needs_val"], seen, out, skip_calls, depth + 1)

    def visit(stmts, in_no_grad):
        for st in stmts:
            if isinstance(st, ast.If):
                visit_expr(st.test, in_no_grad)
                if _norm(st.test) == "notvalidation_datasets" and st.body and isinstance(st.body[0], ast.Return) \
                        and not st.orelse:
                    state["needs_val"] = True
                    continue
                visit(st.body, in_no_grad)
                visit(st.orelse, in_no_grad)
            elif isinstance(st, (ast.For, ast.While)):
                visit_expr(st.iter if isinstance(st, ast.For) else st.test, in_no_grad)
                visit(st.body, in_no_grad)
                visit(st.orelse, in_no_grad)
            elif isinstance(st, ast.With):
                ng = in_no_grad or any("no_grad" in ast.unparse(i.context_expr) for i in st.items)
                for i in st.items:
                    visit_expr(i.context_expr, in_no_grad)
                visit(st.body, ng)
            elif isinstance(st, ast.Try):
                visit(st.body, in_no_grad)
                for h in st.handlers:
                    visit(h.body, in_no_grad)
                visit(st.orelse, in_no_grad)
                visit(st.finalbody, in_no_grad)
            elif isinstance(st, (ast.FunctionDef, ast.ClassDef)):
                visit(st.body, in_no_grad)
            else:
                targets = []
                if isinstance(st, ast.Assign):
                    targets = st.targets
                elif isinstance(st, (ast.AugAssign, ast.AnnAssign)):
                    targets = [st.target]
                elif isinstance(st, ast.Delete):
                    targets = st.targets
                for t in targets:
                    r = touch_of_target(t)
                    if r:
                        out.append((r, state["needs_val"]))
                visit_expr(st, in_no_grad)

    visit(fn.body, guarded)


def between_rows():
    classes = _classes()
    rows = []
    for site, (cls, name) in SITES.items():
        roots = [(cls, name)] + EXTRA_ROOTS.get(site, [])
        for rc, rn in roots:
            r = _resolve(classes, rc, rn)
            if r is None:
                raise Untranslatable(f"{rc}.{rn} not found")
            out: list = []
            skip = ("training_loop",) if site == ".prologue" else ()
            _scan(classes, r[0], r[1], False, set(), out, skip_calls=skip)
            rows += [(site, t, nv) for t, nv in out]
    return rows


def table_codes() -> list[int]:
    """the translated table in protocol form (the driver interprets it); the model's own table when not understood"""
    try:
        rows = between_rows()
    except Untranslatable:
        rows = [(".prologue", ".zeroGrad", False)]
    out = []
    for s, t, nv in rows:
        out += [SITE_CODE[s], TOUCH_CODE[t], int(nv)]
    return out


def _between_table():
    name = "betweenTable"
    try:
        rows = between_rows()
        body = ", ".join(f"{{ site := {s}, touch := {t}, needsVal := {'true' if nv else 'false'} }}" for s, t, nv in rows)
        return (f"/-- translated from `{E}`, `{M}`, `{CK}`: statements outside the loop's gradient statements that touch\n"
                f"`.grad` / optimiser / scheduler / scaler, per call site -/\n"
                f"def {name} : C16E.Table := [{body}]\n"), {name: f"translated ({len(rows)} rows)"}
    except Untranslatable as e:
        return (f"/-- SKIPPED ({e}) -/\ndef {name} : C16E.Table := C16E.table\n"), {name: f"skipped: {e}"}


# --------------------------------------------------------------------------------------------------
def _main_loop(fn: ast.FunctionDef) -> ast.For:
    """the loop of `training_loop` with the `self._method(…)` calls of the Engine class inlined at their call sites"""
    from .c16_inline import class_methods, inlined_main_loop

    loop = inlined_main_loop(fn, class_methods(parse_file(REPO / E)))
    if loop.c16_opaque:
        raise Untranslatable(f"self-call(s) {loop.c16_opaque} in the loop body could not be inlined")
    return loop


CALL_SITE = {"self.log_first_training_example_and_model": ".logFirst", "validation_func": ".validationLoop",
             "self.validate_model_at_interval": ".validationLoop", "self.checkpoint_model_at_interval": ".checkpoint",
             "self.write_to_logs_at_interval": ".writeLogs", "self.validation_loop": ".validationLoop"}


def _loop_calls():
    names = ("preCalls", "midCalls", "postCalls")
    try:
        fn = find_function(parse_file(REPO / E), "Engine.training_loop")
        loop = _main_loop(fn)
        vf = [st for st in fn.body if isinstance(st, ast.Assign) and _norm(st.targets[0]) == "validation_func"]
        if len(vf) != 1 or not _norm(vf[0].value).startswith("functools.partial(self.validation_loop,"):
            raise Untranslatable("`validation_func` is not `functools.partial(self.validation_loop, …)`")
        phase = {"v": 0}
        lists = ([], [], [])

        def walk(stmts):
            for st in stmts:
                if isinstance(st, ast.If):
                    walk(st.body)
                    walk(st.orelse)
                    continue
                if isinstance(st, ast.Try):
                    walk(st.body)      # handlers = OOM recovery / kill path, not a completed iteration
                    continue
                if isinstance(st, (ast.For, ast.While, ast.With)):
                    walk(st.body)
                    continue
                for c in sorted((n for n in ast.walk(st) if isinstance(n, ast.Call)), key=lambda n: (n.lineno, n.col_offset)):
                    f = _norm(c.func)
                    if f.endswith("._do_iteration"):
                        phase["v"] = max(phase["v"], 1)
                    elif f.endswith("lr_scheduler.step"):
                        phase["v"] = 2
                    elif f in CALL_SITE:
                        lists[phase["v"]].append(CALL_SITE[f])
        walk(loop.body)
        text = "".join(f"/-- translated from `{E}`:`Engine.training_loop` (between-iteration calls, source order) -/\n"
                       f"def {n} : List C16E.Site := [{', '.join(l)}]\n" for n, l in zip(names, lists))
        return text, {n: "translated" for n in names}
    except Untranslatable as e:
        text = (f"/-- SKIPPED ({e}) -/\ndef preCalls : List C16E.Site := C16E.preOrder\n"
                f"def midCalls : List C16E.Site := []\ndef postCalls : List C16E.Site := C16E.postOrder\n")
        return text, {n: f"skipped: {e}" for n in names}


# --------------------------------------------------------------------------------------------------
# mixed precision protocol
def _amp_table():
    """loop body: order and guards of unscale_ / clip / scaler.step / optimizer.step / scaler.update / zero_grad"""
    from .c16 import classify_guard
    name = "ampTable"
    try:
        fn = find_function(parse_file(REPO / E), "Engine.training_loop")
        loop = _main_loop(fn)
        rows = []

        def ev_of(call):
            f = _norm(call.func)
            if f.endswith("_scaler.unscale_"):
                return ".unscale"
            if f.endswith("clip_grad_norm_") or f.endswith("clip_grad_value_"):
                return ".clip"
            if f.endswith("_scaler.step"):
                return ".scalerStep"
            if f.endswith("optimizer.step"):
                return ".directStep"
            if f.endswith("_scaler.update"):
                return ".scalerUpdate"
            if f.endswith(".grad.div_"):
                return ".divGrad"
            return None

        def walk(stmts, guards):
            for st in stmts:
                if isinstance(st, ast.If):
                    g = classify_guard(st.test)
                    if g is None:
                        if any(isinstance(c, ast.Call) and ev_of(c) for c in ast.walk(st)):
                            raise Untranslatable(f"scaler statement under unknown guard `{ast.unparse(st.test)}`")
                        continue
                    walk(st.body, guards + ([g] if g else []))
                    walk(st.orelse, guards + [".other"])
                elif isinstance(st, ast.Try):
                    before = len(rows)
                    walk(st.body, guards)
                    if len(rows) != before:
                        raise Untranslatable("scaler statement inside the try block of `_do_iteration`")
                elif isinstance(st, (ast.For, ast.While, ast.With)):
                    walk(st.body, guards)
                else:
                    for c in sorted((n for n in ast.walk(st) if isinstance(n, ast.Call)), key=lambda n: (n.lineno, n.col_offset)):
                        e = ev_of(c)
                        if e:
                            rows.append((e, list(guards)))
        walk(loop.body, [])
        if any(".other" in g for _, g in rows):
            raise Untranslatable("scaler statement in an else branch")
        body = ", ".join(f"({e}, [{', '.join(g)}])" for e, g in rows)
        return (f"/-- translated from `{E}`:`Engine.training_loop`: the GradScaler protocol of the step branch -/\n"
                f"def {name} : C16E.AmpTable := [{body}]\n"), {name: "translated"}
    except Untranslatable as e:
        return (f"/-- SKIPPED ({e}) -/\ndef {name} : C16E.AmpTable := C16E.ampTable\n"), {name: f"skipped: {e}"}


def _clip_form():
    """how `clip_grad_norm_` is applied to the optimised modules: ONE call over the union of all parameters (global norm),
    one call per module, or the main model only"""
    name = "clipForm"
    try:
        fn = find_function(parse_file(REPO / E), "Engine.training_loop")
        loop = _main_loop(fn)
        env = [(n.lineno, n.targets[0].id, n.value) for n in ast.walk(loop)
               if isinstance(n, ast.Assign) and len(n.targets) == 1 and isinstance(n.targets[0], ast.Name)]
        found = []

        def walk(stmts, fors):
            for st in stmts:
                if isinstance(st, ast.For):
                    walk(st.body, fors + [st])
                    walk(st.orelse, fors)
                elif isinstance(st, (ast.If, ast.While)):
                    walk(st.body, fors)
                    walk(st.orelse, fors)
                elif isinstance(st, ast.Try):
                    walk(st.body, fors)
                elif isinstance(st, ast.With):
                    walk(st.body, fors)
                else:
                    for c in ast.walk(st):
                        if isinstance(c, ast.Call) and (_norm(c.func).endswith("clip_grad_norm_")
                                                        or _norm(c.func).endswith("clip_grad_value_")):
                            found.append((c, fors))
        walk(loop.body, [])
        if len(found) != 1 or not found[0][0].args:
            raise Untranslatable(f"expected exactly one clip_grad_norm_ call in the loop body, found {len(found)}")
        call, fors = found[0]
        arg, line = call.args[0], call.lineno
        for _ in range(4):      # resolve names through the closest preceding assignment
            if isinstance(arg, ast.Name):
                prev = [(ln, v) for (ln, name, v) in env if name == arg.id and ln < line]
                if not prev:
                    break
                line, arg = max(prev, key=lambda x: x[0])
        t = _norm(arg)
        if fors:
            it = _norm(fors[-1].iter)
            var = _norm(fors[-1].target)
            if "self.models" in it and t.startswith(var + "."):
                form = ".perModule"
            else:
                raise Untranslatable(f"clip_grad_norm_ inside `for {var} in {it}`")
        elif "self.models" in t and "self.model" in t.replace("self.models", ""):
            form = ".oneCallUnion"
        elif t in ("self.model.parameters()", "list(self.model.parameters())"):
            form = ".mainOnly"
        else:
            raise Untranslatable(f"cannot tell whose parameters `{ast.unparse(arg)}` are")
        return (f"/-- translated from `{E}`:`Engine.training_loop`: how clip_grad_norm_ is applied to the optimised modules -/\n"
                f"def {name} : C16E.ClipForm := {form}\n"), {name: "translated"}
    except Untranslatable as e:
        return (f"/-- SKIPPED ({e}) -/\ndef {name} : C16E.ClipForm := C16E.clipForm\n"), {name: f"skipped: {e}"}


def _zero_forms():
    """argument form of every `zero_grad` call of the loop body (incl. the OOM handler), in source order"""
    name = "zeroGradForms"
    try:
        fn = find_function(parse_file(REPO / E), "Engine.training_loop")
        loop = _main_loop(fn)
        calls = sorted((c for c in ast.walk(loop) if isinstance(c, ast.Call) and isinstance(c.func, ast.Attribute)
                        and c.func.attr == "zero_grad"), key=lambda n: (n.lineno, n.col_offset))
        forms = []
        for c in calls:
            vals = list(c.args) + [k.value for k in c.keywords if k.arg == "set_to_none"]
            if any(k.arg not in ("set_to_none",) for k in c.keywords) or len(vals) > 1:
                raise Untranslatable(f"zero_grad call `{ast.unparse(c)}`")
            if not vals:
                forms.append(".toNone")
            elif isinstance(vals[0], ast.Constant) and vals[0].value in (True, False):
                forms.append(".toNone" if vals[0].value else ".toZero")
            else:
                raise Untranslatable(f"zero_grad argument `{ast.unparse(vals[0])}`")
        return (f"/-- translated from `{E}`:`Engine.training_loop`: the argument form of every zero_grad call -/\n"
                f"def {name} : List C16E.ZeroForm := [{', '.join(forms)}]\n"), {name: "translated"}
    except Untranslatable as e:
        return (f"/-- SKIPPED ({e}) -/\ndef {name} : List C16E.ZeroForm := C16E.zeroGradForms\n"), {name: f"skipped: {e}"}


def events_extra():
    t1, s1 = _between_table()
    t2, s2 = _loop_calls()
    t3, s3 = _amp_table()
    t4, s4 = _clip_form()
    t5, s5 = _zero_forms()
    return t1 + "\n" + t2 + "\n" + t3 + "\n" + t4 + "\n" + t5, {**s1, **s2, **s3, **s4, **s5}


# --------------------------------------------------------------------------------------------------
# integer kernels
def _resume_start(k: Kernel, fn: ast.FunctionDef) -> str:
    """value of `start_iter` handed to `training_loop` when a checkpoint with label `label` was loaded"""
    top = fn.body
    idx = [i for i, st in enumerate(top) if isinstance(st, ast.If) and _norm(st.test) == "resume"]
    if len(idx) != 1:
        raise Untranslatable("`if resume:` not found in Engine.train")
    inner = [st for st in top[idx[0]].body if isinstance(st, ast.If) and _norm(st.test) == "notcheckpoint"]
    if len(inner) != 1 or not inner[0].orelse:
        raise Untranslatable("`if not checkpoint: … else:` not found in the resume branch")
    pre = [st for st in top[:idx[0]] if isinstance(st, ast.Assign) and _norm(st.targets[0]) == "start_iter"]
    after_inner = top[idx[0]].body[top[idx[0]].body.index(inner[0]) + 1:]
    stmts = pre + inner[0].orelse + after_inner + top[idx[0] + 1:]
    tr = ExprTr({"checkpoint['iteration']": "label", GS: "k"})
    lets, loc = translate_block(stmts, tr, ["start_iter"])
    # keep only the lets the result depends on (transitively)
    need, kept = {loc["start_iter"]}, []
    for l in reversed(lets):
        ident, rhs = l[len("let "):].split(" : Int := ", 1)
        if ident in need:
            kept.append(l)
            need |= set(__import__("re").findall(r"[A-Za-z_][A-Za-z_0-9']*", rhs))
    lets = list(reversed(kept))
    return emit_def(k.name, k.params, lets, loc["start_iter"], "Int")


def _guard_of_call(callee: str, binds: dict[str, str]):
    def build(k: Kernel, fn: ast.FunctionDef) -> str:
        found = []

        def walk(stmts, tests):
            for st in stmts:
                if isinstance(st, ast.If):
                    walk(st.body, tests + [st.test])
                    walk(st.orelse, tests + [ast.UnaryOp(op=ast.Not(), operand=st.test)])
                else:
                    for c in ast.walk(st):
                        if isinstance(c, ast.Call) and _norm(c.func) == callee:
                            found.append((c, tests))
        walk(fn.body, [])
        if len(found) != 1:
            raise Untranslatable(f"expected exactly one `{callee}(…)`")
        c, tests = found[0]
        if len(c.args) != 1 or _norm(c.args[0]) != "iter_idx":
            raise Untranslatable(f"`{ast.unparse(c)}` is not called with iter_idx")
        tr = ExprTr(binds)
        return emit_def(k.name, k.params, [], "(" + " && ".join(tr.bool(t) for t in tests) + ")" if tests else "true", "Bool")
    return build


KERNELS = [
    Kernel("resume_start", E, "Engine.train", ["label", "k"], "C16E.resumeStart", _resume_start, imports=EVENTS),
    Kernel("val_guard", E, "Engine.validate_model_at_interval", ["iter_idx", "val_steps", "total_iter"],
           "(fun i c t => decide (i ≥ 5) && (Int.fmod i c == 0 || i + 1 == t))",
           _guard_of_call("func", {"iter_idx": "iter_idx", "total_iter": "total_iter",
                                   "self.cfg.training.validation_steps": "val_steps"}), ret_type="Bool", imports=EVENTS),
]
