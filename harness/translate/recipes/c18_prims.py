"""C18 (phase 3): per-model tables of the *batched primitives* a forward pass executes, and of every way a forward pass
could keep state between calls.

* `trace_models()`   — every zoo model of C17/C18 is run once under `sys.setprofile`; the functions defined under
                       `<repo>/direct` that its forward executes are recorded (file, qualified name, first line).
* `scan_prims(fn)`   — AST scan of one such function: every operation whose meaning depends on *which axis is the batch*
                       (reductions and their axes, cat / stack / split / select / squeeze … and their axis, permute /
                       transpose literals, the syntactic form of every reshape / view / flatten, subscripts at the batch
                       position, `F.batch_norm`-like functionals with their `training` argument).  Raw syntactic facts only:
                       the judgement (`Prim.ok`) is made in Lean, `Bridge/C18.lean` decides it on the generated tables.
* `scan_effects(fn)` — assignments to `self.*`, buffers / `setattr` / `__dict__`, in-place methods on `self.*` chains and on
                       parameters, class attributes, module-level names (`global`, `_CACHE[k] = …`), memoising decorators,
                       `torch.backends` / global torch switches, mutable default arguments.
"""
from __future__ import annotations

import ast
import pathlib
import sys

from ..pyexpr import parse_file

# ---------------------------------------------------------------------------------------------------------------------
REDUCE = {"mean", "std", "var", "sum", "amax", "amin", "max", "min", "norm", "prod", "median", "nansum", "nanmean", "logsumexp",
          "all", "any", "argmax", "argmin", "count_nonzero", "std_mean", "var_mean", "aminmax", "mode", "quantile", "nanmedian"}
# operations that act along one axis given by `dim` (positional index of `dim` for the method form)
ALONG = {"cat": 1, "concat": 1, "concatenate": 1, "stack": 1, "split": 1, "chunk": 1, "unbind": 0, "select": 0, "narrow": 0,
         "squeeze": 0, "unsqueeze": 0, "repeat_interleave": 1, "index_select": 0, "gather": 0, "scatter": 0, "softmax": 0,
         "log_softmax": 0, "cumsum": 0, "cumprod": 0, "sort": 0, "argsort": 0, "topk": 1, "flip": 0, "roll": 1, "unfold": 0,
         "tensor_split": 1, "hsplit": 9, "vsplit": 9, "diff": 1, "renorm": 1, "glu": 0, "size": 0}
NOAXIS_OK = {"squeeze"}                       # `x.squeeze()` without `dim` drops every axis of length 1 — the batch axis included
TORCH_NS = {"torch", "F", "nn.functional", "torch.nn.functional"}
RESHAPES = {"reshape", "view", "resize", "resize_"}
FLATTENS = {"flatten", "ravel", "unflatten"}
BATCH_STAT_FUNCS = {"batch_norm", "instance_norm", "dropout", "dropout1d", "dropout2d", "dropout3d", "alpha_dropout",
                    "feature_alpha_dropout", "rrelu", "gumbel_softmax"}
WHOLE_TENSOR = {"unique", "unique_consecutive", "nonzero", "masked_select", "argwhere", "bincount", "histc", "histogram",
                "item", "tolist", "numel", "nelement"}
REDUCE_HELPERS = {"reduce_operator": 2, "complex_dot_product": 2, "root_sum_of_squares": 1}


def _is_torch_ns(node) -> bool:
    return isinstance(node, (ast.Name, ast.Attribute)) and ast.unparse(node) in TORCH_NS


def _lit(node):
    try:
        return ast.literal_eval(node)
    except (ValueError, SyntaxError, TypeError):
        return None


class FnCtx:
    """what a function's own text says about names: the batch-size name (first target of `… = x.shape` / `x.size()`),
    parameters, class-level literal attributes, `dim = torch.arange(1, …)`-style axis lists"""

    def __init__(self, fn: ast.FunctionDef, cls: ast.ClassDef | None, attrs: dict):
        self.fn, self.cls, self.attrs = fn, cls, attrs
        self.params = [a.arg for a in fn.args.posonlyargs + fn.args.args + fn.args.kwonlyargs]
        if fn.args.vararg:
            self.params.append(fn.args.vararg.arg)
        if fn.args.kwarg:
            self.params.append(fn.args.kwarg.arg)
        self.batch_names: set[str] = set()
        self.second_names: set[str] = set()          # the axis right after the batch (coil, slice, …)
        self.other_shape_names: set[str] = set()     # names bound from a `.shape` unpacking at positions >= 1
        self.local_axes: dict[str, tuple[int, list[int]]] = {}
        self.shape_lists: dict[str, int] = {}        # name -> head code of a list literal used as reshape target
        self.local_lits: dict[str, object] = {}      # names assigned exactly once, to an integer / tuple-of-integers literal
        counts: dict[str, int] = {}
        for st in ast.walk(fn):
            if isinstance(st, (ast.Assign, ast.AugAssign, ast.AnnAssign, ast.For, ast.comprehension, ast.NamedExpr)):
                tg = st.targets if isinstance(st, ast.Assign) else [st.target]
                for t in tg:
                    for s_ in ast.walk(t):
                        if isinstance(s_, ast.Name):
                            counts[s_.id] = counts.get(s_.id, 0) + 1
        for st in ast.walk(fn):
            if isinstance(st, ast.Assign) and len(st.targets) == 1 and isinstance(st.targets[0], ast.Name) \
                    and counts.get(st.targets[0].id) == 1 and st.targets[0].id not in self.params:
                v = _lit(st.value)
                if isinstance(v, int) and not isinstance(v, bool):
                    self.local_lits[st.targets[0].id] = v
                elif isinstance(v, (tuple, list)) and v and all(isinstance(x, int) and not isinstance(x, bool) for x in v):
                    self.local_lits[st.targets[0].id] = list(v)
        for st in ast.walk(fn):
            if isinstance(st, ast.Assign) and len(st.targets) == 1:
                t, v = st.targets[0], st.value
                if isinstance(t, (ast.Tuple, ast.List)) and t.elts and self._is_shape(v):
                    if isinstance(t.elts[0], ast.Name):
                        self.batch_names.add(t.elts[0].id)
                    if len(t.elts) > 1 and isinstance(t.elts[1], ast.Name):
                        self.second_names.add(t.elts[1].id)
                    for el in t.elts[1:]:
                        if isinstance(el, ast.Name):
                            self.other_shape_names.add(el.id)
                if isinstance(t, ast.Name) and self._is_dim0(v):
                    self.batch_names.add(t.id)
                if isinstance(t, ast.Name):
                    ax = self._arange_axes(v)
                    if ax is not None:
                        self.local_axes[t.id] = ax
                    if isinstance(v, (ast.List, ast.Tuple)) or (isinstance(v, ast.BinOp) and isinstance(v.op, ast.Add)):
                        self.shape_lists[t.id] = self.head_code(self._first_of_listexpr(v))

    @staticmethod
    def _is_shape(v) -> bool:
        txt = ast.unparse(v)
        return txt.endswith(".shape") or txt.endswith(".size()")

    @staticmethod
    def _is_dim0(v) -> bool:
        txt = ast.unparse(v).replace(" ", "")
        return txt.endswith(".shape[0]") or txt.endswith(".size(0)")

    @staticmethod
    def _arange_axes(v):
        """`torch.arange(k, …).tolist()` / `list(range(k, …))` / `tuple(range(k, …))` with a literal start k >= 1 -> (3, [k])"""
        txt = ast.unparse(v).replace(" ", "")
        for head in ("torch.arange(", "list(range(", "tuple(range(", "range("):
            if txt.startswith(head):
                rest = txt[len(head):]
                num = ""
                for ch in rest:
                    if ch.isdigit() or (ch == "-" and not num):
                        num += ch
                    else:
                        break
                if num and rest[len(num):len(num) + 1] == ",":
                    return 3, [int(num)]
        return None

    @staticmethod
    def _first_of_listexpr(v):
        while isinstance(v, ast.BinOp) and isinstance(v.op, ast.Add):
            v = v.left
        if isinstance(v, (ast.List, ast.Tuple)) and v.elts:
            return v.elts[0]
        return None

    # ---- axes -------------------------------------------------------------------------------------------------------
    def axes(self, node, depth=0):
        """-> (kind, axes): 0 literal/resolved axes, 1 absent (all axes), 2 unresolved, 3 an open range starting at axes[0],
        4 a parameter of the enclosing function (the call sites carry their own rows)"""
        if node is None:
            return 1, []
        v = _lit(node)
        if v is None:
            if isinstance(node, ast.Attribute) and isinstance(node.value, ast.Name) and node.value.id == "self" and node.attr in self.attrs:
                v = self.attrs[node.attr]
            elif isinstance(node, ast.Name) and node.id in self.local_axes:
                return self.local_axes[node.id]
            elif isinstance(node, ast.Name) and node.id in self.local_lits:
                v = self.local_lits[node.id]
            elif isinstance(node, ast.Name) and node.id in self.params and (self.cls is None or depth > 0):
                return 4, []              # the axis is chosen by the caller: the call sites carry their own rows
            elif isinstance(node, ast.Name) and node.id in self.params:
                i = self.params.index(node.id)
                allp = self.fn.args.posonlyargs + self.fn.args.args
                j = i - (len(allp) - len(self.fn.args.defaults))
                if 0 <= j < len(self.fn.args.defaults) and i < len(allp):
                    v = _lit(self.fn.args.defaults[j])
                if v is None and self.cls is not None:
                    vals = set()
                    static = any(isinstance(d, ast.Name) and d.id == "staticmethod" for d in self.fn.decorator_list)
                    for c in ast.walk(self.cls):
                        if isinstance(c, ast.Call) and isinstance(c.func, ast.Attribute) and c.func.attr == self.fn.name:
                            k = i - (0 if static else 1)
                            arg = c.args[k] if 0 <= k < len(c.args) else next((kw.value for kw in c.keywords if kw.arg == node.id), None)
                            if arg is not None:
                                kk, ax = self.axes(arg, depth + 1)
                                vals.add((kk, tuple(ax)))
                    if len(vals) == 1:
                        kk, ax = vals.pop()
                        return kk, list(ax)
                if v is None:
                    return 4, []
            elif isinstance(node, ast.IfExp):
                k1, a1 = self.axes(node.body, depth)
                k2, a2 = self.axes(node.orelse, depth)
                if k1 == k2 == 0:
                    return 0, a1 + a2     # either branch: every listed axis must pass
                return 2, []
            else:
                ar = self._arange_axes(node)
                if ar is not None:
                    return ar
                # tuple(d - 1 for d in self._spatial_dims) and similar shifted attribute tuples
                g = None
                if isinstance(node, ast.Call) and ast.unparse(node.func) in ("tuple", "list") and node.args \
                        and isinstance(node.args[0], (ast.GeneratorExp, ast.ListComp)) and len(node.args[0].generators) == 1:
                    g = node.args[0]
                elif isinstance(node, ast.ListComp) and len(node.generators) == 1:
                    g = node
                if g is not None and not g.generators[0].ifs:
                    kk, base = self.axes(g.generators[0].iter, depth + 1)
                    var = g.generators[0].target
                    if kk == 0 and isinstance(var, ast.Name):
                        out = []
                        for b in base:
                            try:
                                out.append(int(eval(compile(ast.Expression(g.elt), "<axes>", "eval"), {"__builtins__": {}}, {var.id: b})))  # noqa: S307
                            except Exception:  # noqa: BLE001
                                return 2, []
                        return 0, out
            if v is None:
                return 2, []
        if isinstance(v, bool):
            return 1, []
        if isinstance(v, int):
            return 0, [v]
        if isinstance(v, (tuple, list)) and v and all(isinstance(x, int) and not isinstance(x, bool) for x in v):
            return 0, list(v)
        return 2, []

    # ---- reshape heads ----------------------------------------------------------------------------------------------
    def head_code(self, node) -> int:
        """syntactic form of the first target extent of a reshape:
        0 the batch size itself (name bound from `.shape` position 0, `x.shape[0]`, `x.size(0)`)
        1 literal -1    2 product containing the batch size (batch folded together with another axis)
        3 a literal integer >= 0   4 anything else (unresolved)   5 another named extent (a parameter, or a name bound from a
        `.shape` unpacking at a position other than 0)"""
        if node is None:
            return 4
        if isinstance(node, ast.Starred):
            return 4
        txt = ast.unparse(node).replace(" ", "")
        if isinstance(node, ast.Name) and node.id in self.batch_names:
            return 0
        if txt.endswith(".shape[0]") or txt.endswith(".size(0)"):
            return 0
        if txt == "-1":
            return 1
        if isinstance(node, ast.BinOp) and isinstance(node.op, ast.Mult):
            for side in (node.left, node.right):
                if self.head_code(side) in (0, 2):
                    return 2
            return 4
        if isinstance(node, ast.Constant) and isinstance(node.value, int) and not isinstance(node.value, bool):
            return 3
        if isinstance(node, ast.Name) and (node.id in self.params or node.id in self.second_names or node.id in self.other_shape_names):
            return 5                  # a named extent that is not the batch size (`groups`, `c`, `h`, …)
        return 4

    def rest_code(self, args) -> int:
        """the remaining extents: 0 all literally 1 (or `*(1,)*k` / `*ones(…)`): the per-sample broadcast idiom;
        1 the second extent is the name bound from `.shape` position 1 (the folded axis is restored);  2 otherwise"""
        if args and all((isinstance(a, ast.Constant) and a.value == 1) or
                        (isinstance(a, ast.Starred) and ("ones" in ast.unparse(a) or "(1,)" in ast.unparse(a)))
                        for a in args):
            return 0
        if args and isinstance(args[0], ast.Name) and args[0].id in self.second_names:
            return 1
        return 2


def _class_attrs(cls: ast.ClassDef):
    out = {}
    for f in cls.body:
        if isinstance(f, ast.FunctionDef) and f.name == "__init__":
            names = [a.arg for a in f.args.args]
            for a, d in zip(names[len(names) - len(f.args.defaults):], f.args.defaults):
                v = _lit(d)
                if v is not None:
                    out["param:" + a] = v
            for n in ast.walk(f):
                if isinstance(n, ast.Assign) and len(n.targets) == 1 and isinstance(n.targets[0], ast.Attribute) \
                        and isinstance(n.targets[0].value, ast.Name) and n.targets[0].value.id == "self":
                    v = _lit(n.value)
                    if v is not None:
                        out[n.targets[0].attr] = v
                    elif isinstance(n.value, ast.Name) and ("param:" + n.value.id) in out:
                        out[n.targets[0].attr] = out["param:" + n.value.id]
    return out


class FileIndex:
    """functions of one source file by (qualified name, first line); class attribute tables with inheritance inside the file"""

    def __init__(self, path: pathlib.Path):
        self.path = path
        self.tree = parse_file(path)
        self.funcs: dict[tuple[str, int], tuple[ast.FunctionDef, ast.ClassDef | None]] = {}
        self.by_name: dict[str, tuple[ast.FunctionDef, ast.ClassDef | None]] = {}
        self.classes: dict[str, ast.ClassDef] = {}
        self.module_names: set[str] = set()
        for node in self.tree.body:
            if isinstance(node, ast.Assign):
                for t in node.targets:
                    for s in ast.walk(t):
                        if isinstance(s, ast.Name):
                            self.module_names.add(s.id)
            if isinstance(node, ast.AnnAssign) and isinstance(node.target, ast.Name):
                self.module_names.add(node.target.id)
        self._walk(self.tree, "", None)

    def _walk(self, node, prefix, cls):
        for ch in getattr(node, "body", []):
            if isinstance(ch, ast.ClassDef):
                self.classes[ch.name] = ch
                self._walk(ch, prefix + ch.name + ".", ch)
            elif isinstance(ch, (ast.FunctionDef, ast.AsyncFunctionDef)):
                q = prefix + ch.name
                self.funcs[(q, ch.lineno)] = (ch, cls)
                self.by_name.setdefault(q, (ch, cls))
                self._walk(ch, q + ".<locals>.", cls)

    def attrs_of(self, cls: ast.ClassDef | None, seen=(), world: dict | None = None):
        """literal attributes of the class, base classes first (bases are looked up by name in this file, then in `world`:
        class name -> ClassDef over all scanned files)"""
        if cls is None:
            return {}
        out = {}
        for b in cls.bases:
            bn = ast.unparse(b).split(".")[-1]
            if bn in seen:
                continue
            bc = self.classes.get(bn) or (world or {}).get(bn)
            if bc is not None:
                out.update(self.attrs_of(bc, seen + (cls.name,), world))
        out.update(_class_attrs(cls))
        return out

    def lookup(self, qual: str, lineno: int):
        """the FunctionDef whose `def` line (decorators aside) is `lineno`; code objects report the first decorator line"""
        if (qual, lineno) in self.funcs:
            return self.funcs[(qual, lineno)]
        for (q, ln), v in self.funcs.items():
            if q == qual and v[0].decorator_list and min(d.lineno for d in v[0].decorator_list) == lineno:
                return v
        return self.by_name.get(qual)


# ---------------------------------------------------------------------------------------------------------------------
# primitive rows: (function, family, op, form, axes/args, sink)
#   family 0 reduction   form = axes kind (0 resolved, 1 all axes, 2 unresolved, 3 open range from args[0])
#   family 1 along-axis  form = axes kind, args = [axis]
#   family 2 permute     form 0 literal permutation in args; 2 unresolved.  `transpose(a, b)` / `movedim`: op tells, args = [a, b]
#   family 3 reshape     form = head code (0 batch, 1 `-1`, 2 batch*…, 3 literal, 4 other), args = [rest code]
#   family 4 flatten     args = [start_dim] (form 0) / unresolved (form 2)
#   family 5 subscript at the batch position: form 0 integer literal, 1 slice with bounds, 2 other expression (mask / index tensor)
#   family 6 functional with batch statistics / randomness: form 0 `training` is literally False or `self.training`, 1 literally True, 2 other
#   family 7 whole-tensor query (unique / nonzero / masked_select / item …): form 0
#   sink: 0 the value is used, 1 the value is only compared inside the test of an `if` whose body is nothing but `warnings.warn`
def _warn_only_nodes(fn: ast.FunctionDef) -> set[int]:
    ids = set()
    for st in ast.walk(fn):
        if isinstance(st, ast.If) and not st.orelse and st.body and all(
                isinstance(b, ast.Expr) and isinstance(b.value, ast.Call) and ast.unparse(b.value.func) in ("warnings.warn", "logger.warning", "logging.warning")
                for b in st.body):
            for n in ast.walk(st.test):
                ids.add(id(n))
            for b in st.body:
                for n in ast.walk(b):
                    ids.add(id(n))
    return ids


def _call_axis_arg(n: ast.Call, is_fn_form: bool, pos: int):
    dim = next((k.value for k in n.keywords if k.arg in ("dim", "axis", "dims")), None)
    if dim is not None:
        return dim
    args = n.args[1:] if is_fn_form else n.args
    if 0 <= pos < len(args):
        return args[pos]
    return None


def _annotation_ids(fn: ast.FunctionDef) -> set[int]:
    ids = set()
    anns = [a.annotation for a in fn.args.posonlyargs + fn.args.args + fn.args.kwonlyargs if a.annotation is not None]
    if fn.returns is not None:
        anns.append(fn.returns)
    for n in ast.walk(fn):
        if isinstance(n, ast.AnnAssign):
            anns.append(n.annotation)
    for a in anns:
        for s in ast.walk(a):
            ids.add(id(s))
    return ids


AXIS_PARAM_NAMES = ("dim", "dims", "axis", "axes", "coil_dim", "spatial_dims", "complex_dim", "channel_dim")


def scan_prims(name: str, fn: ast.FunctionDef, cls, attrs, fparams: dict | None = None) -> list[tuple]:
    """`fparams`: simple name -> parameter list of the functions of /repo/direct known to the scan (to find positional axis
    arguments of calls to them)"""
    cx = FnCtx(fn, cls, attrs)
    warn = _warn_only_nodes(fn)
    skip = _annotation_ids(fn)
    rows = []
    fparams = fparams or {}

    def add(family, op, form, args, node):
        rows.append((name, family, op, form, [int(a) for a in args], 1 if id(node) in warn else 0, getattr(node, "lineno", 0)))

    def add_axes(family, op, dim, node):
        if isinstance(dim, ast.IfExp):
            add_axes(family, op, dim.body, node)
            add_axes(family, op, dim.orelse, node)
            return
        kind, ax = cx.axes(dim)
        add(family, op, kind, ax, node)

    # the batch size used as a number (`x / x.size(0)`, `x * b`): a result that depends on the batch size.  Extents handed to
    # reshape / view / allocation calls and list concatenations of extents are structure, not arithmetic on values.
    shape_ctx = set()
    for c in ast.walk(fn):
        if isinstance(c, ast.Call):
            nm = ast.unparse(c.func).split(".")[-1]
            if nm in RESHAPES or nm in ("zeros", "ones", "empty", "full", "new_zeros", "new_ones", "new_empty", "new_full", "expand", "repeat",
                                        "randn", "rand", "range", "arange", "split", "chunk", "narrow", "unflatten", "tile", "broadcast_to"):
                for a in list(c.args) + [k.value for k in c.keywords]:
                    for s_ in ast.walk(a):
                        shape_ctx.add(id(s_))
        if isinstance(c, (ast.List, ast.Tuple)):
            for s_ in ast.walk(c):
                shape_ctx.add(id(s_))
    for n in ast.walk(fn):
        if isinstance(n, ast.BinOp) and isinstance(n.op, (ast.Div, ast.Mult, ast.FloorDiv, ast.Pow, ast.Mod)) and id(n) not in shape_ctx \
                and id(n) not in skip:
            if any(cx.head_code(side) == 0 for side in (n.left, n.right)):
                add(7, "batch-size-arithmetic", 0, [], n)
    for n in ast.walk(fn):
        if id(n) in skip:
            continue
        if isinstance(n, ast.Subscript) and isinstance(n.ctx, ast.Load):
            base = ast.unparse(n.value)
            if base.endswith(".shape") or base.endswith("kwargs") or base in ("args", "tuple", "list", "dict", "Union", "Optional", "Callable"):
                continue
            sl = n.slice
            if not isinstance(sl, ast.Tuple) or not sl.elts:
                continue               # `xs[i]`, `self.blocks[idx]`, `outs[-1]`, `x[mask]`: one subscript — a Python sequence,
                #                        a ModuleList, or a mask over every axis (boolean masks have their own rows: masked_select / nonzero)
            first = sl.elts[0]
            if isinstance(first, ast.Slice):
                if not (first.lower is None and first.upper is None and first.step is None):
                    add(5, "slice", 1, [], n)
                continue
            if isinstance(first, ast.Constant) and first.value is Ellipsis:
                continue
            if isinstance(first, ast.Constant) and isinstance(first.value, int):
                add(5, "index", 0, [first.value], n)
            elif isinstance(first, ast.Constant) and first.value is None:
                add(5, "newaxis", 3, [], n)
            else:
                add(5, "index", 2, [], n)
            continue
        if not isinstance(n, ast.Call):
            continue
        ftxt = ast.unparse(n.func)
        last = ftxt.split(".")[-1]
        func = n.func
        base = func.value if isinstance(func, ast.Attribute) else None
        if isinstance(base, ast.Name) and base.id in ("np", "math", "numpy", "warnings", "logging", "logger", "os", "itertools"):
            continue
        is_fn_form = base is not None and _is_torch_ns(base)
        is_self_call = isinstance(base, ast.Name) and base.id == "self"
        op = func.attr if isinstance(func, ast.Attribute) else (func.id if isinstance(func, ast.Name) else None)
        if op is None:
            continue
        tensor_method = isinstance(func, ast.Attribute) and not is_self_call
        # ---- reductions hidden in direct.data.transforms helpers: the reduced axis is their `dim` argument ----------------
        if last in REDUCE_HELPERS and (ftxt == last or ftxt.startswith("T.") or ftxt.startswith("transforms.")):
            pos = REDUCE_HELPERS[last]
            dim = next((k.value for k in n.keywords if k.arg == "dim"), None)
            if dim is None and len(n.args) > pos:
                dim = n.args[pos]
            if dim is None:
                add(0, last, 0, [0], n)        # their default `dim=0`
            else:
                add_axes(0, last, dim, n)
            continue
        if tensor_method and op in REDUCE:
            if op == "norm" and isinstance(base, ast.Attribute) and not is_fn_form:
                continue                  # `self.norm(...)`-style attribute chains are modules, not tensor norms
            dim = _call_axis_arg(n, is_fn_form, 0)
            if op == "norm" and dim is not None and not any(k.arg in ("dim", "axis") for k in n.keywords):
                args = n.args[1:] if is_fn_form else n.args
                dim = args[1] if len(args) > 1 else None
            if op in ("max", "min") and is_fn_form and len(n.args) == 2 and not n.keywords and _lit(n.args[1]) is None \
                    and cx.axes(n.args[1])[0] == 2:
                continue                  # torch.max(a, b): element-wise maximum of two tensors
            if dim is None:
                add(0, op, 1, [], n)
            else:
                add_axes(0, op, dim, n)
            continue
        if ftxt in ("F.normalize", "torch.nn.functional.normalize", "nn.functional.normalize"):
            dim = next((k.value for k in n.keywords if k.arg == "dim"), n.args[2] if len(n.args) > 2 else None)
            if dim is None:
                add(0, "normalize", 0, [1], n)
            else:
                add_axes(0, "normalize", dim, n)
            continue
        if tensor_method and op in ALONG and op != "size":
            if op in ("cat", "stack", "concat", "concatenate"):
                dim = next((k.value for k in n.keywords if k.arg in ("dim", "axis")), n.args[1] if len(n.args) > 1 else None)
            else:
                dim = _call_axis_arg(n, is_fn_form, ALONG[op])
            if dim is None:
                if op in ("squeeze", "repeat_interleave", "roll", "flip"):
                    add(1, op, 1, [], n)          # without `dim`: every axis / the flattened tensor
                elif op in ("cat", "stack", "concat", "concatenate", "split", "chunk", "tensor_split", "unbind"):
                    add(1, op, 0, [0], n)         # default axis 0
                elif op in ("sort", "argsort", "glu", "topk", "diff"):
                    add(1, op, 0, [-1], n)        # default last axis
                else:
                    add(1, op, 2, [], n)
                continue
            add_axes(1, op, dim, n)
            continue
        if tensor_method and op in ("hsplit", "vsplit", "dsplit", "hstack", "vstack", "dstack", "row_stack", "column_stack"):
            add(1, op, 0, [0 if op in ("vsplit", "vstack", "row_stack") else 1], n)
            continue
        if tensor_method and op == "permute":
            args = n.args[1:] if is_fn_form else n.args
            cands = [args[0].body, args[0].orelse] if len(args) == 1 and isinstance(args[0], ast.IfExp) else [args]
            for cand in cands:
                if not isinstance(cand, list):
                    cand = [cand]
                if len(cand) == 1:
                    v = _lit(cand[0])
                    args_l = list(v) if isinstance(v, (tuple, list)) else None
                else:
                    vs = [_lit(a) for a in cand]
                    args_l = vs if vs and all(isinstance(x, int) for x in vs) else None
                if args_l is not None and all(isinstance(x, int) and not isinstance(x, bool) for x in args_l):
                    add(2, "permute", 0, args_l, n)
                else:
                    add(2, "permute", 2, [], n)
            continue
        if tensor_method and op in ("transpose", "swapaxes", "swapdims", "movedim", "moveaxis"):
            args = n.args[1:] if is_fn_form else n.args
            if not args:
                continue
            flat, good = [], len(args) == 2
            for a in args[:2]:
                kind, ax = cx.axes(a)
                good = good and kind == 0
                flat += ax
            add(2, op, 1 if good else 2, flat if good else [], n)
            continue
        if tensor_method and op in RESHAPES:
            args = n.args[1:] if is_fn_form else n.args
            if not args:
                continue
            if len(args) == 1 and not isinstance(args[0], (ast.Starred, ast.Constant)):
                a0 = args[0]
                if isinstance(a0, (ast.Tuple, ast.List)):
                    args = a0.elts
                elif isinstance(a0, ast.Name) and a0.id in cx.shape_lists:
                    add(3, op, cx.shape_lists[a0.id], [2], n)
                    continue
                elif isinstance(a0, ast.Attribute) and a0.attr == "shape":
                    add(3, op, 0, [2], n)          # `y.reshape(x.shape)`: the target keeps x's batch extent
                    continue
                else:
                    add(3, op, 4, [2], n)
                    continue
            if not args:
                continue
            add(3, op, cx.head_code(args[0]), [cx.rest_code(args[1:])], n)
            continue
        if tensor_method and op in FLATTENS:
            if op == "ravel":
                add(4, op, 0, [0], n)
                continue
            if op == "unflatten":
                dim = _call_axis_arg(n, is_fn_form, 0)
                add_axes(1, op, dim, n)
                continue
            start = next((k.value for k in n.keywords if k.arg == "start_dim"), None)
            args = n.args[1:] if is_fn_form else n.args
            if start is None and args:
                start = args[0]
            if start is None:
                add(4, op, 0, [0], n)
            else:
                kind, ax = cx.axes(start)
                add(4, op, 0 if kind == 0 else 2, ax if kind == 0 else [], n)
            continue
        if op in BATCH_STAT_FUNCS and (is_fn_form or ftxt.startswith("torch.")):
            tr = next((k.value for k in n.keywords if k.arg in ("training", "train", "use_input_stats")), None)
            if tr is None:
                pos = {"batch_norm": 5, "instance_norm": 5, "dropout": 2, "dropout1d": 2, "dropout2d": 2, "dropout3d": 2,
                       "alpha_dropout": 2, "feature_alpha_dropout": 2, "rrelu": 3}.get(op)
                if pos is not None and len(n.args) > pos:
                    tr = n.args[pos]
            if tr is None:
                # F.dropout defaults to training=True, F.batch_norm to training=False
                add(6, op, 0 if op in ("batch_norm",) else 1, [], n)
            else:
                txt = ast.unparse(tr)
                add(6, op, 0 if txt in ("False", "self.training") else 1 if txt == "True" else 2, [], n)
            continue
        if tensor_method and op in WHOLE_TENSOR and op not in ("item", "tolist"):
            add(7, op, 0, [], n)
            continue
        # ---- any other call that is handed an axis: `dim=` / `dims=` / `axis=` keywords (operators, fft helpers, torch.fft),
        # or a positional argument bound to an axis parameter of a function of /repo/direct -------------------------------
        dimkw = next((k.value for k in n.keywords if k.arg in AXIS_PARAM_NAMES), None)
        if dimkw is None and last in fparams:
            ps = fparams[last]
            off = 1 if ps and ps[0] in ("self", "cls") else 0
            for i, pn in enumerate(ps[off:]):
                if pn in AXIS_PARAM_NAMES and i < len(n.args) and not any(isinstance(a, ast.Starred) for a in n.args[:i + 1]):
                    dimkw = n.args[i]
                    break
        if dimkw is not None:
            add_axes(1, "call:" + last, dimkw, n)
    _control_flow_rows(fn, cx, fparams, add)
    rows.sort(key=lambda r: (r[6], r[1], r[2]))
    return [r[:6] for r in rows]


# family 8 — shape- or mode-dependent control flow.  form 0: `if` / conditional expression whose test reads `self.training`;
# 1: whose test reads a tensor extent (`.shape`, `.size(…)`, `len(…)`, `.numel()` or a name computed from one); 2: a loop over
# `range(…)` whose bounds do arithmetic on an extent (`n // K`, `n - 1`, a step): a partial / chunked iteration; 3: a loop over
# a full extent (`range(x.size(d))`).  args = what the guarded region does: 1 a reduction, 2 a call into /repo/direct (method of
# the module or a known function), 4 a slice / narrow / split / select with computed bounds at the batch or coil position,
# 8 an accumulation (`x = x + …`, `x += …`), 32 building a Python list, 64 a slice at a later (spatial) position.
def _control_flow_rows(fn, cx: "FnCtx", fparams, add):
    extent_names: set[str] = set(cx.batch_names) | set(cx.other_shape_names)

    def is_extent_expr(node) -> bool:
        rank_only = set()          # `len(x.shape)`, `len(x.shape[1:])`, `x.dim()`: the rank, not an extent
        for s in ast.walk(node):
            if isinstance(s, ast.Call) and isinstance(s.func, ast.Name) and s.func.id == "len" and s.args and ".shape" in ast.unparse(s.args[0]):
                for t in ast.walk(s):
                    rank_only.add(id(t))
        for s in ast.walk(node):
            if id(s) in rank_only:
                continue
            if isinstance(s, ast.Attribute) and s.attr == "shape":
                return True
            if isinstance(s, ast.Call) and isinstance(s.func, ast.Attribute) and s.func.attr in ("size", "numel", "nelement"):
                return True
            if isinstance(s, ast.Call) and isinstance(s.func, ast.Name) and s.func.id == "len":
                return True
            if isinstance(s, ast.Name) and s.id in extent_names:
                return True
        return False

    changed = True
    while changed:
        changed = False
        for st in ast.walk(fn):
            if isinstance(st, ast.Assign) and len(st.targets) == 1 and _scalar_like(st.value) and is_extent_expr(st.value):
                t = st.targets[0]
                names = [t] if isinstance(t, ast.Name) else [e for e in t.elts if isinstance(e, ast.Name)] if isinstance(t, (ast.Tuple, ast.List)) else []
                for nm in names:
                    if nm.id not in extent_names:
                        extent_names.add(nm.id)
                        changed = True

    def reads_mode(node) -> bool:
        return any(isinstance(s, ast.Attribute) and s.attr == "training" for s in ast.walk(node))

    def region_codes(stmts) -> list[int]:
        codes = set()
        for st in stmts:
            for n in ast.walk(st):
                if isinstance(n, ast.Call) and isinstance(n.func, ast.Attribute):
                    base = n.func.value
                    if isinstance(base, ast.Name) and base.id == "self":
                        codes.add(2)
                    elif n.func.attr in REDUCE and not (isinstance(base, ast.Name) and base.id in ("np", "math", "numpy")):
                        codes.add(1)
                    elif n.func.attr in REDUCE_HELPERS:
                        codes.add(1)
                    elif n.func.attr in ("append", "extend", "insert"):
                        codes.add(32)
                    elif n.func.attr in ("narrow", "split", "chunk", "tensor_split", "select", "index_select", "unbind"):
                        dim = _call_axis_arg(n, _is_torch_ns(base), ALONG.get(n.func.attr, 0))
                        kind, ax = cx.axes(dim) if dim is not None else (0, [0])
                        codes.add(4 if (kind != 0 or any(a in (0, 1) for a in ax)) else 64)
                    elif n.func.attr in fparams:
                        codes.add(2)
                elif isinstance(n, ast.Call) and isinstance(n.func, ast.Name):
                    if n.func.id in REDUCE_HELPERS:
                        codes.add(1)
                    elif n.func.id in fparams:
                        codes.add(2)
                if isinstance(n, ast.Subscript) and isinstance(n.slice, ast.Tuple) and not ast.unparse(n.value).endswith(".shape"):
                    for pos, el in enumerate(n.slice.elts):
                        full = isinstance(el, ast.Slice) and el.lower is None and el.upper is None and el.step is None
                        const = isinstance(el, ast.Constant)
                        if full or const:
                            continue
                        if isinstance(el, ast.Name) and pos >= 2 and not isinstance(n.ctx, ast.Store):
                            codes.add(64)
                        else:
                            codes.add(4 if pos <= 1 else 64)
                if isinstance(n, ast.AugAssign) and isinstance(n.op, (ast.Add, ast.Sub)):
                    codes.add(8)
                if isinstance(n, ast.Assign) and len(n.targets) == 1 and isinstance(n.targets[0], ast.Name) \
                        and isinstance(n.value, ast.BinOp) and isinstance(n.value.op, (ast.Add, ast.Sub)):
                    t = n.targets[0].id
                    if any(isinstance(sd, ast.Name) and sd.id == t for sd in (n.value.left, n.value.right)):
                        codes.add(8)
        return sorted(codes)

    for n in ast.walk(fn):
        if isinstance(n, (ast.If, ast.While)):
            mode, size = reads_mode(n.test), is_extent_expr(n.test)
            if mode or size:
                add(8, ("if-training" if mode else "if-size") if isinstance(n, ast.If) else "while-size", 0 if mode else 1,
                    region_codes(list(n.body) + list(n.orelse)), n)
        elif isinstance(n, ast.IfExp):
            mode, size = reads_mode(n.test), is_extent_expr(n.test)
            if mode or size:
                add(8, "ifexp-training" if mode else "ifexp-size", 0 if mode else 1,
                    region_codes([ast.Expr(n.body), ast.Expr(n.orelse)]), n)
        elif isinstance(n, (ast.For, ast.comprehension)):
            it = n.iter
            if isinstance(it, ast.Call) and isinstance(it.func, ast.Name) and it.func.id == "range" and any(is_extent_expr(a) for a in it.args):
                partial = len(it.args) == 3 or any(
                    is_extent_expr(a) and any(isinstance(s, ast.BinOp) for s in ast.walk(a)) for a in it.args)
                body = list(n.body) if isinstance(n, ast.For) else []
                node = n if isinstance(n, ast.For) else it
                add(8, "loop-chunked" if partial else "loop-full", 2 if partial else 3, region_codes(body), node)


def _scalar_like(v) -> bool:
    """an expression that can only be a Python number / bool / size (not a tensor): built from extents, literals, attributes
    of self, comparisons and integer arithmetic"""
    for s in ast.walk(v):
        if isinstance(s, ast.Call):
            f = s.func
            ok = (isinstance(f, ast.Attribute) and f.attr in ("size", "numel", "nelement", "dim")) or \
                 (isinstance(f, ast.Name) and f.id in ("len", "int", "min", "max", "range", "list", "tuple"))
            if not ok:
                return False
    return True


# ---------------------------------------------------------------------------------------------------------------------
# effect rows: (function, kind, detail)
#  0 assignment to self.<attr>                         1 setattr / register_buffer / add_module / __dict__ / vars(self)
#  2 in-place method or item assignment on a self.* chain (buffers, caches: copy_, add_, append, update, [k] = …)
#  3 class attribute (type(self).x = …, self.__class__.x = …, ClassName.x = …)
#  4 module-level state (`global`, item assignment / mutating method on a module-level name)
#  5 memoising decorator (lru_cache, cache, cached_property)
#  6 process-wide torch switch (torch.backends.* = …, set_default_dtype, set_grad_enabled, use_deterministic_algorithms,
#    set_num_threads, set_flush_denormal, manual_seed …)
#  7 mutable default argument ([] / {} / set() / a call)
#  8 in-place method, item assignment or augmented assignment on a parameter (the caller's tensor is modified)
#  9 in-place method on a local tensor (`t.set_()`): allowed, recorded so that the table is not vacuous
# 10 the result depends on a process-wide mode that is not an input (`torch.is_grad_enabled()`, default dtype, RNG state, …)
MUTATORS = {"append", "extend", "insert", "pop", "remove", "clear", "update", "setdefault", "popitem", "add", "discard", "sort", "reverse"}
SWITCHES = {"set_default_dtype", "set_default_device", "set_default_tensor_type", "set_grad_enabled", "use_deterministic_algorithms",
            "set_num_threads", "set_num_interop_threads", "set_flush_denormal", "manual_seed", "seed", "set_rng_state",
            "set_float32_matmul_precision", "set_printoptions", "set_anomaly_enabled", "set_detect_anomaly"}
MODE_READS = {"is_grad_enabled", "is_inference_mode_enabled", "is_autocast_enabled", "is_anomaly_enabled", "are_deterministic_algorithms_enabled",
              "get_default_dtype", "get_num_threads", "get_rng_state", "initial_seed"}
VIEWLIKE = {"permute", "contiguous", "view", "reshape", "transpose", "squeeze", "unsqueeze", "expand", "expand_as", "narrow", "select",
            "detach", "to", "float", "double", "half", "type", "type_as", "flatten", "unflatten", "view_as", "view_as_real", "view_as_complex",
            "movedim", "swapaxes", "t", "real", "imag", "unbind", "split", "chunk", "cpu", "cuda", "requires_grad_", "as_strided", "diagonal",
            "unfold", "moveaxis", "squeeze_", "unsqueeze_", "resolve_conj", "conj"}
MEMO = {"lru_cache", "cache", "cached_property", "memoize", "memoized"}


def _root(node):
    while isinstance(node, (ast.Attribute, ast.Subscript, ast.Call)):
        node = node.value if not isinstance(node, ast.Call) else node.func
    return node


def _is_self_chain(node) -> bool:
    r = _root(node)
    return isinstance(r, ast.Name) and r.id == "self" and not isinstance(node, ast.Name)


def scan_effects(name: str, fn: ast.FunctionDef, cls, fidx: FileIndex) -> list[tuple]:
    rows = []
    params = {a.arg for a in fn.args.posonlyargs + fn.args.args + fn.args.kwonlyargs} - {"self", "cls"}
    locals_assigned = set()
    for n in ast.walk(fn):
        if isinstance(n, ast.Assign):
            for t in n.targets:
                for s in ast.walk(t):
                    if isinstance(s, ast.Name) and isinstance(s.ctx, ast.Store):
                        locals_assigned.add(s.id)
        if isinstance(n, (ast.For, ast.comprehension)):
            for s in ast.walk(n.target):
                if isinstance(s, ast.Name):
                    locals_assigned.add(s.id)
        if isinstance(n, ast.withitem) and n.optional_vars is not None:
            for s in ast.walk(n.optional_vars):
                if isinstance(s, ast.Name):
                    locals_assigned.add(s.id)
    class_names = set(fidx.classes)
    mod_names = fidx.module_names - locals_assigned - params
    rebound: dict[str, int] = {}          # parameter -> first line on which the name is bound to something else
    default_init = set()                  # assignments inside `if <param> is None:` / `if not <param>:` only supply a default
    for n in ast.walk(fn):
        if isinstance(n, ast.If):
            t = n.test
            nm = None
            if isinstance(t, ast.Compare) and isinstance(t.left, ast.Name) and len(t.ops) == 1 and isinstance(t.ops[0], ast.Is) \
                    and isinstance(t.comparators[0], ast.Constant) and t.comparators[0].value is None:
                nm = t.left.id
            elif isinstance(t, ast.UnaryOp) and isinstance(t.op, ast.Not) and isinstance(t.operand, ast.Name):
                nm = t.operand.id
            if nm in params:
                for st in n.body:
                    for s_ in ast.walk(st):
                        default_init.add(id(s_))
    for n in ast.walk(fn):
        if id(n) in default_init:
            continue
        tg = []
        if isinstance(n, ast.Assign):
            tg = n.targets
        elif isinstance(n, (ast.AnnAssign, ast.For)):
            tg = [n.target]
        for t in tg:
            for s in ([t] if isinstance(t, ast.Name) else (t.elts if isinstance(t, (ast.Tuple, ast.List)) else [])):
                if isinstance(s, ast.Name) and s.id in params:
                    rebound[s.id] = min(rebound.get(s.id, 10 ** 9), n.lineno)

    # may-alias analysis, in source order: a name aliases a caller's tensor when it is a parameter, or was last assigned a
    # view-like expression (`permute`, `contiguous` — which returns its argument when that is already contiguous —, `view`,
    # `reshape`, `transpose`, `squeeze`, `to`, slicing, a keyword argument `kwargs[...]`, a plain name, …) of such a name
    assigns = []
    for n in ast.walk(fn):
        if id(n) in default_init:
            continue
        if isinstance(n, ast.Assign):
            for t in n.targets:
                assigns.append((n.lineno, t, n.value))
        elif isinstance(n, ast.AnnAssign) and n.value is not None:
            assigns.append((n.lineno, n.target, n.value))
        elif isinstance(n, ast.For):
            assigns.append((n.lineno, n.target, n.iter))
    assigns.sort(key=lambda a: a[0])
    all_params = params | ({fn.args.kwarg.arg} if fn.args.kwarg else set()) | ({fn.args.vararg.arg} if fn.args.vararg else set())

    def alias_of(value, state) -> bool:
        if isinstance(value, ast.Name):
            return state.get(value.id, False)
        if isinstance(value, (ast.Attribute, ast.Subscript, ast.Starred)):
            if isinstance(value, ast.Attribute) and value.attr in ("shape", "dtype", "device", "ndim"):
                return False
            return alias_of(value.value, state)
        if isinstance(value, ast.IfExp):
            return alias_of(value.body, state) or alias_of(value.orelse, state)
        if isinstance(value, ast.Call):
            f = value.func
            if isinstance(f, ast.Attribute) and f.attr in VIEWLIKE:
                if _is_torch_ns(f.value) or ast.unparse(f.value) == "torch":
                    return bool(value.args) and alias_of(value.args[0], state)
                return alias_of(f.value, state)
            if isinstance(f, ast.Attribute) and f.attr in ("get", "pop") and isinstance(f.value, ast.Name):
                return state.get(f.value.id, False)
        return False

    branches = []
    for n in ast.walk(fn):
        if isinstance(n, ast.If):
            b = {id(x) for st in n.body for x in ast.walk(st)}
            o = {id(x) for st in n.orelse for x in ast.walk(st)}
            branches.append((b, o))

    def alias_state(lineno: int, node=None) -> dict:
        state = {p: True for p in all_params}
        other = set()                      # statements of the sibling branches of every `if` the node sits in: not on its path
        if node is not None:
            for b, o in branches:
                if id(node) in b:
                    other |= o
                elif id(node) in o:
                    other |= b
        for ln, target, value in assigns:
            if ln >= lineno:
                break
            if id(value) in other:
                continue
            if isinstance(target, ast.Name):
                state[target.id] = alias_of(value, state)
            elif isinstance(target, (ast.Tuple, ast.List)):
                al = alias_of(value, state) and not (isinstance(value, ast.Attribute) and value.attr == "shape")
                for el in target.elts:
                    if isinstance(el, ast.Name):
                        state[el.id] = al
        return state

    def is_input(nm: str, node) -> bool:
        if id(node) in default_init or nm in ("self", "cls"):
            return False
        return alias_state(getattr(node, "lineno", 0), node).get(nm, False)

    def add(kind, detail):
        rows.append((name, kind, detail[:60]))

    for d in fn.decorator_list:
        txt = ast.unparse(d)
        if txt.split("(")[0].split(".")[-1] in MEMO:
            add(5, txt)
    allp = fn.args.posonlyargs + fn.args.args
    for a, d in list(zip(allp[len(allp) - len(fn.args.defaults):], fn.args.defaults)) + \
            [(a, d) for a, d in zip(fn.args.kwonlyargs, fn.args.kw_defaults) if d is not None]:
        if isinstance(d, (ast.List, ast.Dict, ast.Set, ast.ListComp, ast.DictComp, ast.SetComp)):
            add(7, f"{a.arg}={ast.unparse(d)}")
        elif isinstance(d, ast.Call):
            f = ast.unparse(d.func)
            if f not in ("tuple", "frozenset", "int", "float", "str", "bool"):
                add(7, f"{a.arg}={ast.unparse(d)}")
    for n in ast.walk(fn):
        if isinstance(n, ast.Global):
            add(4, "global " + ",".join(n.names))
        if isinstance(n, ast.Nonlocal):
            add(4, "nonlocal " + ",".join(n.names))
        targets = []
        if isinstance(n, ast.Assign):
            targets = list(n.targets)
        elif isinstance(n, ast.AnnAssign) and n.value is not None:
            targets = [n.target]
        elif isinstance(n, ast.AugAssign):
            targets = [n.target]
            if isinstance(n.target, ast.Name) and is_input(n.target.id, n):
                add(8, ast.unparse(n.target) + " " + type(n.op).__name__ + "=")
        elif isinstance(n, ast.Delete):
            targets = [t for t in n.targets if not isinstance(t, ast.Name)]
        flat = []
        for t in targets:
            flat += list(t.elts) if isinstance(t, (ast.Tuple, ast.List)) else [t]
        for t in flat:
            if isinstance(t, ast.Starred):
                t = t.value
            if isinstance(t, ast.Attribute):
                r = _root(t)
                txt = ast.unparse(t)
                if isinstance(t.value, ast.Name) and t.value.id == "self":
                    add(0, txt)
                elif isinstance(r, ast.Name) and r.id == "self":
                    if "__class__" in txt:
                        add(3, txt)
                    elif "__dict__" in txt:
                        add(1, txt)
                    else:
                        add(2, txt)
                elif txt.startswith("torch.backends") or txt.startswith("torch._C") or txt.startswith("torch.autograd"):
                    add(6, txt)
                elif isinstance(r, ast.Name) and (r.id in class_names or r.id == "cls"):
                    add(3, txt)
                elif isinstance(r, ast.Call) and ast.unparse(r.func) == "type":
                    add(3, txt)
                elif isinstance(r, ast.Name) and is_input(r.id, n):
                    add(8, txt)
                elif isinstance(r, ast.Name) and r.id in mod_names:
                    add(4, txt)
            elif isinstance(t, ast.Subscript):
                r = _root(t)
                txt = ast.unparse(t)
                if isinstance(r, ast.Name) and r.id == "self":
                    add(1 if "__dict__" in txt else 2, txt)
                elif isinstance(r, ast.Call) and ast.unparse(r.func) in ("vars", "globals"):
                    add(1 if ast.unparse(r.func) == "vars" else 4, txt)
                elif isinstance(r, ast.Name) and is_input(r.id, n) and r.id not in ("kwargs",):
                    add(8, txt)
                elif isinstance(r, ast.Name) and r.id in mod_names:
                    add(4, txt)
                elif isinstance(r, ast.Name) and (r.id in class_names or r.id == "cls"):
                    add(3, txt)
        if isinstance(n, ast.Call):
            ftxt = ast.unparse(n.func)
            if ftxt in ("setattr", "object.__setattr__", "delattr") and n.args:
                r = _root(n.args[0])
                if isinstance(n.args[0], ast.Name) and n.args[0].id == "self":
                    add(1, ftxt + "(self, …)")
                elif isinstance(r, ast.Call) or (isinstance(r, ast.Name) and (r.id in class_names or r.id == "cls")) or "__class__" in ast.unparse(n.args[0]):
                    add(3, ftxt + "(" + ast.unparse(n.args[0]) + ", …)")
                elif isinstance(r, ast.Name) and r.id in mod_names:
                    add(4, ftxt + "(" + ast.unparse(n.args[0]) + ", …)")
            if isinstance(n.func, ast.Attribute):
                meth = n.func.attr
                recv = n.func.value
                if meth in ("register_buffer", "add_module", "register_parameter", "register_module", "__setattr__", "requires_grad_",
                            "load_state_dict", "train", "eval", "half", "double", "float", "to_empty") and isinstance(recv, ast.Name) and recv.id == "self":
                    if meth not in ("float", "double", "half"):
                        add(1, "self." + meth)
                if ftxt.split(".")[-1] in SWITCHES and (ftxt.startswith("torch.") or ftxt.startswith("np.random") or ftxt.startswith("random.")):
                    add(6, ftxt)
                if ftxt.split(".")[-1] in MODE_READS and ftxt.startswith("torch."):
                    add(10, ftxt)
                inplace = (meth.endswith("_") and not meth.endswith("__") and not meth.startswith("_")) or meth in MUTATORS
                if inplace:
                    r = _root(recv)
                    if isinstance(r, ast.Name) and r.id == "self" and not isinstance(recv, ast.Name):
                        add(2, ast.unparse(recv) + "." + meth)
                    elif isinstance(r, ast.Name) and is_input(r.id, n) and (meth not in MUTATORS or meth in ("append", "extend", "update", "clear", "pop")):
                        add(8, ast.unparse(recv) + "." + meth)
                    elif isinstance(r, ast.Name) and r.id in mod_names:
                        add(4, ast.unparse(recv) + "." + meth)
                    elif isinstance(r, ast.Name) and (r.id in class_names or r.id == "cls"):
                        add(3, ast.unparse(recv) + "." + meth)
                    elif isinstance(r, ast.Name) and meth.endswith("_") and not ftxt.startswith(("nn.init", "torch.nn.init")):
                        add(9, ast.unparse(recv) + "." + meth)
    return rows


# ---------------------------------------------------------------------------------------------------------------------
def trace_models(repo: pathlib.Path):
    """-> (dict zoo entry name -> sorted list of (relative file, qualified name, first line) executed by one evaluation of
    a batch of two, extra): the real models, tiny widths, eval mode"""
    import warnings
    warnings.filterwarnings("ignore")
    import boot  # noqa: F401
    import torch

    from props import zoo_common as Z

    try:
        from props import c18 as P
        extra_entries = list(getattr(P, "extra_entries", lambda: [])()) + list(getattr(P, "optional_arg_entries", lambda: [])())
        unusable = set(getattr(P, "_UNUSABLE", ()))
    except Exception:  # noqa: BLE001
        extra_entries, unusable, P = [], set(), None
    root = str(repo) + "/direct"
    out = {}
    entries = [e for e in Z.zoo(thorough=True)] + extra_entries
    for e in entries:
        if e.finding in unusable:
            continue
        try:
            m = P.model_of(e) if P is not None else e.model()
        except Exception:  # noqa: BLE001
            continue
        size = next(((h, w) for (h, w) in [(9, 12), (17, 20), (10, 12), (18, 20), (12, 12)] if e.admissible(h, w, 3)), None)
        if size is None:
            continue
        seen = set()

        def prof(frame, event, arg, seen=seen):
            if event == "call":
                co = frame.f_code
                if co.co_filename.startswith(root):
                    seen.add((co.co_filename[len(str(repo)) + 1:], co.co_qualname, co.co_firstlineno))

        try:
            x = P._inputs(e, 2, size[0], size[1], 7) if P is not None else None
            if x is None:
                continue
            sys.setprofile(prof)
            try:
                P._run(e, m, x)
            finally:
                sys.setprofile(None)
        except Exception:  # noqa: BLE001
            sys.setprofile(None)
            continue
        out[e.name] = sorted(f for f in seen if "<genexpr>" not in f[1] and "<listcomp>" not in f[1] and "<lambda>" not in f[1])
    return out


# ---------------------------------------------------------------------------------------------------------------------
SKIP_METHODS = {"__init__", "reset_parameters", "__repr__", "extra_repr", "__str__"}
ENGINE_METHODS = {"forward_function", "compute_sensitivity_map", "compute_model_per_coil", "_forward_operator", "_backward_operator"}
ENGINE_FUNCS = {"_process_output"}


def _nn_files(repo: pathlib.Path):
    return [p for p in sorted((repo / "direct" / "nn").rglob("*.py")) if p.name not in ("config.py", "__init__.py", "types.py")]


def _is_engine_file(p: pathlib.Path) -> bool:
    return p.name.endswith("_engine.py") or p.name == "mri_models.py"


class World:
    """all scanned source files of one working tree"""

    def __init__(self, repo: pathlib.Path):
        self.repo = repo
        self.files: dict[str, FileIndex] = {}
        self.classes: dict[str, ast.ClassDef] = {}
        for p in _nn_files(repo):
            self.file(str(p.relative_to(repo)))

    def file(self, rel: str) -> FileIndex:
        if rel not in self.files:
            fi = FileIndex(self.repo / rel)
            self.files[rel] = fi
            for k, v in fi.classes.items():
                self.classes.setdefault(k, v)
        return self.files[rel]

    def static_functions(self):
        """(relative file, qualified name, FunctionDef, ClassDef | None) for every function on a forward / reconstruction
        path of direct/nn: all methods and functions of the network files except constructors; the reconstruction methods
        of the engine files"""
        for rel, fi in sorted(self.files.items()):
            if not rel.startswith("direct/nn/"):
                continue
            eng = _is_engine_file(pathlib.Path(rel))
            init_only = set()
            for cname, cdef in fi.classes.items():
                called_by: dict[str, set[str]] = {}
                for f in cdef.body:
                    if isinstance(f, ast.FunctionDef):
                        for c in ast.walk(f):
                            if isinstance(c, ast.Call) and isinstance(c.func, ast.Attribute) and isinstance(c.func.value, ast.Name) \
                                    and c.func.value.id in ("self", "cls", cname):
                                called_by.setdefault(c.func.attr, set()).add(f.name)
                for m, callers in called_by.items():
                    if m != "forward" and callers and callers <= SKIP_METHODS:
                        init_only.add(f"{cname}.{m}")      # helpers of constructors / weight initialisation only
            for (q, _ln), (fn, cls) in sorted(fi.funcs.items(), key=lambda kv: kv[0][1]):
                if q in init_only:
                    continue
                if "<locals>" in q:
                    continue
                short = q.split(".")[-1]
                if short in SKIP_METHODS:
                    continue
                if eng and not ((cls is not None and short in ENGINE_METHODS) or (cls is None and short in ENGINE_FUNCS)):
                    continue
                if cls is None and (short.startswith("__") or short in ("_get_relu_activation", "_get_model_config")):
                    continue
                yield rel, q, fn, cls


def build_tables(repo: pathlib.Path, traced: dict | None):
    """-> dict(functions=[qualified names], prims={name: rows}, effects=[rows], unresolved=[rows], models={entry: [names]})"""
    w = World(repo)
    funcs: dict[str, tuple] = {}
    for rel, q, fn, cls in w.static_functions():
        funcs.setdefault(q, (rel, fn, cls))
    models = {}
    for entry, lst in (traced or {}).items():
        names = []
        for rel, q, ln in lst:
            if "<locals>" in q:
                q0 = q.split(".<locals>")[0]      # nested helpers are scanned as part of the enclosing function's text
            else:
                q0 = q
            fi = w.file(rel)
            hit = fi.lookup(q0, ln) if q0 == q else fi.by_name.get(q0)
            if hit is None:
                continue
            funcs.setdefault(q0, (rel, hit[0], hit[1]))
            if q0 not in names:
                names.append(q0)
        models[entry] = sorted(names)
    fparams = {}
    clash = set()
    for q, (rel, fn, cls) in funcs.items():
        short = q.split(".")[-1]
        ps = [a.arg for a in fn.args.posonlyargs + fn.args.args]
        if short in fparams and fparams[short] != ps:
            clash.add(short)
        fparams[short] = ps
    for c in clash:
        fparams.pop(c, None)
    prims, effects, unresolved = {}, [], []
    for q in sorted(funcs):
        rel, fn, cls = funcs[q]
        fi = w.file(rel)
        rows = scan_prims(q, fn, cls, fi.attrs_of(cls, world=w.classes), fparams)
        good = [r for r in rows if not _is_unresolved(r)]
        unresolved += [r for r in rows if _is_unresolved(r)]
        prims[q] = good
        effects += scan_effects(q, fn, cls, fi)
    return {"functions": sorted(funcs), "prims": prims, "effects": effects, "unresolved": unresolved, "models": models,
            "files": {q: funcs[q][0] for q in funcs}}


def _is_unresolved(r) -> bool:
    _name, family, _op, form, _args, _sink = r
    if family in (0, 1, 2, 4):
        return form == 2
    if family == 3:
        return form == 4
    return False
