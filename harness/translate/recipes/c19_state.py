"""C19 structural table (imported by recipes/c19.py): state that outlives a call of a data-consistency block.

For every class that evaluates a data-consistency term (the two anchored blocks, their callers RIM / CIRIM / ConjGradNet,
the unrolled models and the engines of the `site_*` plans) the functions reachable from its entry points (`forward`, the
operator helpers, `_do_iteration`, `forward_function`) are scanned for every write to

  * an attribute / item of `self` (assignment, augmented assignment, `del`, `setattr`, mutating method call such as
    `self.cache.update(..)`, `self.buf.copy_(..)`, `register_buffer`),
  * a class attribute (`type(self).x`, `self.__class__.x`, `ClassName.x`, `cls.x`),
  * a module global (`global`, module-level containers, mutable default arguments),
  * and for memoising decorators (`lru_cache`, `cache`, `cached_property`, anything named *cache* / *memo*).

`dc_state_writes` is the list of such writes (empty on the current tree), `dc_state_reach` the functions that were scanned,
`dc_state_unresolved` the `self.<method>` calls that could not be resolved inside the scanned files (inherited from
torch: `train`, `parameters`, ... — listed so that the predicate can bound them).
"""
from __future__ import annotations

import ast

from ..gen import REPO, Untranslatable, parse_file

NN = "direct/nn/"
TRANSFORMS = "direct/data/transforms.py"

# (file, class, entry points, base classes as (file, class))
DC_CLASSES = [
    (NN + "rim/rim.py", "MRILogLikelihood", ["forward"], []),
    (NN + "rim/rim.py", "RIM", ["forward"], []),
    (NN + "conjgradnet/conjgrad.py", "ConjGrad", ["forward", "cg", "B_op", "_A_star_A_op", "_A_star_op"], []),
    (NN + "conjgradnet/conjgradnet.py", "ConjGradNet", ["forward"], []),
    (NN + "cirim/cirim.py", "RIMBlock", ["forward"], []),
    (NN + "cirim/cirim.py", "CIRIM", ["forward"], []),
    (NN + "varnet/varnet.py", "EndToEndVarNetBlock", ["forward"], []),
    (NN + "varnet/varnet.py", "EndToEndVarNet", ["forward"], []),
    (NN + "recurrentvarnet/recurrentvarnet.py", "RecurrentVarNetBlock", ["forward"], []),
    (NN + "recurrentvarnet/recurrentvarnet.py", "RecurrentVarNet", ["forward"], []),
    (NN + "vsharp/vsharp.py", "VSharpNet", ["forward"], []),
    (NN + "vsharp/vsharp.py", "VSharpNet3D", ["forward"], []),
    (NN + "jointicnet/jointicnet.py", "JointICNet", ["forward", "_forward_operator", "_backward_operator"], []),
    (NN + "iterdualnet/iterdualnet.py", "IterDualNet", ["forward", "_forward_operator", "_backward_operator"], []),
    (NN + "lpd/lpd.py", "LPDNet", ["forward", "_forward_operator", "_backward_operator"], []),
    (NN + "crossdomain/crossdomain.py", "CrossDomainNetwork", ["forward", "_forward_operator", "_backward_operator"], []),
    (NN + "varsplitnet/varsplitnet.py", "MRIVarSplitNet", ["forward"], []),
    (NN + "kikinet/kikinet.py", "KIKINet", ["forward"], []),
    (NN + "mri_models.py", "MRIModelEngine", ["_forward_operator", "_backward_operator"], []),
    (NN + "ssl/mri_models.py", "SSLMRIModelEngine", ["_do_iteration"], [(NN + "mri_models.py", "MRIModelEngine")]),
    (NN + "ssl/mri_models.py", "JSSLMRIModelEngine", ["_do_iteration"], [(NN + "mri_models.py", "MRIModelEngine")]),
    (NN + "vsharp/vsharp_engine.py", "VSharpNetEngine", ["forward_function"], [(NN + "mri_models.py", "MRIModelEngine")]),
    (NN + "vsharp/vsharp_engine.py", "VSharpNet3DEngine", ["forward_function"], [(NN + "mri_models.py", "MRIModelEngine")]),
    (NN + "vsharp/vsharp_engine.py", "VSharpNetSSLEngine", ["_do_iteration"],
     [(NN + "ssl/mri_models.py", "SSLMRIModelEngine"), (NN + "mri_models.py", "MRIModelEngine")]),
    (NN + "vsharp/vsharp_engine.py", "VSharpNetJSSLEngine", ["_do_iteration"],
     [(NN + "ssl/mri_models.py", "JSSLMRIModelEngine"), (NN + "mri_models.py", "MRIModelEngine")]),
]
# the tensor helpers every data-consistency term is built from
TRANSFORM_FUNCS = ["expand_operator", "reduce_operator", "complex_multiplication", "conjugate", "complex_dot_product",
                   "complex_division", "safe_divide", "apply_mask", "apply_padding", "fft2", "ifft2"]

MUTATORS = {"append", "extend", "insert", "remove", "pop", "popitem", "clear", "update", "setdefault", "add", "discard",
            "move_to_end", "appendleft", "popleft", "sort", "reverse", "__setitem__", "__delitem__", "__setattr__", "put",
            "cache_clear", "register_buffer", "register_parameter", "add_module", "copy_", "fill_", "zero_", "add_", "mul_",
            "sub_", "div_", "set_", "resize_", "masked_fill_", "index_put_", "clamp_", "requires_grad_", "detach_",
            "register_forward_hook", "register_forward_pre_hook"}
_CONTAINERS = ("dict", "list", "set", "OrderedDict", "collections.OrderedDict", "defaultdict", "collections.defaultdict",
               "WeakKeyDictionary", "weakref.WeakKeyDictionary", "WeakValueDictionary", "weakref.WeakValueDictionary")


def _q(x) -> str:
    return '"' + str(x).replace("\\", "\\\\").replace('"', '\\"').replace("\n", " ") + '"'


class _Module:
    def __init__(self, rel: str):
        self.rel = rel
        self.tree = parse_file(REPO / rel)
        self.funcs: dict[str, ast.FunctionDef] = {}
        self.classes: dict[str, ast.ClassDef] = {}
        self.containers: set[str] = set()
        self.modnames: set[str] = set()
        for st in self.tree.body:
            if isinstance(st, ast.ClassDef):
                self.classes[st.name] = st
                for m in st.body:
                    if isinstance(m, (ast.FunctionDef, ast.AsyncFunctionDef)):
                        self.funcs[f"{st.name}.{m.name}"] = m
            elif isinstance(st, (ast.FunctionDef, ast.AsyncFunctionDef)):
                self.funcs[st.name] = st
            elif isinstance(st, (ast.Assign, ast.AnnAssign)) and st.value is not None:
                tg = st.targets if isinstance(st, ast.Assign) else [st.target]
                for t in tg:
                    if isinstance(t, ast.Name) and t.id != "__all__":
                        self.modnames.add(t.id)
                        v = st.value
                        if isinstance(v, (ast.Dict, ast.List, ast.Set)) or (isinstance(v, ast.Call) and ast.unparse(v.func) in _CONTAINERS):
                            self.containers.add(t.id)


def _root(node, fn_self, fn_globals, persistent, class_names):
    chain = []
    while True:
        if isinstance(node, ast.Attribute):
            chain.append(node.attr)
            node = node.value
        elif isinstance(node, ast.Subscript):
            chain.append("[]")
            node = node.value
        else:
            break
    chain.reverse()
    first = next((c for c in chain if c != "[]"), "[]")
    if isinstance(node, ast.Name) and not chain:
        return ("global", node.id) if node.id in fn_globals else None
    if isinstance(node, ast.Name):
        if fn_self is not None and node.id == fn_self:
            if fn_self == "cls":
                return "class", first
            if chain[:1] == ["__class__"]:
                return "class", next((c for c in chain[1:] if c != "[]"), "__class__")
            if chain[:1] == ["__dict__"]:
                return "self", next((c for c in chain[1:] if c != "[]"), "__dict__")
            return "self", first
        if node.id in class_names:
            return "class", first
        if node.id in fn_globals or node.id in persistent:
            return "global", node.id
        return None
    if isinstance(node, ast.Call):
        f = ast.unparse(node.func)
        if f in ("type", "vars") and node.args and isinstance(node.args[0], ast.Name) and node.args[0].id == fn_self:
            return ("class" if f == "type" else "self"), first
        if f == "globals":
            return "global", first
    return None


def scan_function(qual: str, fn: ast.FunctionDef, mod: _Module) -> list[tuple[str, str, str]]:
    """-> [(scope, target, how)]"""
    out: list[tuple[str, str, str]] = []
    args = fn.args.posonlyargs + fn.args.args
    deco = [ast.unparse(d) for d in fn.decorator_list]
    static = any(d.endswith("staticmethod") for d in deco)
    fn_self = args[0].arg if ("." in qual and args and not static) else None
    for d in deco:
        if "cache" in d.lower() or "memo" in d.lower():
            out.append(("decorator", d, "cache"))
    fn_globals: set[str] = set()
    for n in ast.walk(fn):
        if isinstance(n, (ast.Global, ast.Nonlocal)):
            for name in n.names:
                fn_globals.add(name)
                out.append(("global", name, "global"))
    local_names = {a.arg for a in args + fn.args.kwonlyargs}
    for n in ast.walk(fn):
        if isinstance(n, ast.Name) and isinstance(n.ctx, ast.Store):
            local_names.add(n.id)
    persistent = {m for m in mod.containers if m not in local_names}
    for a, d in list(zip(args[len(args) - len(fn.args.defaults):], fn.args.defaults)) + [
            (a, d) for a, d in zip(fn.args.kwonlyargs, fn.args.kw_defaults) if d is not None]:
        if isinstance(d, (ast.Dict, ast.List, ast.Set)) or (isinstance(d, ast.Call) and ast.unparse(d.func) in _CONTAINERS):
            persistent.add(a.arg)
    cls_names = set(mod.classes)

    def record(node, how):
        r = _root(node, fn_self, fn_globals, persistent, cls_names)
        if r is not None:
            out.append((r[0], r[1], how))

    def targets(t):
        if isinstance(t, (ast.Tuple, ast.List)):
            for e in t.elts:
                yield from targets(e)
        elif isinstance(t, ast.Starred):
            yield from targets(t.value)
        else:
            yield t

    for n in ast.walk(fn):
        if isinstance(n, ast.Assign):
            for t0 in n.targets:
                for t in targets(t0):
                    record(t, "subscript" if isinstance(t, ast.Subscript) else "assign")
        elif isinstance(n, ast.AnnAssign) and n.value is not None:
            record(n.target, "assign")
        elif isinstance(n, ast.AugAssign):
            record(n.target, "augassign")
        elif isinstance(n, ast.NamedExpr):
            record(n.target, "assign")
        elif isinstance(n, ast.Delete):
            for t0 in n.targets:
                for t in targets(t0):
                    if not isinstance(t, ast.Name) or t.id in fn_globals:
                        record(t, "del")
        elif isinstance(n, ast.Call):
            f = n.func
            if isinstance(f, ast.Attribute) and f.attr in MUTATORS:
                if isinstance(f.value, ast.Name) and f.value.id == fn_self:
                    out.append(("self" if fn_self == "self" else "class", "<object>", "call:" + f.attr))
                else:
                    r = _root(f.value, fn_self, fn_globals, persistent, cls_names)
                    if r is not None:
                        out.append((r[0], r[1], "call:" + f.attr))
            elif ast.unparse(f) in ("setattr", "object.__setattr__", "delattr") and n.args:
                a0 = n.args[0]
                if isinstance(a0, ast.Name) and a0.id == fn_self:
                    out.append(("self" if fn_self == "self" else "class", ast.unparse(n.args[1]) if len(n.args) > 1 else "?", "setattr"))
                elif (isinstance(a0, ast.Name) and a0.id in cls_names) or ast.unparse(a0) in ("type(self)", "self.__class__"):
                    out.append(("class", ast.unparse(n.args[1]) if len(n.args) > 1 else "?", "setattr"))
    return out


def _reach(cls: str, entries, mods: list[_Module]):
    """methods of `cls` (then of its bases, in order) and module-level functions reachable from the entry points"""
    def lookup(meth):
        for i, (m, c) in enumerate(mods):
            if f"{c}.{meth}" in m.funcs:
                return i, f"{c}.{meth}"
        return None

    seen, todo, unresolved = [], [], []
    for e in entries:
        hit = lookup(e)
        if hit is None:
            raise Untranslatable(f"{cls}.{e} not found")
        todo.append(hit)
    while todo:
        i, q = todo.pop(0)
        if (i, q) in seen:
            continue
        seen.append((i, q))
        m = mods[i][0]
        for n in ast.walk(m.funcs[q]):
            if not isinstance(n, ast.Call):
                continue
            f = n.func
            if isinstance(f, ast.Attribute) and isinstance(f.value, ast.Name) and f.value.id in ("self", "cls"):
                hit = lookup(f.attr)
                if hit is not None:
                    todo.append(hit)
                elif f.attr not in unresolved:
                    unresolved.append(f.attr)
            elif isinstance(f, ast.Attribute) and isinstance(f.value, ast.Call) and ast.unparse(f.value.func) == "super":
                for j, (m2, c2) in enumerate(mods[1:], 1):
                    if f"{c2}.{f.attr}" in m2.funcs:
                        todo.append((j, f"{c2}.{f.attr}"))
                        break
            elif isinstance(f, ast.Name) and f.id in m.funcs:
                todo.append((i, f.id))
    return seen, unresolved


def state_tables() -> tuple[str, dict]:
    cache: dict[str, _Module] = {}

    def mod(rel):
        if rel not in cache:
            cache[rel] = _Module(rel)
        return cache[rel]

    writes, reach_all, unresolved_all = [], [], []
    for rel, cls, entries, bases in DC_CLASSES:
        mods = [(mod(rel), cls)] + [(mod(r), c) for r, c in bases]
        if cls not in mods[0][0].classes:
            raise Untranslatable(f"class {cls} not found in {rel}")
        seen, unresolved = _reach(cls, entries, mods)
        for i, q in seen:
            m = mods[i][0]
            reach_all.append(f"{cls}:{q}")
            for scope, target, how in scan_function(q, m.funcs[q], m):
                writes.append((cls, q, scope, target, how))
        for u in unresolved:
            if u not in unresolved_all:
                unresolved_all.append(u)
        init = mods[0][0].funcs.get(f"{cls}.__init__")
        if init is not None:          # a memoising wrapper installed by the constructor
            for n in ast.walk(init):
                if isinstance(n, ast.Call):
                    f = ast.unparse(n.func)
                    if "cache" in f.lower() or "memo" in f.lower():
                        writes.append((cls, f"{cls}.__init__", "decorator", f, "cache"))
    tm = mod(TRANSFORMS)
    for name in TRANSFORM_FUNCS:
        if name not in tm.funcs:
            raise Untranslatable(f"{name} not found in {TRANSFORMS}")
        reach_all.append(f"transforms:{name}")
        for scope, target, how in scan_function(name, tm.funcs[name], tm):
            writes.append(("transforms", name, scope, target, how))
    dedup = []
    for w in writes:
        if w not in dedup:
            dedup.append(w)
    # ---- the anchored blocks: exits and in-place operations
    exits, inplace = [], []
    anchored = [(NN + "rim/rim.py", ["MRILogLikelihood.forward"]),
                (NN + "conjgradnet/conjgrad.py", ["ConjGrad.forward", "ConjGrad.cg", "ConjGrad.B_op", "ConjGrad._A_star_A_op",
                                                  "ConjGrad._A_star_op", "_PRP", "_DY", "_BAN"]),
                (TRANSFORMS, ["expand_operator", "reduce_operator", "complex_multiplication", "conjugate", "complex_dot_product",
                              "complex_division", "safe_divide"])]
    for rel, quals in anchored:
        m = mod(rel)
        for q in quals:
            if q not in m.funcs:
                raise Untranslatable(f"{q} not found in {rel}")
            fn = m.funcs[q]
            nret = sum(1 for n in ast.walk(fn) if isinstance(n, ast.Return))
            nyield = sum(1 for n in ast.walk(fn) if isinstance(n, (ast.Yield, ast.YieldFrom)))
            exits.append((q, nret, isinstance(fn.body[-1], ast.Return) and nyield == 0))
            params = {a.arg for a in fn.args.posonlyargs + fn.args.args + fn.args.kwonlyargs} - {"self"}
            # `data = data.clone()` makes the name a private copy from that line on
            private = {}
            for n in ast.walk(fn):
                if (isinstance(n, ast.Assign) and len(n.targets) == 1 and isinstance(n.targets[0], ast.Name)
                        and n.targets[0].id in params and ast.unparse(n.value).endswith(".clone()")):
                    private[n.targets[0].id] = min(private.get(n.targets[0].id, 10 ** 9), n.lineno)
            for n in ast.walk(fn):
                if isinstance(n, ast.AugAssign):
                    inplace.append((q, "augassign " + ast.unparse(n.target)))
                elif isinstance(n, ast.Assign):
                    for t in n.targets:
                        base = t
                        while isinstance(base, (ast.Subscript, ast.Attribute)) and not isinstance(t, ast.Name):
                            base = base.value
                        if (isinstance(t, (ast.Subscript, ast.Attribute)) and isinstance(base, ast.Name) and base.id in params
                                and not n.lineno > private.get(base.id, 10 ** 9)):
                            inplace.append((q, "store into argument " + ast.unparse(t)))
                elif isinstance(n, ast.Call):
                    f = n.func
                    if isinstance(f, ast.Attribute) and f.attr.endswith("_") and not f.attr.startswith("__") and f.attr not in ("requires_grad_",):
                        inplace.append((q, "call ." + f.attr))
                    if any(k.arg == "out" for k in n.keywords):
                        inplace.append((q, "out= in " + ast.unparse(f)))
    # ---- control flow: branches, loops, comprehensions
    import re
    mode_pat = re.compile(r"\.training\b|is_grad_enabled|\.shape\b|\.size\(|\bndim\b|\.dim\(\)|\blen\(|numel|\.device\b|\.dtype\b|"
                          r"requires_grad|\.eval\(|\.train\(|split|chunk|unbind")

    def control_rows(q, fn, everything):
        params = [a.arg for a in fn.args.posonlyargs + fn.args.args + fn.args.kwonlyargs]

        def norm(node):
            t = ast.unparse(node)
            for i_, a_ in enumerate(params):
                t = re.sub(rf"(?<![\w.]){re.escape(a_)}(?!\w)", f"arg{i_}", t)
            return " ".join(t.split())
        out_ = []
        q = q.split(".")[0] if "." in q else "module"        # the owning class: helper extraction / inlining is followed
        for n in ast.walk(fn):
            if isinstance(n, (ast.If, ast.IfExp)) and isinstance(n.test, ast.Compare) and len(n.test.ops) == 1 \
                    and isinstance(n.test.ops[0], (ast.Is, ast.IsNot)) and ast.unparse(n.test.comparators[0]) == "None" \
                    and isinstance(n.test.left, ast.Name) and n.test.left.id in params:
                if everything:
                    out_.append((q, "If", "optional argument given"))       # either polarity, `if` or conditional expression
            elif isinstance(n, ast.If) and len(n.body) == 1 and isinstance(n.body[0], ast.Break) and not n.orelse:
                if everything:
                    out_.append((q, "If", "break"))                          # what is tested: `cg_loop_shape`
            elif isinstance(n, (ast.If, ast.While, ast.IfExp)):
                if everything or mode_pat.search(ast.unparse(n.test)):
                    out_.append((q, "If" if isinstance(n, ast.IfExp) else type(n).__name__, norm(n.test)))
            elif isinstance(n, (ast.For, ast.AsyncFor)):
                out_.append((q, "For", norm(n.iter)))
            elif isinstance(n, (ast.ListComp, ast.GeneratorExp, ast.SetComp, ast.DictComp)):
                for g_ in n.generators:
                    if everything or mode_pat.search(ast.unparse(g_.iter)):
                        out_.append((q, "Comp", norm(g_.iter)))
            elif isinstance(n, (ast.Try, ast.With, ast.AsyncWith, ast.Match)) and everything:
                out_.append((q, type(n).__name__, ""))
        return out_

    block_ctl, site_ctl = [], []
    for rel, cls, entries, bases in DC_CLASSES:
        mods = [(mod(rel), cls)] + [(mod(r), c) for r, c in bases]
        seen, _ = _reach(cls, entries, mods)
        anchored_cls = cls in ("MRILogLikelihood", "ConjGrad")
        for i, q in seen:
            for row in control_rows(q, mods[i][0].funcs[q], anchored_cls):
                tgt = block_ctl if anchored_cls else site_ctl
                if row not in tgt:
                    tgt.append(row)
    for name in ["expand_operator", "reduce_operator", "complex_multiplication", "conjugate", "complex_dot_product", "complex_division",
                 "safe_divide"]:
        for row in control_rows(name, tm.funcs[name], False):
            if row not in block_ctl:
                block_ctl.append(row)
    ctl = lambda rows: ",\n   ".join(f"({_q(a)}, {_q(b)}, {_q(c)})" for a, b, c in rows)
    exit_rows = ", ".join(f"({_q(q)}, {n}, {'true' if last else 'false'})" for q, n, last in exits)
    inplace_rows = ", ".join(f"({_q(q)}, {_q(w)})" for q, w in inplace)
    body = ",\n   ".join(f"{{ cls := {_q(c)}, func := {_q(f)}, scope := {_q(s)}, target := {_q(t)}, how := {_q(h)} }}"
                         for c, f, s, t, h in dedup)
    text = ("/-- translated: every write to an attribute of `self`, a class attribute, a module global / container / mutable default,\n"
            "and every memoising decorator, in the functions reachable from the entry points of the data-consistency classes -/\n"
            f"def dc_state_writes : List StateWrite :=\n  [{body}]\n"
            "/-- the functions that were scanned (`Class:Class.method`, base-class methods under the derived class) -/\n"
            f"def dc_state_reach : List String := [{', '.join(_q(r) for r in reach_all)}]\n"
            "/-- `self.<name>(…)` calls on those paths that resolve to no method of the scanned classes (sub-modules, torch) -/\n"
            f"def dc_state_unresolved : List String := [{', '.join(_q(u) for u in unresolved_all)}]\n"
            "/-- the anchored blocks and the tensor helpers under them: number of `return`s, and whether the last statement is one -/\n"
            f"def dc_block_exits : List (String × Nat × Bool) := [{exit_rows}]\n"
            "/-- in-place operations in those functions: augmented assignments, stores into an argument, `x.op_()` calls, `out=` -/\n"
            f"def dc_block_inplace : List (String × String) := [{inplace_rows}]\n"
            "/-- EVERY branch / loop / comprehension / try / with of the functions reachable from `MRILogLikelihood.forward` and\n"
            "`ConjGrad.forward` (+ the shape- or mode-dependent ones of the tensor helpers): (owning class, kind, what is tested\n"
            "— `optional argument given` / `break` / the test with the parameters numbered), duplicates removed -/\n"
            f"def dc_block_control : List (String × String × String) :=\n  [{ctl(block_ctl)}]\n"
            "/-- the other data-consistency classes: every loop, and every branch / comprehension whose test mentions the mode\n"
            "(`training`, grad mode), a shape (`shape`, `size`, `len`, `ndim`), a dtype / device, or splits / chunks a tensor -/\n"
            f"def dc_site_control : List (String × String × String) :=\n  [{ctl(site_ctl)}]\n")
    return text, {"dc_state_writes": f"translated ({len(dedup)} writes, {len(reach_all)} functions of {len(DC_CLASSES)} classes)"}


STATE_FALLBACK = ("def dc_state_writes : List StateWrite := []\n"
                  "def dc_state_reach : List String := DataConsistency.dcRequiredReach\n"
                  "def dc_state_unresolved : List String := []\n"
                  "def dc_block_exits : List (String × Nat × Bool) := DataConsistency.dcBlockExits\n"
                  "def dc_block_inplace : List (String × String) := []\n"
                  "def dc_block_control : List (String × String × String) := DataConsistency.dcBlockControl\n"
                  "def dc_site_control : List (String × String × String) := DataConsistency.dcSiteControl\n")
