"""C11 structural tables (imported by recipes/c11.py):

* `state_writes` — every write to state that outlives a call (object attributes, class attributes, module globals,
  mutable defaults, memoising decorators) in `direct/ssl/ssl.py` and `direct/ssl/mask_fillers.py`, with the function it
  occurs in; `forward_reach` — the functions `MaskSplitter.forward` can reach inside those modules;
* `seed_calls` — every callable the per-sample seed derivation of `MaskSplitter.forward` (helpers of the class inlined)
  and the seed reduction of `_gaussian_split` use; `seed_tuple` — the derivation itself when it is the concatenation of
  the code points of `str(filename)` and `str(slice_no)`;
* `ratio_guard` — the admissibility test of the split ratios in `MaskSplitter.__init__`.
"""
from __future__ import annotations

import ast

from ..gen import REPO, Untranslatable
from ..pyexpr import parse_file

SSL = "direct/ssl/ssl.py"
FILL = "direct/ssl/mask_fillers.py"

MUTATORS = {"append", "extend", "insert", "remove", "pop", "popitem", "clear", "update", "setdefault", "add", "discard",
            "move_to_end", "appendleft", "popleft", "sort", "reverse", "__setitem__", "__delitem__", "__setattr__", "put",
            "cache_clear", "register_buffer", "register_parameter", "add_module", "seed", "set_state", "shuffle", "copy_",
            "fill_", "zero_", "add_", "mul_", "setflags", "resize"}


def _q(x) -> str:
    return '"' + str(x).replace("\\", "\\\\").replace('"', '\\"').replace("\n", " ") + '"'


def _lstr(xs) -> str:
    return "[" + ", ".join(_q(x) for x in xs) + "]"


class _Scan:
    def __init__(self, rel: str):
        self.rel = rel
        self.tree = parse_file(REPO / rel)
        self.writes: list[tuple[str, str, str, str]] = []
        self.funcs: dict[str, ast.FunctionDef] = {}
        self.classes: dict[str, ast.ClassDef] = {}
        self.modnames: set[str] = set()
        for st in self.tree.body:
            for t in (st.targets if isinstance(st, ast.Assign) else [st.target] if isinstance(st, ast.AnnAssign) else []):
                if isinstance(t, ast.Name):
                    self.modnames.add(t.id)
        self._collect(self.tree.body, "")
        for q, fn in self.funcs.items():
            self._scan_fn(q, fn)

    def _collect(self, body, prefix):
        for st in body:
            if isinstance(st, ast.ClassDef):
                self.classes[prefix + st.name] = st
                self._collect(st.body, prefix + st.name + ".")
            elif isinstance(st, (ast.FunctionDef, ast.AsyncFunctionDef)):
                self.funcs[prefix + st.name] = st

    # -- roots of a store target / call receiver
    def _root(self, node, fn_self, fn_globals, persistent):
        """-> (scope, first attribute / name) when `node` denotes state that outlives the call, else None"""
        chain = []
        while True:
            if isinstance(node, ast.Attribute):
                chain.append(node.attr)
                node = node.value
            elif isinstance(node, ast.Subscript):
                chain.append("[]")
                node = node.value
            else:
                break
        chain.reverse()
        first = next((c for c in chain if c != "[]"), "[]")
        if isinstance(node, ast.Name) and not chain:
            return ("global", node.id) if node.id in fn_globals else None
        if isinstance(node, ast.Name):
            if node.id == fn_self and fn_self in ("self",):
                if chain[:1] == ["__class__"]:
                    return "class", next((c for c in chain[1:] if c != "[]"), "__class__")
                return "self", first
            if node.id == fn_self and fn_self == "cls":
                return "class", first
            if node.id in self.classes and chain:
                return "class", first
            if node.id in fn_globals:
                return "global", node.id
            if node.id in persistent:
                return "global", node.id
            return None
        if isinstance(node, ast.Call):
            f = ast.unparse(node.func)
            if f in ("type", "vars") and node.args and isinstance(node.args[0], ast.Name) and node.args[0].id == fn_self:
                return ("class" if f == "type" else "self"), first
            if f == "globals":
                return "global", first
        return None

    def _scan_fn(self, qual: str, fn: ast.FunctionDef):
        args = fn.args.posonlyargs + fn.args.args
        is_method = "." in qual
        deco = [ast.unparse(d) for d in fn.decorator_list]
        static = any(d.endswith("staticmethod") for d in deco)
        fn_self = args[0].arg if (is_method and args and not static) else None
        for d in deco:
            if "cache" in d.lower() or "memo" in d.lower():
                self.writes.append((qual, "decorator", d, "cache"))
        fn_globals: set[str] = set()
        for n in ast.walk(fn):
            if isinstance(n, (ast.Global, ast.Nonlocal)) and n is not fn:
                for name in n.names:
                    fn_globals.add(name)
                    self.writes.append((qual, "global", name, "global"))
        local_names = {a.arg for a in args + fn.args.kwonlyargs}
        for n in ast.walk(fn):
            if isinstance(n, ast.Name) and isinstance(n.ctx, ast.Store):
                local_names.add(n.id)
        # module-level containers referenced without being rebound locally, and mutable defaults, are persistent
        persistent = {m for m in self.modnames if m not in local_names}
        pos = fn.args.posonlyargs + fn.args.args
        for a, d in list(zip(pos[len(pos) - len(fn.args.defaults):], fn.args.defaults)) + [
                (a, d) for a, d in zip(fn.args.kwonlyargs, fn.args.kw_defaults) if d is not None]:
            if isinstance(d, (ast.Dict, ast.List, ast.Set)) or (isinstance(d, ast.Call) and ast.unparse(d.func) in (
                    "dict", "list", "set", "OrderedDict", "collections.OrderedDict", "defaultdict", "collections.defaultdict")):
                persistent.add(a.arg)

        def record(node, how):
            r = self._root(node, fn_self, fn_globals, persistent)
            if r is None:
                return
            scope, name = r
            self.writes.append((qual, scope, name, how))

        def targets(t):
            if isinstance(t, (ast.Tuple, ast.List)):
                for e in t.elts:
                    yield from targets(e)
            elif isinstance(t, ast.Starred):
                yield from targets(t.value)
            else:
                yield t

        for n in ast.walk(fn):
            if isinstance(n, ast.Assign):
                for t0 in n.targets:
                    for t in targets(t0):
                        record(t, "subscript" if isinstance(t, ast.Subscript) else "assign")
            elif isinstance(n, ast.AnnAssign) and n.value is not None:
                record(n.target, "subscript" if isinstance(n.target, ast.Subscript) else "assign")
            elif isinstance(n, ast.AugAssign):
                record(n.target, "augassign")
            elif isinstance(n, ast.NamedExpr):
                record(n.target, "assign")
            elif isinstance(n, ast.Delete):
                for t0 in n.targets:
                    for t in targets(t0):
                        if not isinstance(t, ast.Name) or t.id in fn_globals:
                            record(t, "del")
            elif isinstance(n, ast.Call):
                f = n.func
                if isinstance(f, ast.Attribute) and f.attr in MUTATORS:
                    if isinstance(f.value, ast.Name) and f.value.id == fn_self:
                        self.writes.append((qual, "self" if fn_self == "self" else "class", "<object>", "call:" + f.attr))
                    else:
                        r = self._root(f.value, fn_self, fn_globals, persistent)
                        if r is not None:
                            self.writes.append((qual, r[0], r[1], "call:" + f.attr))
                elif ast.unparse(f) in ("setattr", "object.__setattr__", "delattr") and n.args:
                    a0 = n.args[0]
                    if isinstance(a0, ast.Name) and a0.id == fn_self:
                        self.writes.append((qual, "self" if fn_self == "self" else "class",
                                            ast.unparse(n.args[1]) if len(n.args) > 1 else "?", "setattr"))
                    elif isinstance(a0, ast.Name) and a0.id in self.classes or ast.unparse(a0) in ("type(self)", "self.__class__"):
                        self.writes.append((qual, "class", ast.unparse(n.args[1]) if len(n.args) > 1 else "?", "setattr"))


def _dedupe(rows):
    out = []
    for r in rows:
        if r not in out:
            out.append(r)
    return out


def _reach(scan_ssl: _Scan, scan_fill: _Scan):
    """functions of the two modules reachable from `forward` / `split_method` of every splitter class"""
    start = [q for q in scan_ssl.funcs if q.split(".")[-1] in ("forward", "split_method") and "." in q]
    if not any(q == "MaskSplitter.forward" for q in start):
        raise Untranslatable("MaskSplitter.forward not found")
    seen, todo, unresolved = [], list(start), []
    while todo:
        q = todo.pop(0)
        if q in seen:
            continue
        seen.append(q)
        scan = scan_fill if q.startswith("fill:") else scan_ssl
        fn = scan.funcs[q[5:] if q.startswith("fill:") else q]
        for n in ast.walk(fn):
            if not isinstance(n, ast.Call):
                continue
            f = n.func
            if isinstance(f, ast.Attribute) and isinstance(f.value, ast.Name) and f.value.id in ("self", "cls"):
                hits = [c for c in scan_ssl.funcs if "." in c and c.split(".")[-1] == f.attr]
                if hits:
                    todo += hits
                elif f.attr not in unresolved:
                    unresolved.append(f.attr)
            elif isinstance(f, ast.Name):
                if f.id in scan_fill.funcs:
                    todo.append("fill:" + f.id)
                elif f.id in scan_ssl.funcs:
                    todo.append(f.id)
    return seen, unresolved


def state_tables() -> str:
    a, b = _Scan(SSL), _Scan(FILL)
    rows = _dedupe(list(a.writes) + [("fill:" + r[0],) + tuple(r[1:]) for r in b.writes])
    reach, unresolved = _reach(a, b)
    scanned = list(a.funcs) + ["fill:" + q for q in b.funcs]
    body = ",\n   ".join(f"{{ func := {_q(f)}, method := {_q(f.split('.')[-1].split(':')[-1])}, scope := {_q(s)}, target := {_q(t)}, how := {_q(h)} }}" for f, s, t, h in rows)
    exits = []
    for q in reach:
        fn = (b if q.startswith("fill:") else a).funcs[q[5:] if q.startswith("fill:") else q]
        if any(isinstance(n, (ast.Yield, ast.YieldFrom)) for n in ast.walk(fn)):
            continue          # context manager
        nret = sum(1 for n in ast.walk(fn) if isinstance(n, ast.Return))
        exits.append((q, nret, isinstance(fn.body[-1], ast.Return)))
    exit_rows = ", ".join(f"({_q(q)}, {n}, {'true' if last else 'false'})" for q, n, last in exits)
    return ("/-- every function on `forward`'s path: number of `return` statements, and whether the last statement is one -/\n"
            f"def forward_exits : List (String × Nat × Bool) := [{exit_rows}]\n"
            "/-- translated from `direct/ssl/ssl.py`, `direct/ssl/mask_fillers.py`: every write to an object attribute, a class\n"
            "attribute, a module global or a mutable default, and every memoising decorator, with the function it occurs in -/\n"
            f"def state_writes : List SslSplit.StateWrite :=\n  [{body}]\n"
            f"/-- all functions of the two modules that were scanned -/\ndef state_scanned : List String := {_lstr(scanned)}\n"
            "/-- functions of the two modules reachable from `forward` / `split_method` through `self.<method>(…)` and plain calls -/\n"
            f"def forward_reach : List String := {_lstr(reach)}\n"
            "/-- `self.<method>` calls on that path that are not defined in the module (inherited from outside) -/\n"
            f"def forward_unresolved : List String := {_lstr(unresolved)}\n")


STATE_FALLBACK = ("def forward_exits : List (String × Nat × Bool) := []\n"
                  "def state_writes : List SslSplit.StateWrite := []\n"
                  "def state_scanned : List String := [\"MaskSplitter.forward\"]\n"
                  "def forward_reach : List String := [\"MaskSplitter.forward\"]\n"
                  "def forward_unresolved : List String := []\n")


# ---- the per-sample seed ---------------------------------------------------------------------------------
def _txt(node) -> str:
    return ast.unparse(node).replace(" ", "")


def _callables(node, data_names) -> list[str]:
    """names of everything callable an expression refers to: called functions, method names, functions passed as values"""
    out = []
    bases = {id(n.value) for n in ast.walk(node) if isinstance(n, ast.Attribute)}
    for n in ast.walk(node):
        if isinstance(n, ast.Name) and id(n) in bases:
            continue
        if isinstance(n, ast.Call):
            f = n.func
            if isinstance(f, ast.Name):
                out.append(f.id)
            elif isinstance(f, ast.Attribute):
                base = f.value
                if isinstance(base, ast.Name) and base.id not in data_names:
                    out.append(f"{base.id}.{f.attr}")
                elif isinstance(base, ast.Attribute) and isinstance(base.value, ast.Name) and base.value.id not in data_names:
                    out.append(f"{base.value.id}.{base.attr}.{f.attr}")
                else:
                    out.append("method:" + f.attr)
            else:
                out.append("call:" + ast.unparse(f)[:40])
        elif isinstance(n, ast.Name) and isinstance(n.ctx, ast.Load) and n.id not in data_names:
            out.append(n.id)
        elif isinstance(n, (ast.Lambda, ast.ListComp, ast.GeneratorExp, ast.SetComp, ast.DictComp)):
            out.append("<comprehension>" if not isinstance(n, ast.Lambda) else "<lambda>")
    # a called name appears twice (as Call.func and as Name): keep one
    res = []
    for x in out:
        if x not in res:
            res.append(x)
    return res


def _seed_expr(scan: _Scan):
    """(none-test text, value expression, [(helper qualname, return expression)]) of the seed handed to split_method"""
    fwd = scan.funcs.get("MaskSplitter.forward")
    if fwd is None:
        raise Untranslatable("MaskSplitter.forward not found")
    # the seed argument may be computed in a helper that forward calls per sample (`self._split_sample(…)`): follow
    # `self.split_method(…)` calls in forward and in every method forward reaches
    seen, todo, found = set(), ["MaskSplitter.forward"], []
    while todo:
        q = todo.pop(0)
        if q in seen or q not in scan.funcs:
            continue
        seen.add(q)
        for n in ast.walk(scan.funcs[q]):
            if isinstance(n, ast.Call) and isinstance(n.func, ast.Attribute) and isinstance(n.func.value, ast.Name) \
                    and n.func.value.id == "self":
                if n.func.attr == "split_method":
                    seed = n.args[2] if len(n.args) >= 3 else next((k.value for k in n.keywords if k.arg == "seed"), None)
                    if seed is not None:
                        found.append((q, seed))
                else:
                    todo += [c for c in scan.funcs if c.startswith("MaskSplitter.") and c.split(".")[-1] == n.func.attr]
    if not found:
        raise Untranslatable("no call `self.split_method(mask, acs_mask, <seed>)` reachable from forward")
    return found


def _inline_helpers(scan: _Scan, node, depth=0):
    """return expressions of the class's own helpers that `node` calls (transitively)"""
    out = []
    if depth > 3:
        return out
    for n in ast.walk(node):
        if isinstance(n, ast.Call) and isinstance(n.func, ast.Attribute) and isinstance(n.func.value, (ast.Name, ast.Call)):
            root = ast.unparse(n.func.value)
            if root in ("self", "cls", "type(self)", "self.__class__") or root in scan.classes:
                for q, fn in scan.funcs.items():
                    if "." in q and q.split(".")[-1] == n.func.attr:
                        for st in ast.walk(fn):
                            if isinstance(st, ast.Return) and st.value is not None:
                                out.append((q, st.value))
                                out += _inline_helpers(scan, st.value, depth + 1)
                        for st in ast.walk(fn):
                            if isinstance(st, ast.Assign):
                                out.append((q, st.value))
    return out


_DATA = {"sample", "self", "_", "i", "idx", "b", "filename", "slice_no", "key", "seed", "cls", "None", "True", "False", "name"}


def seed_tables():
    """-> (Lean text of `seed_calls`, order of the tuple when it is the ord-concatenation else None, Lean term of the
    `seed is None` condition in terms of `use_seed` else None)"""
    scan = _Scan(SSL)
    found = _seed_expr(scan)
    calls: list[str] = []
    none_tests = []
    tuple_def = None
    for q, seed in found:
        vals = []
        if isinstance(seed, ast.IfExp):
            if _txt(seed.body) == "None":
                none_tests.append(("pos", seed.test))
                vals.append(seed.orelse)
            elif _txt(seed.orelse) == "None":
                none_tests.append(("neg", seed.test))
                vals.append(seed.body)
            else:
                vals += [seed.body, seed.orelse]
        elif _txt(seed) != "None":
            vals.append(seed)
        for v in vals:
            exprs = [v] + [e for _, e in _inline_helpers(scan, v)]
            params = set()
            for hq, _ in _inline_helpers(scan, v):
                fn = scan.funcs[hq]
                params |= {a.arg for a in fn.args.posonlyargs + fn.args.args + fn.args.kwonlyargs}
                params |= {n.id for n in ast.walk(fn) if isinstance(n, ast.Name) and isinstance(n.ctx, ast.Store)}
            for e in exprs:
                for c in _callables(e, _DATA | params):
                    if c not in calls and not c.startswith("self.") and not c.startswith("cls."):
                        calls.append(c)
            t = _txt(v)
            for order, want in (("filename ++ slice", "tuple(map(ord,str(sample['filename'][_])+str(sample['slice_no'][_])))"),
                                ("slice ++ filename", "tuple(map(ord,str(sample['slice_no'][_])+str(sample['filename'][_])))")):
                if t == want:
                    tuple_def = order
    # the reduction inside `_gaussian_split` (what reaches libc `srand`)
    g = scan.funcs.get("MaskSplitter._gaussian_split")
    if g is not None:
        for st in ast.walk(g):
            if isinstance(st, ast.Assign) and len(st.targets) == 1 and ast.unparse(st.targets[0]) == "seed":
                if "np.random" in ast.unparse(st.value):
                    continue           # the unseeded branch (`seed is None`)
                for c in _callables(st.value, _DATA):
                    if c not in calls:
                        calls.append(c)
    tr_none = None
    if len(none_tests) == 1:
        pol, test = none_tests[0]
        tt = _txt(test)
        if tt == "notself.use_seed":
            tr_none = "(!use_seed)" if pol == "pos" else "use_seed"
        elif tt == "self.use_seed":
            tr_none = "use_seed" if pol == "pos" else "(!use_seed)"
    text = ("/-- translated from `MaskSplitter.forward` (helpers of the class inlined) and `_gaussian_split`: every callable the\n"
            "per-sample seed derivation refers to -/\n"
            f"def seed_calls : List String := {_lstr(calls)}\n")
    return text, tuple_def, tr_none


SEED_CALLS_FALLBACK = 'def seed_calls : List String := ["tuple", "map", "ord", "str", "int", "np.mean"]\n'


# ---- admissible ratios --------------------------------------------------------------------------------------
def ratio_guard() -> str:
    scan = _Scan(SSL)
    init = scan.funcs.get("MaskSplitter.__init__")
    if init is None:
        raise Untranslatable("MaskSplitter.__init__ not found")
    for st in ast.walk(init):
        if not (isinstance(st, ast.If) and st.body and isinstance(st.body[0], ast.Raise)):
            continue
        if "ValueError" not in ast.unparse(st.body[0]):
            continue
        t = st.test
        if not (isinstance(t, ast.UnaryOp) and isinstance(t.op, ast.Not) and isinstance(t.operand, ast.Call)
                and ast.unparse(t.operand.func) == "all" and len(t.operand.args) == 1
                and isinstance(t.operand.args[0], ast.GeneratorExp)):
            continue
        gen = t.operand.args[0]
        if len(gen.generators) != 1 or gen.generators[0].ifs or ast.unparse(gen.generators[0].iter) != "ratio":
            raise Untranslatable(f"ratio guard `{ast.unparse(t)}`")
        var = ast.unparse(gen.generators[0].target)
        cmp_ = gen.elt
        if not isinstance(cmp_, ast.Compare):
            raise Untranslatable(f"ratio guard element `{ast.unparse(cmp_)}`")

        def rat(node):
            if isinstance(node, ast.Name) and node.id == var:
                return "p", "q"
            if isinstance(node, ast.Constant) and isinstance(node.value, (int, float)) and not isinstance(node.value, bool) \
                    and float(node.value) == int(node.value):
                return f"({int(node.value)} : Int)", "(1 : Int)"
            raise Untranslatable(f"operand `{ast.unparse(node)}` of the ratio guard")

        parts = []
        left = cmp_.left
        for op, right in zip(cmp_.ops, cmp_.comparators):
            sym = {ast.Lt: "<", ast.LtE: "≤", ast.Gt: ">", ast.GtE: "≥"}.get(type(op))
            if sym is None:
                raise Untranslatable("comparison operator in the ratio guard")
            (a, b), (c, d) = rat(left), rat(right)
            parts.append(f"decide ({a} * {d} {sym} {c} * {b})")
            left = right
        return ("/-- translated from `MaskSplitter.__init__`: `all(<this> for r in ratio)` must hold, `r = p / q` with `q > 0` -/\n"
                "def ratio_guard (p q : Int) : Bool := " + " && ".join(parts) + "\n")
    raise Untranslatable("`if not all(… for r in ratio): raise ValueError` not found")


RATIO_FALLBACK = "def ratio_guard (p q : Int) : Bool := SslSplit.ratioValid p q\n"


# ---- every place in direct/nn that reads the split keys ----------------------------------------------------
_COND = {"self.model.training": "train", "is_sslandself.model.training": "ssl&train", "self.model.trainingandis_ssl": "ssl&train",
         "data['is_ssl'][0]andself.model.training": "ssl&train", "self.model.traininganddata['is_ssl'][0]": "ssl&train"}


def _dkey(node):
    if (isinstance(node, ast.Subscript) and ast.unparse(node.value) == "data" and isinstance(node.slice, ast.Constant)
            and isinstance(node.slice.value, str)):
        return node.slice.value
    raise Untranslatable(f"`{ast.unparse(node)}` is not data[<key>]")


def _site_row(rel: str, cls: ast.ClassDef, fn: ast.FunctionDef) -> dict:
    name = f"{cls.name}.{fn.name}"
    bases = [ast.unparse(b) for b in cls.bases]
    row = {"name": name, "iteration": fn.name == "_do_iteration", "joint": any("JSSL" in b for b in bases) or "JSSL" in cls.name,
           "cond": None, "trainK": "", "trainMask": "", "evalK": "", "evalMask": "", "project": ""}
    is_ssl_def = any(isinstance(st, ast.Assign) and ast.unparse(st.targets[0]) == "is_ssl" and _txt(st.value) == "data['is_ssl'][0]"
                     for st in ast.walk(fn))

    def cond_of(test):
        t = _txt(test)
        if "is_ssl" in t and "data['is_ssl']" not in t and not is_ssl_def:
            return "?" + t
        return _COND.get(t, "?" + t)

    def put(which, cond, tr, ev):
        if row["cond"] not in (None, cond):
            raise Untranslatable(f"{name}: k-space and mask are chosen under different conditions")
        row["cond"] = cond
        row["train" + which], row["eval" + which] = _dkey(tr), _dkey(ev)

    for st in ast.walk(fn):
        if isinstance(st, ast.Assign) and len(st.targets) == 1 and ast.unparse(st.targets[0]) in ("kspace", "mask") \
                and isinstance(st.value, ast.IfExp):
            put("K" if ast.unparse(st.targets[0]) == "kspace" else "Mask", cond_of(st.value.test), st.value.body, st.value.orelse)
        if isinstance(st, ast.If) and st.orelse and len(st.body) == 1 and len(st.orelse) == 1 \
                and isinstance(st.body[0], ast.Assign) and isinstance(st.orelse[0], ast.Assign):
            a, b = st.body[0], st.orelse[0]
            ta, tb = _txt(a.targets[0]), _txt(b.targets[0])
            if ta != tb or ta not in ("kspace", "(kspace,mask)", "kspace,mask"):
                continue
            if ta == "kspace":
                put("K", cond_of(st.test), a.value, b.value)
            else:
                if not (isinstance(a.value, ast.Tuple) and isinstance(b.value, ast.Tuple) and len(a.value.elts) == 2 == len(b.value.elts)):
                    raise Untranslatable(f"{name}: `kspace, mask = …` is not a pair")
                put("K", cond_of(st.test), a.value.elts[0], b.value.elts[0])
                put("Mask", cond_of(st.test), a.value.elts[1], b.value.elts[1])
    if row["cond"] is None:
        raise Untranslatable(f"{name}: the choice between the split and the un-split keys was not found")
    proj = []
    for c in ast.walk(fn):
        if (isinstance(c, ast.Call) and ast.unparse(c.func) == "T.apply_mask" and len(c.args) >= 2
                and ast.unparse(c.args[0]) == "output_kspace" and isinstance(c.args[1], ast.Subscript)
                and ast.unparse(c.args[1].value) == "data"):
            k = _dkey(c.args[1])
            if k not in proj:
                proj.append(k)
    row["project"] = "+".join(proj)
    return row


def engine_sites() -> str:
    rows = []
    nn = REPO / "direct" / "nn"
    for path in sorted(nn.rglob("*.py")):
        src = path.read_text()
        if "input_kspace" not in src:
            continue
        rel = str(path.relative_to(REPO))
        tree = parse_file(path)
        for cls in [n for n in ast.walk(tree) if isinstance(n, ast.ClassDef)]:
            for fn in [n for n in cls.body if isinstance(n, ast.FunctionDef)]:
                reads = [n for n in ast.walk(fn) if isinstance(n, ast.Subscript) and isinstance(n.slice, ast.Constant)
                         and n.slice.value in ("input_kspace", "input_sampling_mask", "target_sampling_mask")
                         and ast.unparse(n.value) == "data"]
                if not reads:
                    continue
                if fn.name == "log_first_training_example_and_model":
                    continue          # logging only
                rows.append(_site_row(rel, cls, fn))
    if not rows:
        raise Untranslatable("no reader of data['input_kspace'] under direct/nn")
    b = lambda x: "true" if x else "false"  # noqa: E731
    body = ",\n   ".join(
        f'{{ name := {_q(r["name"])}, iteration := {b(r["iteration"])}, joint := {b(r["joint"])}, cond := {_q(r["cond"])}, '
        f'trainK := {_q(r["trainK"])}, trainMask := {_q(r["trainMask"])}, evalK := {_q(r["evalK"])}, evalMask := {_q(r["evalMask"])}, '
        f'project := {_q(r["project"])} }}' for r in rows)
    return ("/-- translated from `direct/nn/**`: every method that reads `data['input_kspace' | 'input_sampling_mask' |\n"
            "'target_sampling_mask']` — the `_do_iteration`s that re-implement the SSL training step and the forward functions -/\n"
            f"def engine_sites : List SslSplit.EngineSite :=\n  [{body}]\n")


ENGINE_SITES_FALLBACK = "def engine_sites : List SslSplit.EngineSite := []\n"
