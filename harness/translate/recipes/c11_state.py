"""C11 structural tables (imported by recipes/c11.py):

* `state_writes` — every write to state that outlives a call (object attributes, class attributes, module globals,
  mutable defaults, memoising decorators) in `direct/ssl/ssl.py` and `direct/ssl/mask_fillers.py`, with the function it
  occurs in; `forward_reach` — the functions `MaskSplitter.forward` can reach inside those modules;
* `seed_calls` — every callable the per-sample seed derivation of `MaskSplitter.forward` (helpers of the class inlined)
  and the seed reduction of `_gaussian_split` use; `seed_tuple` — the derivation itself when it is the concatenation of
  the code points of `str(filename)` and `str(slice_no)`;
* `ratio_guard` — the admissibility test of the split ratios in `MaskSplitter.__init__`.
"""
from __future__ import annotations

import ast
import copy
import re

from ..gen import REPO, Untranslatable
from ..pyexpr import parse_file

SSL = "direct/ssl/ssl.py"
FILL = "direct/ssl/mask_fillers.py"

MUTATORS = {"append", "extend", "insert", "remove", "pop", "popitem", "clear", "update", "setdefault", "add", "discard",
            "move_to_end", "appendleft", "popleft", "sort", "reverse", "__setitem__", "__delitem__", "__setattr__", "put",
            "cache_clear", "register_buffer", "register_parameter", "add_module", "seed", "set_state", "shuffle", "copy_",
            "fill_", "zero_", "add_", "mul_", "setflags", "resize"}


def _q(x) -> str:
    return '"' + str(x).replace("\\", "\\\\").replace('"', '\\"').replace("\n", " ") + '"'


def _lstr(xs) -> str:
    return "[" + ", ".join(_q(x) for x in xs) + "]"


class _Scan:
    def __init__(self, rel: str):
        self.rel = rel
        self.tree = parse_file(REPO / rel)
        self.writes: list[tuple[str, str, str, str]] = []
        self.funcs: dict[str, ast.FunctionDef] = {}
        self.classes: dict[str, ast.ClassDef] = {}
        self.modnames: set[str] = set()
        for st in self.tree.body:
            for t in (st.targets if isinstance(st, ast.Assign) else [st.target] if isinstance(st, ast.AnnAssign) else []):
                if isinstance(t, ast.Name):
                    self.modnames.add(t.id)
        self._collect(self.tree.body, "")
        for q, fn in self.funcs.items():
            self._scan_fn(q, fn)

    def _collect(self, body, prefix):
        for st in body:
            if isinstance(st, ast.ClassDef):
                self.classes[prefix + st.name] = st
                self._collect(st.body, prefix + st.name + ".")
            elif isinstance(st, (ast.FunctionDef, ast.AsyncFunctionDef)):
                self.funcs[prefix + st.name] = st

    # -- roots of a store target / call receiver
    def _root(self, node, fn_self, fn_globals, persistent):
        """-> (scope, first attribute / name) when `node` denotes state that outlives the call, else None"""
        chain = []
        while True:
            if isinstance(node, ast.Attribute):
                chain.append(node.attr)
                node = node.value
            elif isinstance(node, ast.Subscript):
                chain.append("[]")
                node = node.value
            else:
                break
        chain.reverse()
        first = next((c for c in chain if c != "[]"), "[]")
        if isinstance(node, ast.Name) and not chain:
            return ("global", node.id) if node.id in fn_globals else None
        if isinstance(node, ast.Name):
            if node.id == fn_self and fn_self in ("self",):
                if chain[:1] == ["__class__"]:
                    return "class", next((c for c in chain[1:] if c != "[]"), "__class__")
                return "self", first
            if node.id == fn_self and fn_self == "cls":
                return "class", first
            if node.id in self.classes and chain:
                return "class", first
            if node.id in fn_globals:
                return "global", node.id
            if node.id in persistent:
                return "global", node.id
            return None
        if isinstance(node, ast.Call):
            f = ast.unparse(node.func)
            if f in ("type", "vars") and node.args and isinstance(node.args[0], ast.Name) and node.args[0].id == fn_self:
                return ("class" if f == "type" else "self"), first
            if f == "globals":
                return "global", first
        return None

    def _scan_fn(self, qual: str, fn: ast.FunctionDef):
        args = fn.args.posonlyargs + fn.args.args
        is_method = "." in qual
        deco = [ast.unparse(d) for d in fn.decorator_list]
        static = any(d.endswith("staticmethod") for d in deco)
        fn_self = args[0].arg if (is_method and args and not static) else None
        for d in deco:
            if "cache" in d.lower() or "memo" in d.lower():
                self.writes.append((qual, "decorator", d, "cache"))
        fn_globals: set[str] = set()
        for n in ast.walk(fn):
            if isinstance(n, (ast.Global, ast.Nonlocal)) and n is not fn:
                for name in n.names:
                    fn_globals.add(name)
                    self.writes.append((qual, "global", name, "global"))
        local_names = {a.arg for a in args + fn.args.kwonlyargs}
        for n in ast.walk(fn):
            if isinstance(n, ast.Name) and isinstance(n.ctx, ast.Store):
                local_names.add(n.id)
        # module-level containers referenced without being rebound locally, and mutable defaults, are persistent
        persistent = {m for m in self.modnames if m not in local_names}
        pos = fn.args.posonlyargs + fn.args.args
        for a, d in list(zip(pos[len(pos) - len(fn.args.defaults):], fn.args.defaults)) + [
                (a, d) for a, d in zip(fn.args.kwonlyargs, fn.args.kw_defaults) if d is not None]:
            if isinstance(d, (ast.Dict, ast.List, ast.Set)) or (isinstance(d, ast.Call) and ast.unparse(d.func) in (
                    "dict", "list", "set", "OrderedDict", "collections.OrderedDict", "defaultdict", "collections.defaultdict")):
                persistent.add(a.arg)

        def record(node, how):
            r = self._root(node, fn_self, fn_globals, persistent)
            if r is None:
                return
            scope, name = r
            self.writes.append((qual, scope, name, how))

        def targets(t):
            if isinstance(t, (ast.Tuple, ast.List)):
                for e in t.elts:
                    yield from targets(e)
            elif isinstance(t, ast.Starred):
                yield from targets(t.value)
            else:
                yield t

        for n in ast.walk(fn):
            if isinstance(n, ast.Assign):
                for t0 in n.targets:
                    for t in targets(t0):
                        record(t, "subscript" if isinstance(t, ast.Subscript) else "assign")
            elif isinstance(n, ast.AnnAssign) and n.value is not None:
                record(n.target, "subscript" if isinstance(n.target, ast.Subscript) else "assign")
            elif isinstance(n, ast.AugAssign):
                record(n.target, "augassign")
            elif isinstance(n, ast.NamedExpr):
                record(n.target, "assign")
            elif isinstance(n, ast.Delete):
                for t0 in n.targets:
                    for t in targets(t0):
                        if not isinstance(t, ast.Name) or t.id in fn_globals:
                            record(t, "del")
            elif isinstance(n, ast.Call):
                f = n.func
                if isinstance(f, ast.Attribute) and f.attr in MUTATORS:
                    if isinstance(f.value, ast.Name) and f.value.id == fn_self:
                        self.writes.append((qual, "self" if fn_self == "self" else "class", "<object>", "call:" + f.attr))
                    else:
                        r = self._root(f.value, fn_self, fn_globals, persistent)
                        if r is not None:
                            self.writes.append((qual, r[0], r[1], "call:" + f.attr))
                elif ast.unparse(f) in ("setattr", "object.__setattr__", "delattr") and n.args:
                    a0 = n.args[0]
                    if isinstance(a0, ast.Name) and a0.id == fn_self:
                        self.writes.append((qual, "self" if fn_self == "self" else "class",
                                            ast.unparse(n.args[1]) if len(n.args) > 1 else "?", "setattr"))
                    elif isinstance(a0, ast.Name) and a0.id in self.classes or ast.unparse(a0) in ("type(self)", "self.__class__"):
                        self.writes.append((qual, "class", ast.unparse(n.args[1]) if len(n.args) > 1 else "?", "setattr"))


def _pure_return_tree(stmts) -> bool:
    """only `if` / `return` / `raise` (no statement that does anything): a choice between result expressions"""
    for st in stmts:
        if isinstance(st, (ast.Return, ast.Raise, ast.Pass)):
            continue
        if isinstance(st, ast.Expr) and isinstance(st.value, ast.Constant):
            continue
        if isinstance(st, ast.If) and _pure_return_tree(st.body) and _pure_return_tree(st.orelse):
            continue
        return False
    return True


def _const(node) -> bool:
    if node is None or isinstance(node, ast.Constant):
        return True
    if isinstance(node, (ast.Tuple, ast.List)):
        return all(_const(e) for e in node.elts)
    return isinstance(node, ast.UnaryOp) and _const(node.operand)


def _config_test(test, params) -> bool:
    """does a condition depend on the *configuration* only — attributes of `self`, parameters compared with constants /
    enum members / None — and not on data (anything computed: calls, subscripts, locals, membership in a container)?
    `if self.keep_acs: return a` / `…; return b` is dispatch, the statement form of if/else; `if mask.sum() == 0: return`
    or `if key in self._cache: return` is a shortcut taken for some inputs only."""
    def leaf(n):
        if isinstance(n, ast.Constant):
            return True
        if isinstance(n, ast.Attribute):
            base = n
            while isinstance(base, ast.Attribute):
                base = base.value
            # self.<option>, EnumClass.MEMBER
            return isinstance(base, ast.Name) and (base.id in ("self", "cls") or base.id[:1].isupper())
        return isinstance(n, ast.Name) and n.id in params

    def ok(n):
        if isinstance(n, ast.BoolOp):
            return all(ok(v) for v in n.values)
        if isinstance(n, ast.UnaryOp) and isinstance(n.op, ast.Not):
            return ok(n.operand)
        if isinstance(n, ast.Compare):
            if any(isinstance(o, (ast.In, ast.NotIn)) for o in n.ops):
                # membership in a literal list / tuple of constants or enum members is dispatch; in a container is data
                return leaf(n.left) and all(isinstance(c, (ast.List, ast.Tuple)) and all(leaf(e) for e in c.elts)
                                            for c in n.comparators)
            return leaf(n.left) and all(leaf(c) for c in n.comparators)
        return leaf(n)
    return ok(test)


def _skipping_returns(fn) -> int:
    """number of *data-dependent shortcuts*: `return`s that leave the function while statements that do something would
    still follow, under a condition that depends on data (the shape of a memo hit, or of a special case that skips steps
    for some inputs).  Not counted: the return a path ends with; an early return of a constant (`return None`); an early
    return whose continuation only chooses between result expressions; an early return all of whose guards test the
    configuration only (`if self.keep_acs: return …` — if/else in statement form, in whatever helper it lives)."""
    n = 0
    params = {a.arg for a in fn.args.posonlyargs + fn.args.args + fn.args.kwonlyargs}
    stored = {}
    for x in ast.walk(fn):
        if isinstance(x, ast.Name) and isinstance(x.ctx, ast.Store):
            stored[x.id] = True
    params = {p for p in params if p not in stored}        # a re-bound parameter is a local

    def walk(stmts, cont, in_loop, guards):
        nonlocal n
        for idx, st in enumerate(stmts):
            after = list(stmts[idx + 1:]) + cont
            if isinstance(st, ast.Return):
                early = after and not _const(st.value) and not _pure_return_tree(after)
                if in_loop or (early and not (guards and all(_config_test(g, params) for g in guards))):
                    n += 1
            elif isinstance(st, ast.If):
                walk(st.body, after, in_loop, guards + [st.test])
                walk(st.orelse, after, in_loop, guards + [st.test])
            elif isinstance(st, (ast.For, ast.While)):
                walk(st.body, after, True, guards)
                walk(st.orelse, after, in_loop, guards)
            elif isinstance(st, ast.With):
                walk(st.body, after, in_loop, guards)
            elif isinstance(st, ast.Try):
                for blk in (st.body, st.orelse, st.finalbody):
                    walk(blk, after, in_loop, guards)
                for h in st.handlers:
                    walk(h.body, after, in_loop, guards)
    walk(_body(fn), [], False, [])
    return n


def _all_paths_end(stmts) -> bool:
    """every path ends in `return` / `raise` (no implicit `return None` by falling off the end)"""
    if not stmts:
        return False
    st = stmts[-1]
    if isinstance(st, (ast.Return, ast.Raise)):
        return True
    if isinstance(st, ast.If):
        return bool(st.orelse) and _all_paths_end(st.body) and _all_paths_end(st.orelse)
    if isinstance(st, ast.With):
        return _all_paths_end(st.body)
    return False


def _dedupe(rows):
    out = []
    for r in rows:
        if r not in out:
            out.append(r)
    return out


def _reach(scan_ssl: _Scan, scan_fill: _Scan):
    """functions of the two modules reachable from `forward` / `split_method` of every splitter class"""
    start = [q for q in scan_ssl.funcs if q.split(".")[-1] in ("forward", "split_method") and "." in q]
    if not any(q == "MaskSplitter.forward" for q in start):
        raise Untranslatable("MaskSplitter.forward not found")
    seen, todo, unresolved = [], list(start), []
    while todo:
        q = todo.pop(0)
        if q in seen:
            continue
        seen.append(q)
        scan = scan_fill if q.startswith("fill:") else scan_ssl
        fn = scan.funcs[q[5:] if q.startswith("fill:") else q]
        for n in ast.walk(fn):
            if not isinstance(n, ast.Call):
                continue
            f = n.func
            if isinstance(f, ast.Attribute) and isinstance(f.value, ast.Name) and f.value.id in ("self", "cls"):
                hits = [c for c in scan_ssl.funcs if "." in c and c.split(".")[-1] == f.attr]
                if hits:
                    todo += hits
                elif f.attr not in unresolved:
                    unresolved.append(f.attr)
            elif isinstance(f, ast.Name):
                if f.id in scan_fill.funcs:
                    todo.append("fill:" + f.id)
                elif f.id in scan_ssl.funcs:
                    todo.append(f.id)
    return seen, unresolved


def state_tables() -> str:
    a, b = _Scan(SSL), _Scan(FILL)
    rows = _dedupe(list(a.writes) + [("fill:" + r[0],) + tuple(r[1:]) for r in b.writes])
    reach, unresolved = _reach(a, b)
    scanned = list(a.funcs) + ["fill:" + q for q in b.funcs]
    body = ",\n   ".join(f"{{ func := {_q(f)}, method := {_q(f.split('.')[-1].split(':')[-1])}, scope := {_q(s)}, target := {_q(t)}, how := {_q(h)} }}" for f, s, t, h in rows)
    exits = []
    for q in reach:
        fn = (b if q.startswith("fill:") else a).funcs[q[5:] if q.startswith("fill:") else q]
        if any(isinstance(n, (ast.Yield, ast.YieldFrom)) for n in ast.walk(fn)):
            continue          # context manager
        exits.append((q, _skipping_returns(fn), _all_paths_end(_body(fn))))
    exit_rows = ", ".join(f"({_q(q)}, {n}, {'true' if last else 'false'})" for q, n, last in exits)
    return ("/-- every function on `forward`'s path: number of returns that skip statements (see `_skipping_returns`), and whether\n"
            "every path ends in an explicit `return` / `raise` -/\n"
            f"def forward_exits : List (String × Nat × Bool) := [{exit_rows}]\n"
            "/-- translated from `direct/ssl/ssl.py`, `direct/ssl/mask_fillers.py`: every write to an object attribute, a class\n"
            "attribute, a module global or a mutable default, and every memoising decorator, with the function it occurs in -/\n"
            f"def state_writes : List SslSplit.StateWrite :=\n  [{body}]\n"
            f"/-- all functions of the two modules that were scanned -/\ndef state_scanned : List String := {_lstr(scanned)}\n"
            "/-- functions of the two modules reachable from `forward` / `split_method` through `self.<method>(…)` and plain calls -/\n"
            f"def forward_reach : List String := {_lstr(reach)}\n"
            "/-- `self.<method>` calls on that path that are not defined in the module (inherited from outside) -/\n"
            f"def forward_unresolved : List String := {_lstr(unresolved)}\n")


STATE_FALLBACK = ("def forward_exits : List (String × Nat × Bool) := []\n"
                  "def state_writes : List SslSplit.StateWrite := []\n"
                  "def state_scanned : List String := [\"MaskSplitter.forward\"]\n"
                  "def forward_reach : List String := [\"MaskSplitter.forward\"]\n"
                  "def forward_unresolved : List String := []\n")


# ---- the per-sample seed ---------------------------------------------------------------------------------
def _txt(node) -> str:
    return ast.unparse(node).replace(" ", "")


_HIGHER_ORDER = {"map": [0], "filter": [0], "reduce": [0], "functools.reduce": [0], "starmap": [0], "itertools.starmap": [0]}


def _fname(f) -> str:
    if isinstance(f, ast.Name):
        return f.id
    if isinstance(f, ast.Attribute):
        base = f.value
        if isinstance(base, ast.Name):
            return f"{base.id}.{f.attr}"
        if isinstance(base, ast.Attribute) and isinstance(base.value, ast.Name):
            return f"{base.value.id}.{base.attr}.{f.attr}"
        return "method:" + f.attr
    if isinstance(f, ast.Lambda):
        return "<lambda>"
    return "call:" + ast.unparse(f)[:40]


def _callables(node, data_names=()) -> list[str]:
    """names of everything callable an expression uses: called functions / methods, and functions handed to `map` & co.
    (names of data — the sample, loop indices, locals — are not callables and are not listed, whatever they are called)"""
    out = []
    for n in ast.walk(node):
        if isinstance(n, ast.Call):
            name = _fname(n.func)
            if not (isinstance(n.func, ast.Attribute) and isinstance(n.func.value, ast.Name) and n.func.value.id in ("self", "cls")):
                out.append(name)
            for pos in _HIGHER_ORDER.get(name, []):
                if len(n.args) > pos and isinstance(n.args[pos], (ast.Name, ast.Attribute, ast.Lambda)):
                    out.append(_fname(n.args[pos]))
            for kw in n.keywords:
                if kw.arg == "key" and isinstance(kw.value, (ast.Name, ast.Attribute, ast.Lambda)):
                    out.append(_fname(kw.value))
        elif isinstance(n, ast.Lambda):
            out.append("<lambda>")
    res = []
    for x in out:
        if x not in res:
            res.append(x)
    return res


# ---- following private helpers: a helper whose body is a decision tree of returns is an expression ---------------
class _Subst(ast.NodeTransformer):
    def __init__(self, env):
        self.env = env

    def visit_Name(self, node):
        if isinstance(node.ctx, ast.Load) and node.id in self.env:
            return copy.deepcopy(self.env[node.id])
        return node


def _subst(node, env):
    return _Subst(env).visit(copy.deepcopy(node)) if env else copy.deepcopy(node)


def _body(fn):
    b = list(fn.body)
    if b and isinstance(b[0], ast.Expr) and isinstance(b[0].value, ast.Constant) and isinstance(b[0].value.value, str):
        b = b[1:]
    return b


def _tree_expr(stmts):
    """statements that form a decision tree of returns (if / else chains, early returns, single-assignment locals) as ONE
    expression; None when the statements are not of that shape"""
    if not stmts:
        return None
    st, rest = stmts[0], stmts[1:]
    if isinstance(st, ast.Return):
        return st.value if st.value is not None else ast.Constant(value=None)
    if isinstance(st, ast.If):
        a = _tree_expr(st.body)
        b = _tree_expr(list(st.orelse) + rest) if st.orelse else _tree_expr(rest)
        if a is None:
            # the branch falls through to the rest
            a = _tree_expr(list(st.body) + rest)
        if a is None or b is None:
            return None
        return ast.IfExp(test=st.test, body=a, orelse=b)
    if isinstance(st, ast.Assign) and len(st.targets) == 1 and isinstance(st.targets[0], ast.Name):
        e = _tree_expr(rest)
        return None if e is None else _subst(e, {st.targets[0].id: st.value})
    if isinstance(st, ast.AnnAssign) and isinstance(st.target, ast.Name) and st.value is not None:
        e = _tree_expr(rest)
        return None if e is None else _subst(e, {st.target.id: st.value})
    if (isinstance(st, ast.Assign) and len(st.targets) == 1 and isinstance(st.targets[0], ast.Tuple)
            and isinstance(st.value, ast.Tuple) and len(st.value.elts) == len(st.targets[0].elts)
            and all(isinstance(t, ast.Name) for t in st.targets[0].elts)):
        e = _tree_expr(rest)        # `a, b = x, y` (simultaneous)
        return None if e is None else _subst(e, {t.id: v for t, v in zip(st.targets[0].elts, st.value.elts)})
    if isinstance(st, (ast.Pass,)) or (isinstance(st, ast.Expr) and isinstance(st.value, ast.Constant)):
        return _tree_expr(rest)
    return None


def _bind(fn: ast.FunctionDef, call: ast.Call, bound_method: bool):
    """parameter name -> argument expression of `call` (defaults for what is not passed)"""
    params = fn.args.posonlyargs + fn.args.args
    deco = [ast.unparse(d) for d in fn.decorator_list]
    if bound_method and not any(d.endswith("staticmethod") for d in deco):
        params = params[1:]
    env = {}
    defaults = fn.args.defaults
    for p, d in zip(params[len(params) - len(defaults):], defaults):
        env[p.arg] = d
    for p, a in zip(params, call.args):
        env[p.arg] = a
    names = {p.arg for p in params + fn.args.kwonlyargs}
    for kw in call.keywords:
        if kw.arg in names:
            env[kw.arg] = kw.value
    for p, d in zip(fn.args.kwonlyargs, fn.args.kw_defaults):
        if p.arg not in env and d is not None:
            env[p.arg] = d
    return env


def _helper_of(scan: _Scan, call: ast.Call):
    """the class's own method / the module's own function a call goes to, else None"""
    f = call.func
    if isinstance(f, ast.Attribute):
        root = ast.unparse(f.value)
        if root in ("self", "cls", "type(self)", "self.__class__") or root in scan.classes:
            hits = [q for q in scan.funcs if "." in q and q.split(".")[-1] == f.attr]
            if len(hits) == 1:
                return scan.funcs[hits[0]], True
    elif isinstance(f, ast.Name) and f.id in scan.funcs:
        return scan.funcs[f.id], False
    return None


class _Inline(ast.NodeTransformer):
    def __init__(self, scan, depth):
        self.scan, self.depth = scan, depth

    def visit_Call(self, node):
        self.generic_visit(node)
        if self.depth > 4:
            return node
        h = _helper_of(self.scan, node)
        if h is None or h[0].name in ("split_method", "forward"):
            return node
        fn, bound = h
        e = _tree_expr(_body(fn))
        if e is None:
            return node
        return _Inline(self.scan, self.depth + 1).visit(_subst(e, _bind(fn, node, bound)))


class _MapForm(ast.NodeTransformer):
    """`(f(v) for v in X)` / `[f(v) for v in X]` as `map(f, X)` — one form for comprehension and `map`"""
    def _conv(self, node):
        self.generic_visit(node)
        if len(node.generators) == 1:
            g = node.generators[0]
            e = node.elt
            if (not g.ifs and not g.is_async and isinstance(g.target, ast.Name) and isinstance(e, ast.Call) and len(e.args) == 1
                    and not e.keywords and isinstance(e.args[0], ast.Name) and e.args[0].id == g.target.id
                    and isinstance(e.func, (ast.Name, ast.Attribute))):
                return ast.Call(func=ast.Name(id="map", ctx=ast.Load()), args=[e.func, g.iter], keywords=[])
        return node

    visit_GeneratorExp = _conv
    visit_ListComp = _conv


def _inline(scan, node, depth=0):
    return _MapForm().visit(_Inline(scan, depth).visit(copy.deepcopy(node)))


def _local_env(fn: ast.FunctionDef):
    """single-assignment locals of a function (name -> value), for hoisted sub-expressions"""
    count, val = {}, {}
    for n in ast.walk(fn):
        if isinstance(n, ast.Name) and isinstance(n.ctx, ast.Store):
            count[n.id] = count.get(n.id, 0) + 1
    for n in ast.walk(fn):
        if isinstance(n, ast.Assign) and len(n.targets) == 1 and isinstance(n.targets[0], ast.Name) and count.get(n.targets[0].id) == 1:
            val[n.targets[0].id] = n.value
    return val


def _resolve(scan: _Scan, qual: str, expr, depth=0):
    """`expr` (inside method `qual`) in terms of what `MaskSplitter.forward` sees: helpers inlined, parameters of private
    helpers replaced by the arguments at their call sites, hoisted single-assignment locals substituted.  -> list of
    alternatives (one per call site)"""
    fn = scan.funcs[qual]
    params = {a.arg for a in fn.args.posonlyargs + fn.args.args + fn.args.kwonlyargs} - {"self", "cls"}
    loc = {k: v for k, v in _local_env(fn).items() if k not in params}
    for _ in range(3):
        used = {n.id for n in ast.walk(expr) if isinstance(n, ast.Name)}
        env = {k: v for k, v in loc.items() if k in used and not any(isinstance(c, (ast.Yield, ast.Await)) for c in ast.walk(v))}
        if not env:
            break
        expr = _subst(expr, env)
    expr = _inline(scan, expr)
    used = {n.id for n in ast.walk(expr) if isinstance(n, ast.Name)}
    if qual.endswith(".forward") or depth > 4 or not (used & params):
        return [expr]
    name = qual.split(".")[-1]
    out = []
    for q, g in scan.funcs.items():
        if q == qual:
            continue
        for c in ast.walk(g):
            if isinstance(c, ast.Call) and isinstance(c.func, ast.Attribute) and c.func.attr == name \
                    and ast.unparse(c.func.value) in ("self", "cls", "type(self)", "self.__class__"):
                out += _resolve(scan, q, _subst(expr, _bind(fn, c, True)), depth + 1)
    return out or [expr]


def _seed_sites(scan: _Scan):
    """every `self.split_method(mask, acs_mask, <seed>)` reachable from forward: (method it occurs in, seed expression)"""
    if "MaskSplitter.forward" not in scan.funcs:
        raise Untranslatable("MaskSplitter.forward not found")
    seen, todo, found = set(), ["MaskSplitter.forward"], []
    while todo:
        q = todo.pop(0)
        if q in seen or q not in scan.funcs:
            continue
        seen.add(q)
        for n in ast.walk(scan.funcs[q]):
            if isinstance(n, ast.Call) and isinstance(n.func, ast.Attribute) and isinstance(n.func.value, ast.Name) \
                    and n.func.value.id == "self":
                if n.func.attr == "split_method":
                    seed = n.args[2] if len(n.args) >= 3 else next((k.value for k in n.keywords if k.arg == "seed"), None)
                    if seed is not None:
                        found.append((q, seed))
                else:
                    todo += [c for c in scan.funcs if c.startswith("MaskSplitter.") and c.split(".")[-1] == n.func.attr]
    if not found:
        raise Untranslatable("no call `self.split_method(mask, acs_mask, <seed>)` reachable from forward")
    return found


def _branches(expr):
    """a conditional expression as [(conditions on the path, value)] — one decision tree whatever its nesting"""
    if isinstance(expr, ast.IfExp):
        return ([([(expr.test, True)] + c, v) for c, v in _branches(expr.body)] +
                [([(expr.test, False)] + c, v) for c, v in _branches(expr.orelse)])
    return [([], expr)]


_TUPLE_FS = re.compile(r"^tuple\(map\(ord,str\(sample\['filename'\]\[(\w+)\]\)\+str\(sample\['slice_no'\]\[\1\]\)\)\)$")
_TUPLE_SF = re.compile(r"^tuple\(map\(ord,str\(sample\['slice_no'\]\[(\w+)\]\)\+str\(sample\['filename'\]\[\1\]\)\)\)$")


def seed_tables():
    """-> (Lean text of `seed_calls`, order of the tuple when it is the ord-concatenation else None, Lean term of the
    `seed is None` condition in terms of `use_seed` else None)"""
    scan = _Scan(SSL)
    calls: list[str] = []
    orders, nones, other_values = set(), set(), 0
    for q, seed in _seed_sites(scan):
        for expr in _resolve(scan, q, seed):
            for conds, v in _branches(expr):
                if _txt(v) == "None":
                    # under which polarity of `self.use_seed` is the seed None?
                    pol = None
                    if len(conds) == 1:
                        t, taken = conds[0]
                        tt = _txt(t)
                        if tt in ("notself.use_seed", "self.use_seedisFalse", "self.use_seed==False"):
                            pol = "(!use_seed)" if taken else "use_seed"
                        elif tt in ("self.use_seed", "self.use_seedisTrue", "self.use_seed==True"):
                            pol = "use_seed" if taken else "(!use_seed)"
                    nones.add(pol)
                    continue
                for c in _callables(v):
                    if c not in calls:
                        calls.append(c)
                for t, _taken in conds:
                    for c in _callables(t):
                        if c not in calls:
                            calls.append(c)
                t = _txt(v)
                if _TUPLE_FS.match(t):
                    orders.add("filename ++ slice")
                elif _TUPLE_SF.match(t):
                    orders.add("slice ++ filename")
                else:
                    other_values += 1
    # the reduction inside `_gaussian_split` (what reaches libc `srand`)
    g = scan.funcs.get("MaskSplitter._gaussian_split")
    if g is not None:
        for st in ast.walk(g):
            if isinstance(st, ast.Assign) and len(st.targets) == 1 and ast.unparse(st.targets[0]) == "seed":
                if "np.random" in ast.unparse(st.value):
                    continue           # the unseeded branch (`seed is None`)
                for c in _callables(_inline(scan, st.value)):
                    if c not in calls:
                        calls.append(c)
    tuple_def = next(iter(orders)) if len(orders) == 1 and other_values == 0 else None
    tr_none = next(iter(nones)) if len(nones) == 1 and None not in nones else None
    text = ("/-- translated from `MaskSplitter.forward` (private helpers inlined at their call sites) and `_gaussian_split`:\n"
            "every callable the per-sample seed derivation uses -/\n"
            f"def seed_calls : List String := {_lstr(calls)}\n")
    return text, tuple_def, tr_none


SEED_CALLS_FALLBACK = 'def seed_calls : List String := ["tuple", "map", "ord", "str", "int", "np.mean"]\n'


# ---- admissible ratios --------------------------------------------------------------------------------------
def ratio_guard() -> str:
    scan = _Scan(SSL)
    init = scan.funcs.get("MaskSplitter.__init__")
    if init is None:
        raise Untranslatable("MaskSplitter.__init__ not found")
    for st in ast.walk(init):
        if not (isinstance(st, ast.If) and st.body and isinstance(st.body[0], ast.Raise)):
            continue
        if "ValueError" not in ast.unparse(st.body[0]):
            continue
        t = st.test
        if not (isinstance(t, ast.UnaryOp) and isinstance(t.op, ast.Not) and isinstance(t.operand, ast.Call)
                and ast.unparse(t.operand.func) == "all" and len(t.operand.args) == 1
                and isinstance(t.operand.args[0], ast.GeneratorExp)):
            continue
        gen = t.operand.args[0]
        if len(gen.generators) != 1 or gen.generators[0].ifs or ast.unparse(gen.generators[0].iter) != "ratio":
            raise Untranslatable(f"ratio guard `{ast.unparse(t)}`")
        var = ast.unparse(gen.generators[0].target)
        cmp_ = gen.elt
        if not isinstance(cmp_, ast.Compare):
            raise Untranslatable(f"ratio guard element `{ast.unparse(cmp_)}`")

        def rat(node):
            if isinstance(node, ast.Name) and node.id == var:
                return "p", "q"
            if isinstance(node, ast.Constant) and isinstance(node.value, (int, float)) and not isinstance(node.value, bool) \
                    and float(node.value) == int(node.value):
                return f"({int(node.value)} : Int)", "(1 : Int)"
            raise Untranslatable(f"operand `{ast.unparse(node)}` of the ratio guard")

        parts = []
        left = cmp_.left
        for op, right in zip(cmp_.ops, cmp_.comparators):
            sym = {ast.Lt: "<", ast.LtE: "≤", ast.Gt: ">", ast.GtE: "≥"}.get(type(op))
            if sym is None:
                raise Untranslatable("comparison operator in the ratio guard")
            (a, b), (c, d) = rat(left), rat(right)
            parts.append(f"decide ({a} * {d} {sym} {c} * {b})")
            left = right
        return ("/-- translated from `MaskSplitter.__init__`: `all(<this> for r in ratio)` must hold, `r = p / q` with `q > 0` -/\n"
                "def ratio_guard (p q : Int) : Bool := " + " && ".join(parts) + "\n")
    raise Untranslatable("`if not all(… for r in ratio): raise ValueError` not found")


RATIO_FALLBACK = "def ratio_guard (p q : Int) : Bool := SslSplit.ratioValid p q\n"


# ---- every place in direct/nn that reads the split keys ----------------------------------------------------
_COND = {"self.model.training": "train", "is_sslandself.model.training": "ssl&train", "self.model.trainingandis_ssl": "ssl&train",
         "data['is_ssl'][0]andself.model.training": "ssl&train", "self.model.traininganddata['is_ssl'][0]": "ssl&train"}


def _dkey(node):
    if (isinstance(node, ast.Subscript) and ast.unparse(node.value) == "data" and isinstance(node.slice, ast.Constant)
            and isinstance(node.slice.value, str)):
        return node.slice.value
    raise Untranslatable(f"`{ast.unparse(node)}` is not data[<key>]")


def _site_row(rel: str, cls: ast.ClassDef, fn: ast.FunctionDef) -> dict:
    name = f"{cls.name}.{fn.name}"
    bases = [ast.unparse(b) for b in cls.bases]
    row = {"name": name, "iteration": fn.name == "_do_iteration", "joint": any("JSSL" in b for b in bases) or "JSSL" in cls.name,
           "cond": None, "trainK": "", "trainMask": "", "evalK": "", "evalMask": "", "project": ""}
    is_ssl_def = any(isinstance(st, ast.Assign) and ast.unparse(st.targets[0]) == "is_ssl" and _txt(st.value) == "data['is_ssl'][0]"
                     for st in ast.walk(fn))

    def cond_of(test):
        t = _txt(test)
        if "is_ssl" in t and "data['is_ssl']" not in t and not is_ssl_def:
            return "?" + t
        return _COND.get(t, "?" + t)

    def put(which, cond, tr, ev):
        if row["cond"] not in (None, cond):
            raise Untranslatable(f"{name}: k-space and mask are chosen under different conditions")
        row["cond"] = cond
        row["train" + which], row["eval" + which] = _dkey(tr), _dkey(ev)

    for st in ast.walk(fn):
        if isinstance(st, ast.Assign) and len(st.targets) == 1 and ast.unparse(st.targets[0]) in ("kspace", "mask") \
                and isinstance(st.value, ast.IfExp):
            put("K" if ast.unparse(st.targets[0]) == "kspace" else "Mask", cond_of(st.value.test), st.value.body, st.value.orelse)
        if isinstance(st, ast.If) and st.orelse and len(st.body) == 1 and len(st.orelse) == 1 \
                and isinstance(st.body[0], ast.Assign) and isinstance(st.orelse[0], ast.Assign):
            a, b = st.body[0], st.orelse[0]
            ta, tb = _txt(a.targets[0]), _txt(b.targets[0])
            if ta != tb or ta not in ("kspace", "(kspace,mask)", "kspace,mask"):
                continue
            if ta == "kspace":
                put("K", cond_of(st.test), a.value, b.value)
            else:
                if not (isinstance(a.value, ast.Tuple) and isinstance(b.value, ast.Tuple) and len(a.value.elts) == 2 == len(b.value.elts)):
                    raise Untranslatable(f"{name}: `kspace, mask = …` is not a pair")
                put("K", cond_of(st.test), a.value.elts[0], b.value.elts[0])
                put("Mask", cond_of(st.test), a.value.elts[1], b.value.elts[1])
    if row["cond"] is None:
        raise Untranslatable(f"{name}: the choice between the split and the un-split keys was not found")
    proj = []
    for c in ast.walk(fn):
        if (isinstance(c, ast.Call) and ast.unparse(c.func) == "T.apply_mask" and len(c.args) >= 2
                and ast.unparse(c.args[0]) == "output_kspace" and isinstance(c.args[1], ast.Subscript)
                and ast.unparse(c.args[1].value) == "data"):
            k = _dkey(c.args[1])
            if k not in proj:
                proj.append(k)
    row["project"] = "+".join(proj)
    return row


def engine_sites() -> str:
    rows = []
    nn = REPO / "direct" / "nn"
    for path in sorted(nn.rglob("*.py")):
        src = path.read_text()
        if "input_kspace" not in src:
            continue
        rel = str(path.relative_to(REPO))
        tree = parse_file(path)
        for cls in [n for n in ast.walk(tree) if isinstance(n, ast.ClassDef)]:
            for fn in [n for n in cls.body if isinstance(n, ast.FunctionDef)]:
                reads = [n for n in ast.walk(fn) if isinstance(n, ast.Subscript) and isinstance(n.slice, ast.Constant)
                         and n.slice.value in ("input_kspace", "input_sampling_mask", "target_sampling_mask")
                         and ast.unparse(n.value) == "data"]
                if not reads:
                    continue
                if fn.name == "log_first_training_example_and_model":
                    continue          # logging only
                rows.append(_site_row(rel, cls, fn))
    if not rows:
        raise Untranslatable("no reader of data['input_kspace'] under direct/nn")
    b = lambda x: "true" if x else "false"  # noqa: E731
    body = ",\n   ".join(
        f'{{ name := {_q(r["name"])}, iteration := {b(r["iteration"])}, joint := {b(r["joint"])}, cond := {_q(r["cond"])}, '
        f'trainK := {_q(r["trainK"])}, trainMask := {_q(r["trainMask"])}, evalK := {_q(r["evalK"])}, evalMask := {_q(r["evalMask"])}, '
        f'project := {_q(r["project"])} }}' for r in rows)
    return ("/-- translated from `direct/nn/**`: every method that reads `data['input_kspace' | 'input_sampling_mask' |\n"
            "'target_sampling_mask']` — the `_do_iteration`s that re-implement the SSL training step and the forward functions -/\n"
            f"def engine_sites : List SslSplit.EngineSite :=\n  [{body}]\n")


ENGINE_SITES_FALLBACK = "def engine_sites : List SslSplit.EngineSite := []\n"


# ---- how enum-valued options are compared ------------------------------------------------------------------
MT = "direct/data/mri_transforms.py"


def _enum_classes() -> set[str]:
    """names of the DirectEnum subclasses (str-enums comparing equal to strings of any case) of the modules involved"""
    names = {"DirectEnum"}
    trees = [parse_file(REPO / rel) for rel in ("direct/types.py", SSL, MT)]
    for _ in range(3):
        for tree in trees:
            for n in ast.walk(tree):
                if isinstance(n, ast.ClassDef) and any(ast.unparse(b).split(".")[-1] in names for b in n.bases):
                    names.add(n.name)
    return names - {"DirectEnum"}


def enum_compares() -> str:
    enums = _enum_classes()
    if "HalfSplitType" not in enums or "MaskSplitterType" not in enums:
        raise Untranslatable("HalfSplitType / MaskSplitterType are not DirectEnum classes any more")

    def member(node):
        return isinstance(node, ast.Attribute) and isinstance(node.value, ast.Name) and node.value.id in enums

    def members_in(node):
        return [e for e in getattr(node, "elts", []) if member(e)]

    rows = []

    def scan_fn(qual, fn, only=None):
        for n in ast.walk(fn):
            if isinstance(n, ast.Compare):
                left = n.left
                for op, right in zip(n.ops, n.comparators):
                    who, other = None, None
                    if member(right):
                        who, other = right, left
                    elif member(left):
                        who, other = left, right
                    if who is not None and (only is None or who.value.id in only):
                        sym = {ast.Eq: "==", ast.NotEq: "!=", ast.Is: "is", ast.IsNot: "is-not"}.get(type(op), type(op).__name__)
                        rows.append((qual, f"{ast.unparse(other)} ~ {ast.unparse(who)}", sym))
                    elif isinstance(op, (ast.In, ast.NotIn)) and members_in(right) and (
                            only is None or any(m.value.id in only for m in members_in(right))):
                        kind = {ast.List: "list", ast.Tuple: "tuple", ast.Set: "set"}.get(type(right), "other")
                        rows.append((qual, f"{ast.unparse(left)} ~ {ast.unparse(right)}", ("not-in-" if isinstance(op, ast.NotIn) else "in-") + kind))
                    elif isinstance(op, (ast.In, ast.NotIn)) and isinstance(right, ast.Dict) and any(member(k) for k in right.keys if k):
                        rows.append((qual, f"{ast.unparse(left)} ~ dict", "in-dict"))
                    left = right
            elif isinstance(n, ast.Subscript) and isinstance(n.value, ast.Dict) and any(member(k) for k in n.value.keys if k):
                if only is None or any(member(k) and k.value.id in only for k in n.value.keys if k):
                    rows.append((qual, f"{{…}}[{ast.unparse(n.slice)}]", "dict-key"))
            elif isinstance(n, ast.Call) and isinstance(n.func, ast.Attribute) and n.func.attr == "get" \
                    and isinstance(n.func.value, ast.Dict) and any(member(k) for k in n.func.value.keys if k):
                rows.append((qual, "{…}.get(…)", "dict-key"))
            elif isinstance(n, ast.Match):
                for c in n.cases:
                    for p in ast.walk(c.pattern):
                        if isinstance(p, ast.MatchValue) and member(p.value) and (only is None or p.value.value.id in only):
                            rows.append((qual, f"{ast.unparse(n.subject)} ~ {ast.unparse(p.value)}", "match"))
        # module-level / class-level dispatch tables keyed by members that the function indexes
    scan = _Scan(SSL)
    for q, fn in scan.funcs.items():
        scan_fn(q, fn)
    mt = parse_file(REPO / MT)
    for n in ast.walk(mt):
        if isinstance(n, ast.FunctionDef) and n.name == "build_mri_transforms":
            scan_fn("build_mri_transforms", n, only={"MaskSplitterType", "HalfSplitType"})
    # dictionaries keyed by enum members defined anywhere in ssl.py (dispatch tables)
    for n in ast.walk(scan.tree):
        if isinstance(n, (ast.Assign, ast.AnnAssign)) and isinstance(getattr(n, "value", None), ast.Dict) \
                and any(member(k) for k in n.value.keys if k):
            rows.append(("<table>", ast.unparse(n.targets[0] if isinstance(n, ast.Assign) else n.target), "dict-key"))
    rows = _dedupe(rows)
    if not any(q.endswith("_half_split") for q, _, _ in rows):
        raise Untranslatable("no comparison of the direction with a HalfSplitType member found in _half_split")
    body = ",\n   ".join(f"({_q(q)}, {_q(w)}, {_q(o)})" for q, w, o in rows)
    return ("/-- translated from `direct/ssl/ssl.py` and `build_mri_transforms`: every test of a value against a member of a\n"
            "`DirectEnum` (function, what is compared, operator: `==` `!=` `in-list` … go through `__eq__`; `is` is identity;\n"
            "`in-set` / `dict-key` hash first) -/\n"
            f"def enum_compares : List (String × String × String) :=\n  [{body}]\n")


ENUM_COMPARES_FALLBACK = "def enum_compares : List (String × String × String) := []\n"
