"""C12 helpers: normalisation of Python source before translation (helper inlining, decision trees, local aliases).

Used by recipes/c12.py so that behaviour-preserving refactorings (private helper extraction, early returns, named
intermediate locals, loops instead of comprehensions, `itertools.accumulate`) lead to the *same* generated kernels and
tables.  Anything that is not understood raises `Untranslatable` (the kernel is then `skipped`, never a mismatch).
"""
from __future__ import annotations

import ast
import copy

from ..pyexpr import Untranslatable


def txt(node) -> str:
    return ast.unparse(node).replace(" ", "")


# ---------------------------------------------------------------------------------------------------------------
# classes / methods
def class_node(tree: ast.Module, name: str) -> ast.ClassDef | None:
    return next((n for n in tree.body if isinstance(n, ast.ClassDef) and n.name == name), None)


def method(tree: ast.Module, clsname: str, name: str) -> ast.FunctionDef | None:
    cls = class_node(tree, clsname)
    if cls is None:
        return None
    return next((f for f in cls.body if isinstance(f, ast.FunctionDef) and f.name == name), None)


def _is_static(fn: ast.FunctionDef) -> bool:
    return any(txt(d) in ("staticmethod",) for d in fn.decorator_list)


def _self_call(node: ast.AST, clsname: str) -> str | None:
    """name of the method when `node` is `self.m(...)`, `Cls.m(...)`, `type(self).m(...)`, `self.__class__.m(...)`"""
    if isinstance(node, ast.Call) and isinstance(node.func, ast.Attribute) and \
            txt(node.func.value) in ("self", clsname, "type(self)", "self.__class__", "cls"):
        return node.func.attr
    return None


class _Subst(ast.NodeTransformer):
    def __init__(self, env: dict[str, ast.expr]):
        self.env = env

    def visit_Name(self, node: ast.Name):
        if isinstance(node.ctx, ast.Load) and node.id in self.env:
            return copy.deepcopy(self.env[node.id])
        return node


def subst(node: ast.AST, env: dict[str, ast.expr]) -> ast.AST:
    return ast.fix_missing_locations(_Subst(env).visit(copy.deepcopy(node)))


def _bind_args(fn: ast.FunctionDef, call: ast.Call) -> dict[str, ast.expr]:
    params = [a.arg for a in fn.args.args]
    if params and params[0] in ("self", "cls") and not _is_static(fn):
        params = params[1:]
    if fn.args.vararg or fn.args.kwarg or fn.args.kwonlyargs or any(isinstance(a, ast.Starred) for a in call.args):
        raise Untranslatable(f"cannot bind the arguments of `{fn.name}`")
    env: dict[str, ast.expr] = {}
    defaults = dict(zip(params[len(params) - len(fn.args.defaults):], fn.args.defaults))
    for p, a in zip(params, call.args):
        env[p] = a
    for k in call.keywords:
        if k.arg is None or k.arg not in params:
            raise Untranslatable(f"cannot bind the arguments of `{fn.name}`")
        env[k.arg] = k.value
    for p in params:
        if p not in env:
            if p not in defaults:
                raise Untranslatable(f"missing argument `{p}` of `{fn.name}`")
            env[p] = defaults[p]
    if len(call.args) > len(params):
        raise Untranslatable(f"too many arguments for `{fn.name}`")
    return env


def _strip(stmts: list[ast.stmt]) -> list[ast.stmt]:
    """drop docstrings / bare string expressions / pass"""
    return [s for s in stmts if not (isinstance(s, ast.Expr) and isinstance(s.value, ast.Constant)) and not isinstance(s, ast.Pass)]


# ---------------------------------------------------------------------------------------------------------------
# decision trees: a body made of `if t: return a` … `return b` is the conditional expression `a if t else b`
def returns_to_expr(stmts: list[ast.stmt]) -> ast.expr | None:
    stmts = _strip(stmts)
    if not stmts:
        return None
    st = stmts[0]
    if isinstance(st, ast.Return) and st.value is not None:
        return st.value
    if isinstance(st, ast.If):
        a = returns_to_expr(st.body)
        b = returns_to_expr(st.orelse) if st.orelse else returns_to_expr(stmts[1:])
        if a is None or b is None:
            return None
        return ast.IfExp(test=st.test, body=a, orelse=b)
    return None


class _InlineExprCalls(ast.NodeTransformer):
    """`self._m(args)` whose body is a decision tree of returns → that expression with the arguments substituted"""

    def __init__(self, tree: ast.Module, clsname: str, depth: int = 4):
        self.tree, self.clsname, self.depth = tree, clsname, depth

    def visit_Call(self, node: ast.Call):
        self.generic_visit(node)
        name = _self_call(node, self.clsname)
        if name is None or self.depth <= 0:
            return node
        fn = method(self.tree, self.clsname, name)
        if fn is None:
            return node
        expr = returns_to_expr(fn.body)
        if expr is None:
            return node
        try:
            env = _bind_args(fn, node)
        except Untranslatable:
            return node
        inner = _InlineExprCalls(self.tree, self.clsname, self.depth - 1)
        return inner.visit(subst(expr, env))


def inline_expr_calls(node: ast.AST, tree: ast.Module, clsname: str) -> ast.AST:
    return ast.fix_missing_locations(_InlineExprCalls(tree, clsname).visit(copy.deepcopy(node)))


def _always_returns(stmts: list[ast.stmt]) -> bool:
    stmts = _strip(stmts)
    if not stmts:
        return False
    last = stmts[-1]
    if isinstance(last, (ast.Return, ast.Raise)):
        return True
    if isinstance(last, ast.If) and last.orelse:
        return _always_returns(last.body) and _always_returns(last.orelse)
    return False


def _has_return(stmts: list[ast.stmt]) -> bool:
    return any(isinstance(n, ast.Return) for s in stmts for n in ast.walk(s))


def body_as_assignment(stmts: list[ast.stmt], target: ast.expr) -> list[ast.stmt]:
    """a helper body with `return e` (possibly early, under `if`) as statements that assign `e` to `target`:
    `if t: return a` followed by `rest` becomes `if t: target = a  else: rest'`."""
    out: list[ast.stmt] = []
    stmts = _strip(stmts)
    for i, st in enumerate(stmts):
        if isinstance(st, ast.Return):
            if st.value is None:
                raise Untranslatable("helper returns nothing")
            out.append(ast.Assign(targets=[copy.deepcopy(target)], value=st.value, lineno=st.lineno))
            return out
        if isinstance(st, ast.If) and _has_return(st.body + st.orelse):
            if _always_returns(st.body) and not st.orelse:
                out.append(ast.If(test=st.test, body=body_as_assignment(st.body, target),
                                  orelse=body_as_assignment(stmts[i + 1:], target)))
                return out
            if st.orelse and _always_returns(st.body) and _always_returns(st.orelse):
                out.append(ast.If(test=st.test, body=body_as_assignment(st.body, target),
                                  orelse=body_as_assignment(st.orelse, target)))
                return out
            raise Untranslatable("helper returns on some paths only")
        if _has_return([st]):
            raise Untranslatable("helper returns from inside a loop / with / try")
        out.append(st)
    raise Untranslatable("helper may fall off its end")


def inline_stmt_calls(stmts: list[ast.stmt], tree: ast.Module, clsname: str, depth: int = 3) -> list[ast.stmt]:
    """`x = self._m(args)` → the body of `_m` (arguments substituted, returns turned into assignments to `x`), recursively,
    also inside if / else branches.  Helpers that are decision trees of returns are left to `inline_expr_calls`."""
    out: list[ast.stmt] = []
    for st in stmts:
        if isinstance(st, ast.Assign) and len(st.targets) == 1 and depth > 0:
            name = _self_call(st.value, clsname)
            fn = method(tree, clsname, name) if name else None
            if fn is not None and returns_to_expr(fn.body) is None:
                env = _bind_args(fn, st.value)
                body = [subst(s, env) for s in _strip(fn.body)]
                out.extend(inline_stmt_calls(body_as_assignment(body, st.targets[0]), tree, clsname, depth - 1))
                continue
        if isinstance(st, ast.If):
            st = ast.If(test=st.test, body=inline_stmt_calls(st.body, tree, clsname, depth),
                        orelse=inline_stmt_calls(st.orelse, tree, clsname, depth))
        out.append(st)
    return [ast.fix_missing_locations(s) for s in out]


# ---------------------------------------------------------------------------------------------------------------
# local aliases
def _pure(node: ast.AST) -> bool:
    """an expression built from names, attributes of `self`, integer constants, arithmetic and max/min — safe to
    substitute for the local it is assigned to"""
    for n in ast.walk(node):
        if isinstance(n, (ast.Name, ast.Constant, ast.BinOp, ast.UnaryOp, ast.operator, ast.unaryop, ast.expr_context,
                          ast.Compare, ast.cmpop, ast.IfExp, ast.BoolOp, ast.boolop)):
            continue
        if isinstance(n, ast.Attribute) and txt(n).startswith("self."):
            continue
        if isinstance(n, ast.Call) and isinstance(n.func, ast.Name) and n.func.id in ("max", "min", "int", "len", "abs") \
                and not n.keywords:
            continue
        if isinstance(n, ast.Subscript) and txt(n.value).startswith("self."):
            continue
        return False
    return True


class Env:
    """single-assignment locals with pure right-hand sides, resolved on demand"""

    def __init__(self):
        self.env: dict[str, ast.expr] = {}
        self.seen: set[str] = set()

    def note(self, st: ast.stmt):
        if isinstance(st, ast.Assign) and len(st.targets) == 1 and isinstance(st.targets[0], ast.Name):
            name = st.targets[0].id
            if name in self.seen:                       # reassigned: no longer an alias
                self.env.pop(name, None)
            elif _pure(st.value):
                self.env[name] = self.resolve(st.value)
            self.seen.add(name)
        else:
            for n in ast.walk(st):
                if isinstance(n, ast.Name) and isinstance(n.ctx, (ast.Store, ast.Del)):
                    self.env.pop(n.id, None)
                    self.seen.add(n.id)

    def resolve(self, node: ast.AST) -> ast.AST:
        return subst(node, self.env)

    def fork(self) -> "Env":
        e = Env()
        e.env, e.seen = dict(self.env), set(self.seen)
        return e


# ---------------------------------------------------------------------------------------------------------------
# the context window of H5SliceData.get_slice_data, extracted semantically
class WindowFacts:
    """lo / hi / short / guards / fill lengths as (resolved) expressions + the binds to translate them with, and the
    structural rows of the window table"""

    def __init__(self):
        self.exprs: dict[str, ast.expr] = {}
        self.binds: dict[str, str] = {}
        self.rows: dict[str, bool] = {}


def _slice_of(sub: ast.Subscript) -> ast.Slice | None:
    sl = sub.slice
    if isinstance(sl, ast.Tuple) and len(sl.elts) == 1:
        sl = sl.elts[0]
    if isinstance(sl, ast.Slice) and sl.step is None and sl.lower is not None and sl.upper is not None:
        return sl
    return None


def _zero_block(call: ast.AST):
    """-> shape argument of `np.zeros(shape, dtype=…)` or None"""
    if isinstance(call, ast.Call) and txt(call.func) in ("np.zeros", "numpy.zeros") and call.args:
        return call.args[0]
    return None


def window_facts(tree: ast.Module, clsname: str = "H5SliceData", fname: str = "get_slice_data") -> WindowFacts:
    fn = method(tree, clsname, fname)
    if fn is None:
        raise Untranslatable(f"{clsname}.{fname} not found")
    stmts = inline_stmt_calls(fn.body, tree, clsname)
    stmts = [inline_expr_calls(s, tree, clsname) for s in stmts]
    env = Env()
    branch = None
    for st in stmts:
        if isinstance(st, ast.If) and txt(env.resolve(st.test)) in ("self.kspace_context==0", "0==self.kspace_context",
                                                                   "notself.kspace_context"):
            branch = st
            break
        if isinstance(st, ast.If) and txt(env.resolve(st.test)) in ("self.kspace_context!=0", "self.kspace_context",
                                                                   "self.kspace_context>0"):
            branch = ast.If(test=st.test, body=st.orelse, orelse=st.body)
            break
        env.note(st)
    if branch is None or not branch.orelse:
        raise Untranslatable("branch on `self.kspace_context == 0` not found")
    F = WindowFacts()
    # ---- context 0: the single slice
    b0 = _strip(branch.body)
    F.rows["context0_reads_single_slice"] = False
    result = None
    if len(b0) == 1 and isinstance(b0[0], ast.Assign) and isinstance(b0[0].value, ast.Subscript):
        src0 = txt(env.resolve(b0[0].value.value))
        F.rows["context0_reads_single_slice"] = txt(b0[0].value.slice) == "slice_no"
        result = txt(b0[0].targets[0])
    else:
        src0 = None
    # ---- the window branch
    W = _strip(branch.orelse)
    e = env.fork()
    var = src = None
    n_name = n_rhs = shape_alias = None
    read_at = None
    for i, st in enumerate(W):
        if isinstance(st, ast.Assign) and len(st.targets) == 1 and isinstance(st.targets[0], ast.Name) \
                and isinstance(st.value, ast.Subscript) and _slice_of(st.value) is not None:
            var, src = st.targets[0].id, txt(e.resolve(st.value.value))
            sl = _slice_of(st.value)
            F.exprs["lo"], F.exprs["hi"] = e.resolve(sl.lower), e.resolve(sl.upper)
            read_at = i
            break
        if isinstance(st, ast.Assign) and len(st.targets) == 1 and isinstance(st.targets[0], ast.Name) and not _pure(st.value):
            # the number of slices: a local that is not a pure alias (read from the file, or from anywhere else)
            n_name, n_rhs = st.targets[0].id, txt(e.resolve(st.value))
        e.note(st)
    if var is None:
        raise Untranslatable("window read `x = <dataset>[lo:hi]` not found")
    if src0 is not None and src0 != src:
        raise Untranslatable("the two branches read different datasets")
    F.rows["num_slices_from_file"] = n_name is not None and n_rhs == src + ".shape[0]"
    F.binds = {"slice_no": "s", "self.kspace_context": "c"}
    if n_name is not None:
        F.binds[n_name] = "n"
    F.binds[src + ".shape[0]"] = "n"
    F.binds[var + ".shape[0]"] = "len"
    rest = W[read_at + 1:]
    short = None
    F.rows["curr_shape_is_read_shape"] = False
    for j, st in enumerate(rest):
        if isinstance(st, ast.Assign) and len(st.targets) == 1 and isinstance(st.targets[0], ast.Name) \
                and txt(st.value) == var + ".shape" and short is None:
            shape_alias = st.targets[0].id
            F.binds[shape_alias + "[0]"] = "len"
            F.rows["curr_shape_is_read_shape"] = True
            continue
        if isinstance(st, ast.If) and short is None:
            inner = _strip(st.body)
            if len(inner) == 2 and all(isinstance(s, ast.If) and not s.orelse for s in inner) and not st.orelse:
                short = st
                continue
        if short is None:
            e.note(st)
    if short is None:
        raise Untranslatable("zero-fill block `if <short>: if …: if …:` not found")
    if shape_alias is None:
        F.rows["curr_shape_is_read_shape"] = var + ".shape[0]" in txt(short.test)
    F.exprs["short"] = e.resolve(short.test)
    shape_txts = {var + ".shape"} | ({shape_alias} if shape_alias else set())
    copies = []
    for which, st in zip(("before", "after"), _strip(short.body)):
        F.exprs[f"{which}_guard"] = e.resolve(st.test)
        le = e.fork()
        body = _strip(st.body)
        cat = None
        shape0: dict[str, ast.expr] = {}
        shape_src: dict[str, str] = {}
        for s in body:
            if isinstance(s, ast.Assign) and len(s.targets) == 1:
                t, v = s.targets[0], s.value
                if isinstance(t, ast.Subscript) and isinstance(t.value, ast.Name) and txt(t.slice) == "0":
                    shape0[t.value.id] = le.resolve(v)                      # new_shape[0] = E
                    continue
                if isinstance(t, ast.Name) and isinstance(v, ast.Call) and txt(v.func) in ("np.concatenate", "numpy.concatenate"):
                    cat = (t.id, v)
                    continue
                if isinstance(t, ast.Name) and txt(v) in {f"list({x}).copy()" for x in shape_txts} | {f"list({x})" for x in shape_txts}:
                    shape_src[t.id] = "copy"
                    continue
            le.note(s)
        if cat is None or cat[0] != var:
            raise Untranslatable("zero-fill branch without `x = np.concatenate([...])`")
        call = cat[1]
        lst = call.args[0] if call.args else None
        ax = next((k.value for k in call.keywords if k.arg == "axis"), call.args[1] if len(call.args) > 1 else None)
        if not isinstance(lst, (ast.List, ast.Tuple)) or len(lst.elts) != 2 or ax is None or txt(ax) != "0":
            raise Untranslatable("np.concatenate of two blocks along axis 0 expected")
        zpos = [k for k, el in enumerate(lst.elts) if _zero_block(el) is not None]
        dpos = [k for k, el in enumerate(lst.elts) if isinstance(el, ast.Name) and el.id == var]
        F.rows[f"zeros_{which}_data"] = (zpos, dpos) == (([0], [1]) if which == "before" else ([1], [0]))
        if len(zpos) != 1:
            raise Untranslatable("no np.zeros block in the concatenation")
        z = lst.elts[zpos[0]]
        zshape = _zero_block(z)
        dt = next((txt(k.value) for k in z.keywords if k.arg == "dtype"), txt(z.args[1]) if len(z.args) > 1 else None)
        ok_copy = dt == var + ".dtype"
        if isinstance(zshape, ast.Name) and zshape.id in shape0:
            F.exprs[f"{which}_len"] = shape0[zshape.id]
            ok_copy = ok_copy and shape_src.get(zshape.id) == "copy"
        elif isinstance(zshape, (ast.List, ast.Tuple)) and len(zshape.elts) == 2 and isinstance(zshape.elts[1], ast.Starred):
            F.exprs[f"{which}_len"] = le.resolve(zshape.elts[0])
            ok_copy = ok_copy and txt(zshape.elts[1].value) in {x + "[1:]" for x in shape_txts}
        else:
            raise Untranslatable("shape of the zero block not understood")
        copies.append(ok_copy)
    F.rows["new_shape_copies_read_shape"] = all(copies)
    after = rest[rest.index(short) + 1:]
    F.rows["depth_axis_moved_to_second"] = any(
        isinstance(s, ast.Assign) and txt(s.value) == f"np.swapaxes({var},0,1)" and (result is None or txt(s.targets[0]) == result)
        for s in after)
    return F


# ---------------------------------------------------------------------------------------------------------------
# loop nests: `[elt for a in A for b in B]` and `xs = []; for a in A: for b in B: xs.append(elt)` are the same thing
def loop_nest(fn: ast.FunctionDef, target: str):
    """-> (elt, [(target, iter), …]) of the list stored in `target`, iterables resolved through single-assignment locals
    (of any right-hand side) of the function"""
    env: dict[str, ast.expr] = {}
    counts: dict[str, int] = {}
    for n in ast.walk(fn):
        if isinstance(n, ast.Assign) and len(n.targets) == 1 and isinstance(n.targets[0], ast.Name):
            counts[n.targets[0].id] = counts.get(n.targets[0].id, 0) + 1
            env[n.targets[0].id] = n.value
    env = {k: v for k, v in env.items() if counts[k] == 1}
    for _ in range(3):
        env = {k: subst(v, {a: b for a, b in env.items() if a != k}) for k, v in env.items()}
    assigns = [n for n in ast.walk(fn) if isinstance(n, ast.Assign) and len(n.targets) == 1 and txt(n.targets[0]) == target]
    if len(assigns) != 1:
        raise Untranslatable(f"`{target} = …` not found exactly once")
    v = assigns[0].value
    if isinstance(v, ast.ListComp):
        if any(g.ifs or g.is_async for g in v.generators):
            raise Untranslatable("filtered comprehension")
        return v.elt, [(g.target, subst(g.iter, env)) for g in v.generators]
    if isinstance(v, ast.List) and not v.elts:
        loops = [n for n in ast.walk(fn) if isinstance(n, ast.For) and any(
            isinstance(c, ast.Call) and txt(c.func) == target + ".append" for c in ast.walk(n))]
        if not loops:
            raise Untranslatable(f"no loop appends to {target}")
        outer = loops[0]                       # ast.walk is breadth-first: the outermost loop comes first
        gens = []
        cur = outer
        while True:
            if cur.orelse:
                raise Untranslatable("for/else")
            gens.append((cur.target, subst(cur.iter, env)))
            body = [b for b in _strip(cur.body)
                    if not (isinstance(b, ast.Assign) and len(b.targets) == 1 and isinstance(b.targets[0], ast.Name)
                            and b.targets[0].id in env)]
            if len(body) == 1 and isinstance(body[0], ast.For):
                cur = body[0]
                continue
            if len(body) == 1 and isinstance(body[0], ast.Expr) and isinstance(body[0].value, ast.Call) \
                    and txt(body[0].value.func) == target + ".append" and len(body[0].value.args) == 1:
                return body[0].value.args[0], gens
            raise Untranslatable("loop body is not a single append")
    raise Untranslatable(f"`{target}` is neither a comprehension nor an empty list filled by loops")


def canonical_nest(elt: ast.expr, gens) -> str:
    """text of the nest with the loop variables renamed v0, v1, … in binding order"""
    ren: dict[str, ast.expr] = {}
    k = 0
    parts = []
    for tgt, it in gens:
        it_txt = txt(subst(it, ren))
        names = [n.id for n in ast.walk(tgt) if isinstance(n, ast.Name)]
        for nm in names:
            ren[nm] = ast.Name(id=f"v{k}", ctx=ast.Load())
            k += 1
        parts.append(f"for{txt(subst(_load(tgt), ren))}in{it_txt}")
    return txt(subst(elt, ren)) + "|" + "|".join(parts)


def _load(node: ast.AST) -> ast.AST:
    node = copy.deepcopy(node)
    for n in ast.walk(node):
        if hasattr(n, "ctx"):
            n.ctx = ast.Load()
    return node
