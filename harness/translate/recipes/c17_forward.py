"""C17: translate the `forward` methods of the denoisers into shape programs (`List Shapes.Op`).

An abstract interpreter walks the *AST of the real `forward` source* (statement by statement, in source order, inlining the
`forward` of every repo sub-module) on a *really instantiated* module:

* Python control flow over concrete values (loops over `ModuleList`s / `range(self.num_scales)`, `if idx == 0`, list
  appends and pops, default arguments) is executed concretely;
* tensors are abstract tokens carrying a symbolic spatial shape `(base, offset)`: stride-1 convolutions / replication pads
  add to the offset (so that "padding compensates the kernel" is *computed*, not assumed), every other shape-changing layer
  creates a new base;
* a call of a torch layer emits the corresponding `Op` with the hyper-parameters of the instantiated layer (so a changed
  stride / kernel / padding in `__init__` changes the program); `F.avg_pool*d`, the conditional reflect-pad idiom of the
  U-Nets, `crop_to_shape`, `pad`/`unpad`, `pad_to_pow_of_2` are emitted as the corresponding operations (their integer
  arithmetic is translated separately by the kernels of c17.py);
* combining two tensors whose shapes are not known to be equal (`torch.cat`, `+`) emits an equality requirement against a
  remembered shape; the remembered shapes are linearised into the stack discipline of `Shapes.Op`
  (`push` where the tensor is produced, `padTop` / `cropTop` / `popSame` / `pop` where it is used).

The result is compared (`Bridge/C17.lean`, `decide`) with `Shapes.expand` of the hand-written programs the theorems are
about.  Anything outside the understood vocabulary raises `Untranslatable` (the program is then reported `skipped`).
"""
from __future__ import annotations

import ast
import inspect
import textwrap

from ..pyexpr import Untranslatable


class Tok:
    """abstract tensor: symbolic spatial shape (base, off) and an identity (tid)"""
    _n = 0

    def __init__(self, base, off, produced_at):
        Tok._n += 1
        self.tid = Tok._n
        self.base, self.off, self.produced_at = base, off, produced_at

    @property
    def sid(self):
        return (self.base, self.off)


class ShapeOf:
    def __init__(self, tok):
        self.tok = tok


class ShapeDim:
    def __init__(self, tok, axis):
        self.tok, self.axis = tok, axis


class ShapeDims:
    def __init__(self, tok):
        self.tok = tok


class Opaque:
    def __init__(self, tag="", **kw):
        self.tag = tag
        self.__dict__.update(kw)


class PadSpec:
    """`padding = [0, …]` being filled by `if a.shape[ax] != b.shape[ax]: padding[i] = 1`"""

    def __init__(self, n):
        self.n, self.cur, self.ref, self.entries = n, None, None, {}


class Symbolic(Exception):
    pass


_ELEMENTWISE_FUNCS = {"F.relu", "torch.sigmoid", "torch.tanh", "F.leaky_relu", "torch.relu", "torch.abs"}
_NEUTRAL_METHODS = {"clone", "contiguous", "float", "to", "detach", "double"}
_PRIM_CLASSES = {"DWT", "IWT"}


class Tracer:
    def __init__(self, hooked=()):
        self.events = []          # ("op", ops, tok_out) | ("emit",) | ("same", ref) | ("padto", ref) | ("cropto", ref)
        self.hooked = {id(m) for m in hooked}
        self.cur = None
        self.nbase = 0
        self.inputs = []
        self._src = {}

    # ---- tokens
    def new_input(self):
        self.nbase += 1
        t = Tok(self.nbase, 0, -1)
        self.inputs.append(t)
        if self.cur is None:
            self.cur = t
        return t

    def _emit_op(self, ops, tok_in, new_base=True, doff=0):
        if tok_in.sid != self.cur.sid:
            raise Untranslatable("a layer is applied to a tensor that is not the current one")
        if new_base:
            self.nbase += 1
            out = Tok(self.nbase, 0, len(self.events))
        else:
            out = Tok(tok_in.base, tok_in.off + doff, len(self.events))
        self.events.append(("op", list(ops), out))
        self.cur = out
        return out

    def _derived(self, tok):
        """element-wise result: same shape, produced now"""
        return Tok(tok.base, tok.off, len(self.events) - 1 if self.events else -1)

    def same(self, a, b):
        if a.sid == b.sid:
            return self._derived(a)
        if a.sid == self.cur.sid:
            ref = b
        elif b.sid == self.cur.sid:
            ref = a
        else:
            raise Untranslatable("combination of two tensors neither of which is the current one")
        self.events.append(("same", ref))
        out = Tok(ref.base, ref.off, len(self.events) - 1)
        self.cur = out
        return out

    # ---- torch layers
    @staticmethod
    def _iso(v):
        v = tuple(v) if isinstance(v, (tuple, list)) else (v,)
        if len(set(v)) != 1:
            raise Untranslatable(f"anisotropic hyper-parameter {v}")
        return int(v[0])

    def call_module(self, mod, args, kwargs):
        import torch.nn as nn

        name = type(mod).__name__
        x = args[0] if args else None
        start = len(self.events)
        if isinstance(mod, nn.Sequential):
            for child in mod:
                x = self.call_module(child, [x], {})
            out = x
        elif isinstance(mod, (nn.Conv2d, nn.Conv3d)):
            k, s, p, d = (self._iso(getattr(mod, a)) for a in ("kernel_size", "stride", "padding", "dilation"))
            out = self._emit_op([f".conv {k} {s} {p} {d}"], x, new_base=(s != 1), doff=2 * p - d * (k - 1))
        elif isinstance(mod, (nn.ConvTranspose2d, nn.ConvTranspose3d)):
            k, s, p = (self._iso(getattr(mod, a)) for a in ("kernel_size", "stride", "padding"))
            if self._iso(mod.dilation) != 1 or self._iso(mod.output_padding) != 0:
                raise Untranslatable("dilated / output-padded transposed convolution")
            out = self._emit_op([f".convT {k} {s} {p}"], x)
        elif isinstance(mod, (nn.InstanceNorm1d, nn.InstanceNorm2d, nn.InstanceNorm3d)):
            out = self._emit_op([".instNorm"], x, new_base=False)
        elif isinstance(mod, nn.PixelShuffle):
            out = self._emit_op([f".scale {int(mod.upscale_factor)}"], x)
        elif isinstance(mod, (nn.ReplicationPad2d, nn.ReplicationPad3d)):
            p = self._iso(mod.padding)
            out = self._emit_op([f".replPad {p}"], x, new_base=False, doff=2 * p)
        elif type(mod).__module__.startswith("torch.nn.modules.activation") or isinstance(
                mod, (nn.BatchNorm2d, nn.BatchNorm3d, nn.Dropout, nn.Dropout2d, nn.Dropout3d, nn.Identity)):
            out = self._derived(x)
        elif type(mod).__module__.startswith("torch."):
            raise Untranslatable(f"torch layer {name} is not in the vocabulary")
        elif name == "DWT":
            out = self._emit_op([".dwt"], x)
        elif name == "IWT":
            out = self._emit_op([f".scale {int(mod._r)}"], x)
        else:
            out = self.inline(mod, "forward", args, kwargs)
        if id(mod) in self.hooked:
            self.events.append(("emit",))
            first = out[0] if isinstance(out, (tuple, list)) and out else out
            if isinstance(first, Tok) and first.produced_at >= start - 1:
                first.produced_at = len(self.events) - 1      # the block's result exists once the (hooked) block returned
        return out

    # ---- inlining a repo method
    def _function(self, cls, meth):
        key = (cls, meth)
        if key not in self._src:
            fn = None
            for c in cls.__mro__:
                if meth in c.__dict__:
                    fn = c.__dict__[meth]
                    break
            if fn is None:
                raise Untranslatable(f"{cls.__name__}.{meth} not found")
            fn = getattr(fn, "__func__", fn)
            try:
                src = textwrap.dedent(inspect.getsource(fn))
            except (OSError, TypeError) as e:
                raise Untranslatable(f"no source for {cls.__name__}.{meth}: {e}")
            import warnings
            with warnings.catch_warnings():
                warnings.simplefilter("ignore")
                node = ast.parse(src).body[0]
            self._src[key] = (node, fn.__globals__, isinstance(cls.__dict__.get(meth), staticmethod))
        return self._src[key]

    def inline(self, obj, meth, args, kwargs):
        node, glob, is_static = self._function(obj if isinstance(obj, type) else type(obj), meth)
        params = [a.arg for a in node.args.args]
        env = {}
        vals = list(args) if is_static else [obj] + list(args)
        defaults = node.args.defaults
        for i, p in enumerate(params):
            if i < len(vals):
                env[p] = vals[i]
            elif p in kwargs:
                env[p] = kwargs[p]
            else:
                j = i - (len(params) - len(defaults))
                if j < 0:
                    raise Untranslatable(f"missing argument {p} of {type(obj).__name__}.{meth}")
                env[p] = self.eval(defaults[j], {}, glob)
        try:
            self.exec_block(node.body, env, glob)
        except _Return as r:
            return r.value
        return None

    # ---- statements
    def exec_block(self, stmts, env, glob):
        for st in stmts:
            self.exec_stmt(st, env, glob)

    def exec_stmt(self, st, env, glob):
        if isinstance(st, ast.Expr):
            if isinstance(st.value, ast.Constant):
                return
            self.eval(st.value, env, glob)
        elif isinstance(st, ast.Assign):
            if len(st.targets) != 1:
                raise Untranslatable("chained assignment")
            self.assign(st.targets[0], self.eval(st.value, env, glob), env, glob)
        elif isinstance(st, ast.AugAssign):
            cur = self.eval(st.target, env, glob)
            val = self.binop(st.op, cur, self.eval(st.value, env, glob))
            self.assign(st.target, val, env, glob)
        elif isinstance(st, ast.AnnAssign):
            if st.value is not None:
                self.assign(st.target, self.eval(st.value, env, glob), env, glob)
        elif isinstance(st, ast.For):
            it = self.eval(st.iter, env, glob)
            try:
                items = list(it)
            except TypeError:
                raise Untranslatable(f"loop over a non-concrete iterable `{ast.unparse(st.iter)}`")
            for item in items:
                self.assign(st.target, item, env, glob)
                self.exec_block(st.body, env, glob)
        elif isinstance(st, ast.If):
            self.exec_if(st, env, glob)
        elif isinstance(st, ast.Return):
            raise _Return(self.eval(st.value, env, glob) if st.value is not None else None)
        elif isinstance(st, (ast.Pass, ast.Delete)):
            return
        elif isinstance(st, ast.Raise):
            raise Untranslatable("forward reaches a `raise`")
        else:
            raise Untranslatable(f"statement `{ast.unparse(st)[:60]}`")

    def assign(self, target, value, env, glob):
        if isinstance(target, ast.Name):
            env[target.id] = value
        elif isinstance(target, (ast.Tuple, ast.List)):
            vals = list(value)
            if len(vals) != len(target.elts):
                raise Untranslatable("unpacking length mismatch")
            for t, v in zip(target.elts, vals):
                self.assign(t, v, env, glob)
        elif isinstance(target, ast.Subscript):
            base = self.eval(target.value, env, glob)
            if isinstance(base, PadSpec):
                raise Untranslatable("unconditional write into the padding list")
            if isinstance(base, list):
                base[self.eval(target.slice, env, glob)] = value
            else:
                raise Untranslatable(f"assignment to `{ast.unparse(target)}`")
        else:
            raise Untranslatable(f"assignment to `{ast.unparse(target)}`")

    def exec_if(self, st, env, glob):
        try:
            cond = self.eval(st.test, env, glob)
        except Symbolic:
            cond = None
        if cond is not None and not isinstance(cond, (Tok, Opaque, ShapeDim, PadSpec, _Ne)):
            self.exec_block(st.body if cond else st.orelse, env, glob)
            return
        # ---- the symbolic idioms
        if isinstance(cond, _Ne):
            # `if a.shape[ax] != b.shape[ax]: padding[i] = 1`
            if st.orelse or len(st.body) != 1 or not isinstance(st.body[0], ast.Assign):
                raise Untranslatable("unexpected body of a shape comparison")
            tgt = st.body[0].targets[0]
            if not (isinstance(tgt, ast.Subscript) and isinstance(tgt.value, ast.Name)):
                raise Untranslatable("unexpected body of a shape comparison")
            lst = env.get(tgt.value.id)
            if isinstance(lst, list) and all(v == 0 for v in lst):
                lst = env[tgt.value.id] = PadSpec(len(lst))
            if not isinstance(lst, PadSpec):
                raise Untranslatable("shape comparison does not fill a zero-initialised padding list")
            idx = self.eval(tgt.slice, env, glob)
            val = self.eval(st.body[0].value, env, glob)
            if val != 1 or idx != 2 * (-cond.axis) - 1:
                raise Untranslatable(f"padding[{idx}] = {val} for axis {cond.axis}: not `pad the end of that axis by one`")
            if lst.cur is None:
                lst.cur, lst.ref = cond.a, cond.b
            elif lst.cur is not cond.a or lst.ref is not cond.b:
                raise Untranslatable("padding list compares different tensor pairs")
            lst.entries[idx] = cond.axis
            return
        src = ast.unparse(st.test).replace(" ", "")
        if src.startswith("sum(") and src.endswith(")!=0") and not st.orelse:
            inner = self.eval(st.test.left.args[0], env, glob) if isinstance(st.test, ast.Compare) else None
            if isinstance(inner, PadSpec):
                self.exec_block(st.body, env, glob)
                return
            if isinstance(inner, Opaque) and inner.tag == "pow2pads":
                if len(st.body) == 1 and isinstance(st.body[0], ast.Assign) and isinstance(st.body[0].value, ast.Subscript) \
                        and ast.unparse(st.body[0].value).count("inp_pad") == 6:
                    tok = self.eval(st.body[0].value.value, env, glob)
                    self.assign(st.body[0].targets[0], self._emit_op([f".unpadPow2 {inner.k}"], tok), env, glob)
                    return
        raise Untranslatable(f"condition `{ast.unparse(st.test)[:60]}` is neither concrete nor a known idiom")

    # ---- expressions
    def binop(self, op, a, b):
        if isinstance(a, Tok) and isinstance(b, Tok):
            return self.same(a, b)
        if isinstance(a, Tok):
            return self._derived(a)
        if isinstance(b, Tok):
            return self._derived(b)
        if isinstance(a, Opaque) or isinstance(b, Opaque):
            return Opaque("arith")
        import operator as o
        table = {ast.Add: o.add, ast.Sub: o.sub, ast.Mult: o.mul, ast.FloorDiv: o.floordiv, ast.Mod: o.mod, ast.Pow: o.pow,
                 ast.Div: o.truediv, ast.BitOr: o.or_, ast.BitAnd: o.and_}
        if type(op) not in table:
            raise Untranslatable(f"operator {type(op).__name__}")
        return table[type(op)](a, b)

    def eval(self, node, env, glob):  # noqa: C901
        import torch
        import torch.nn as nn

        if isinstance(node, ast.Constant):
            return node.value
        if isinstance(node, ast.Name):
            if node.id in env:
                return env[node.id]
            if node.id in glob:
                return glob[node.id]
            import builtins
            if hasattr(builtins, node.id):
                return getattr(builtins, node.id)
            raise Untranslatable(f"unbound name {node.id}")
        if isinstance(node, ast.Attribute):
            v = self.eval(node.value, env, glob)
            if isinstance(v, Tok):
                if node.attr == "shape":
                    return ShapeOf(v)
                if node.attr in ("dtype", "device"):
                    return Opaque(node.attr)
                return _BoundTok(v, node.attr)
            if isinstance(v, (Opaque, ShapeOf)):
                return Opaque("attr")
            return getattr(v, node.attr)
        if isinstance(node, (ast.Tuple, ast.List)):
            out = []
            for e in node.elts:
                if isinstance(e, ast.Starred):
                    out.extend(list(self.eval(e.value, env, glob)))
                else:
                    out.append(self.eval(e, env, glob))
            return tuple(out) if isinstance(node, ast.Tuple) else out
        if isinstance(node, ast.Slice):
            return slice(*(None if p is None else self.eval(p, env, glob) for p in (node.lower, node.upper, node.step)))
        if isinstance(node, ast.Subscript):
            base = self.eval(node.value, env, glob)
            if isinstance(base, ShapeOf):
                sl = self.eval(node.slice, env, glob)
                if isinstance(sl, slice):
                    if sl.step is None and sl.stop is None and sl.start in (-2, -3, 2):
                        return ShapeDims(base.tok)
                    raise Untranslatable(f"shape slice `{ast.unparse(node)}`")
                return ShapeDim(base.tok, sl)
            if isinstance(base, Tok):
                elts = node.slice.elts if isinstance(node.slice, ast.Tuple) else [node.slice]
                for pos, e in enumerate(elts):
                    full = isinstance(e, ast.Slice) and e.lower is None and e.upper is None and e.step is None
                    if pos in (2, 3) and not full and len(elts) <= 4:
                        raise Untranslatable(f"spatial slicing `{ast.unparse(node)[:50]}`")
                    if len(elts) == 5 and pos in (2, 3) and not full:
                        raise Untranslatable(f"spatial slicing `{ast.unparse(node)[:50]}`")
                return self._derived(base)
            if isinstance(base, (Opaque, PadSpec)):
                return Opaque("item")
            return base[self.eval(node.slice, env, glob)]
        if isinstance(node, ast.UnaryOp):
            v = self.eval(node.operand, env, glob)
            if isinstance(v, Tok):
                return self._derived(v)
            if isinstance(node.op, ast.USub):
                return -v
            if isinstance(node.op, ast.Not):
                return not v
            return +v
        if isinstance(node, ast.BinOp):
            return self.binop(node.op, self.eval(node.left, env, glob), self.eval(node.right, env, glob))
        if isinstance(node, ast.BoolOp):
            vals = [self.eval(v, env, glob) for v in node.values]
            if any(isinstance(v, (Tok, Opaque)) for v in vals):
                raise Symbolic()
            if any(isinstance(v, _PadBit) for v in vals):
                if isinstance(node.op, ast.Or) and all(isinstance(v, _PadBit) or v in (0, False) for v in vals):
                    return True       # `if pad_right or pad_bottom:` guards the pad; `padTop` pads only where the sizes differ
                raise Untranslatable(f"condition on pad amounts `{ast.unparse(node)[:50]}`")
            return all(vals) if isinstance(node.op, ast.And) else any(vals)
        if isinstance(node, ast.Compare):
            left = self.eval(node.left, env, glob)
            if len(node.ops) == 1:
                right = self.eval(node.comparators[0], env, glob)
                op = node.ops[0]
                if isinstance(op, ast.Is):
                    return left is right
                if isinstance(op, ast.IsNot):
                    return left is not right
                if isinstance(left, ShapeDim) and isinstance(right, ShapeDim):
                    if isinstance(op, ast.NotEq) and left.axis == right.axis:
                        return _Ne(left.tok, right.tok, left.axis)
                    raise Symbolic()
                if isinstance(left, (Opaque, PadSpec, Tok, ShapeDim)) or isinstance(right, (Opaque, PadSpec, Tok, ShapeDim)):
                    raise Symbolic()
            import operator as o
            table = {ast.Eq: o.eq, ast.NotEq: o.ne, ast.Lt: o.lt, ast.LtE: o.le, ast.Gt: o.gt, ast.GtE: o.ge,
                     ast.In: lambda a, b: a in b, ast.NotIn: lambda a, b: a not in b}
            res = True
            for op, c in zip(node.ops, node.comparators):
                right = self.eval(c, env, glob)
                res = res and table[type(op)](left, right)
                left = right
            return res
        if isinstance(node, ast.IfExp):
            test = self.eval(node.test, env, glob)
            if isinstance(test, _Ne):
                # `1 if a.shape[ax] != b.shape[ax] else 0`: the amount by which axis `ax` of `a` is padded
                if self.eval(node.body, env, glob) == 1 and self.eval(node.orelse, env, glob) == 0:
                    return _PadBit(test)
                raise Untranslatable(f"conditional expression on a shape comparison `{ast.unparse(node)[:50]}`")
            return self.eval(node.body if test else node.orelse, env, glob)
        if isinstance(node, ast.ListComp):
            if len(node.generators) != 1 or node.generators[0].ifs:
                raise Untranslatable("list comprehension")
            out = []
            for item in list(self.eval(node.generators[0].iter, env, glob)):
                sub = dict(env)
                self.assign(node.generators[0].target, item, sub, glob)
                out.append(self.eval(node.elt, sub, glob))
            return out
        if isinstance(node, ast.Call):
            return self.call(node, env, glob)
        raise Untranslatable(f"expression `{ast.unparse(node)[:60]}`")

    def call(self, node, env, glob):  # noqa: C901
        import torch
        import torch.nn as nn

        ftxt = ast.unparse(node.func)
        args = []
        for a in node.args:
            if isinstance(a, ast.Starred):
                v = self.eval(a.value, env, glob)
                args.extend(list(v) if not isinstance(v, Opaque) else [v])
            else:
                args.append(self.eval(a, env, glob))
        kwargs = {k.arg: self.eval(k.value, env, glob) for k in node.keywords if k.arg}
        # primitives by name
        if isinstance(node.func, ast.Attribute) and isinstance(node.func.value, ast.Name) and node.func.value.id == "self":
            obj = env["self"]
            prim = self.primitive(type(obj).__name__, node.func.attr, obj, args, kwargs)
            if prim is not NotImplemented:
                return prim
        if ftxt == "pad_to_pow_of_2":
            k = int(args[1])
            return (self._emit_op([f".padPow2 {k}"], args[0]), Opaque("pow2pads", k=k))
        if ftxt in _ELEMENTWISE_FUNCS:
            return self._derived(args[0])
        if ftxt in ("F.avg_pool2d", "F.avg_pool3d", "F.max_pool2d"):
            k, s, p = self._iso(kwargs.get("kernel_size", args[1] if len(args) > 1 else None)), \
                self._iso(kwargs.get("stride", args[2] if len(args) > 2 else kwargs.get("kernel_size"))), \
                self._iso(kwargs.get("padding", 0))
            if p != 0:
                raise Untranslatable("padded pooling")
            return self._emit_op([f".avgPool {k} {s}"], args[0])
        if ftxt == "F.pad":
            spec = args[1]
            mode = args[2] if len(args) > 2 else kwargs.get("mode", "constant")
            if isinstance(spec, (list, tuple)) and any(isinstance(v, _PadBit) for v in spec):
                # `[0, pad_right, 0, pad_bottom]` written out: the same information as the filled `padding` list
                ps = PadSpec(len(spec))
                for i, v in enumerate(spec):
                    if i % 2 == 0:
                        if v != 0:
                            raise Untranslatable("padding at the start of an axis")
                    elif isinstance(v, _PadBit):
                        if i != 2 * (-v.ne.axis) - 1:
                            raise Untranslatable(f"pad amount of axis {v.ne.axis} at position {i} of the F.pad list")
                        if ps.cur is None:
                            ps.cur, ps.ref = v.ne.a, v.ne.b
                        elif ps.cur is not v.ne.a or ps.ref is not v.ne.b:
                            raise Untranslatable("padding list compares different tensor pairs")
                        ps.entries[i] = v.ne.axis
                    elif v != 0:
                        raise Untranslatable("F.pad outside the known idiom")
                if ps.cur is not None and ps.cur.sid != args[0].sid:
                    raise Untranslatable("the padded tensor is not the compared one")
                spec = ps
            if isinstance(spec, PadSpec) and mode == "reflect" and spec.cur is not None and len(spec.entries) == spec.n // 2:
                # (when the padded tensor is no longer the compared one — statements re-ordered — the operation is still
                # emitted where it stands: the program then differs from the model and the bridge lemma fails)
                if args[0].sid != self.cur.sid:
                    raise Untranslatable("pad of a tensor that is not the current one")
                self.events.append(("padto", spec.ref))
                self.nbase += 1
                out = Tok(self.nbase, 0, len(self.events) - 1)
                self.cur = out
                return out
            raise Untranslatable("F.pad outside the known idiom")
        if ftxt in ("torch.cat", "torch.concatenate", "torch.concat"):
            items = list(args[0])
            dim = kwargs.get("dim", args[1] if len(args) > 1 else 0)
            if dim != 1 or not all(isinstance(t, Tok) for t in items):
                raise Untranslatable("torch.cat not along the channel axis")
            out = items[0]
            for t in items[1:]:
                out = self.same(out, t)
            return self._derived(out) if len({t.sid for t in items}) == 1 else out
        if ftxt == "torch.stack":
            return self._derived(list(args[0])[0])
        if ftxt in ("torch.zeros", "torch.tensor", "torch.ones"):
            return Opaque("tensor")
        f = self.eval(node.func, env, glob)
        if isinstance(node.func, ast.Attribute) and not isinstance(f, (_BoundTok, nn.Module)):
            # helper extraction: `self._helper(...)` / `ClassName._helper(...)` (methods and static methods of repo modules) are
            # inlined at the call site, so that the program does not depend on which method a statement sits in
            try:
                owner = self.eval(node.func.value, env, glob)
            except Untranslatable:
                owner = None
            cls = owner if isinstance(owner, type) else type(owner)
            if (isinstance(owner, nn.Module) or (isinstance(owner, type) and issubclass(owner, nn.Module))) \
                    and not cls.__module__.startswith("torch.") and callable(f) and node.func.attr in _all_dict(cls):
                return self.inline(owner, node.func.attr, args, kwargs)
        if isinstance(f, _BoundTok):
            if f.attr in _NEUTRAL_METHODS:
                return f.tok
            if f.attr == "size":
                return ShapeDim(f.tok, args[0] - 4 if args and args[0] >= 0 else args[0]) if args else ShapeOf(f.tok)
            if f.attr in ("abs", "sqrt"):
                return self._derived(f.tok)
            raise Untranslatable(f"tensor method {f.attr}")
        if isinstance(f, nn.Module):
            return self.call_module(f, args, kwargs)
        if f is sum and args and isinstance(args[0], (PadSpec, Opaque)):
            raise Symbolic()
        if f in (range, len, zip, enumerate, sum, int, list, tuple, reversed, min, max, bool, float, abs, isinstance):
            return f(*args, **kwargs)
        if getattr(f, "__self__", None) is not None and isinstance(f.__self__, (list, dict)):
            return f(*args, **kwargs)
        raise Untranslatable(f"call `{ftxt}`")

    def _shape_ref(self, shape):
        if isinstance(shape, ShapeDims):
            return shape.tok
        if isinstance(shape, (tuple, list)) and len(shape) == 2 and all(isinstance(s, ShapeDim) for s in shape) \
                and shape[0].tok is shape[1].tok and (shape[0].axis, shape[1].axis) == (-2, -1):
            return shape[0].tok
        raise Untranslatable("crop target is not the spatial shape of one tensor")

    def primitive(self, cls, meth, obj, args, kwargs):
        if meth == "norm" and cls in ("NormUnetModel2d", "NormUnetModel3d", "NormConv2dGRU"):
            return (self._derived(args[0]), Opaque("mean"), Opaque("std"))
        if meth == "unnorm" and cls in ("NormUnetModel2d", "NormUnetModel3d", "NormConv2dGRU"):
            return self._derived(args[0])
        if meth == "pad" and cls in ("NormUnetModel2d", "NormUnetModel3d"):
            return (self._emit_op([".pad16"], args[0]), Opaque("pad16sizes"))
        if meth == "unpad" and cls in ("NormUnetModel2d", "NormUnetModel3d"):
            return self._emit_op([".unpad16"], args[0])
        if meth == "pad" and cls in ("MWCNN", "DUB"):
            return self._emit_op([".padEven"], args[0])
        if meth == "crop_to_shape" and cls in ("MWCNN", "DUB", "DIDN"):
            ref = self._shape_ref(args[1])
            if args[0].sid != self.cur.sid:
                raise Untranslatable("crop of a tensor that is not the current one")
            self.events.append(("cropto", ref))
            self.nbase += 1
            out = Tok(self.nbase, 0, len(self.events) - 1)
            self.cur = out
            return out
        return NotImplemented

    # ---- events -> stack program
    def linearize(self):
        uses = {}
        for i, ev in enumerate(self.events):
            if ev[0] in ("same", "padto", "cropto"):
                uses.setdefault(ev[1].tid, []).append(i)
        toks = {t.tid: t for t in self.inputs}
        for ev in self.events:
            if ev[0] == "op":
                toks[ev[2].tid] = ev[2]
        # derived tokens (element-wise results) are referenced by partner events too
        refs = {}
        for ev in self.events:
            if ev[0] in ("same", "padto", "cropto"):
                refs[ev[1].tid] = ev[1]
        push_after = {}
        for tid, r in refs.items():
            push_after.setdefault(r.produced_at, []).append(tid)
        out, stack = [], []
        for tid in sorted(push_after.get(-1, [])):
            out.append(".push")
            stack.append(tid)
        for i, ev in enumerate(self.events):
            kind = ev[0]
            if kind == "op":
                out.extend(ev[1])
            elif kind == "emit":
                out.append(".emit")
            else:
                ref = ev[1]
                later = [j for j in uses[ref.tid] if j > i]
                if not stack or stack[-1] != ref.tid:
                    # the remembered tensor is not on top (statements were re-ordered): emit the operation as written — the
                    # program then differs from the model and the bridge lemma fails, which is the intended alarm
                    out.append({"same": ".popSame", "padto": ".padTop", "cropto": ".cropTop"}[kind])
                    if ref.tid in stack and not later:
                        stack.remove(ref.tid)
                    continue
                if kind == "same":
                    out.append(".popSame")
                    if later:
                        out.append(".push")
                    else:
                        stack.pop()
                elif kind == "padto":
                    out.append(".padTop")
                    if not later:
                        out.append(".pop")
                        stack.pop()
                else:
                    out.append(".cropTop")
                    if not later:
                        out.append(".pop")
                        stack.pop()
            for tid in sorted(push_after.get(i, [])):
                out.append(".push")
                stack.append(tid)
        out.extend(".pop" for _ in stack)      # left-overs (only after re-ordering): keep the program well formed
        return out


class _Return(Exception):
    def __init__(self, value):
        self.value = value


class _BoundTok:
    def __init__(self, tok, attr):
        self.tok, self.attr = tok, attr


class _Ne:
    def __init__(self, a, b, axis):
        self.a, self.b, self.axis = a, b, axis


class _PadBit:
    """`1 if a.shape[ax] != b.shape[ax] else 0`"""

    def __init__(self, ne):
        self.ne = ne


def _all_dict(cls):
    out = {}
    for c in reversed(cls.__mro__):
        if c.__module__.startswith("torch.") or c is object:
            continue
        out.update(c.__dict__)
    return out


def trace_forward(module, n_inputs=1, hooked=(), same_shape_inputs=True):
    """Shape program of `module.forward(x[, state])` as a list of Lean `Op` terms (strings)."""
    tr = Tracer(hooked)
    x = tr.new_input()
    args = [x]
    for _ in range(n_inputs - 1):
        # further tensor inputs (recurrent state) have the spatial shape of the first one
        args.append(Tok(x.base, x.off, -1))
    tr.call_module(module, args, {})
    return tr.linearize()
