"""C18 translation recipes: structural tables extracted from `direct/nn` (no arithmetic kernels).

* `reductions`      — every `.mean(…)`, `.std(…)`, `.var(…)`, `.sum(…)` of the anchored normalisation code
                      (NormUnetModel2d/3d.norm, NormConv2dGRU.norm, reduce_operator through the `_coil_dim` of every
                      network): rank of the (reshaped) view, whether its leading axis is the batch, the reduced axes;
* `globalReductions`— reductions without `dim` (over *all* axes, batch included) inside any nn.Module method of the zoo;
* `forwardWrites`   — per nn.Module method (except constructors): number of assignments to `self.*`.

Phase 3 (`c18_prims.py`):
* `primTable`       — function by function, every operation whose meaning depends on which axis is the batch (8 families);
* `modelFuncs`      — per zoo model, the functions of /repo/direct one evaluation executes (sys.setprofile on the real model);
* `effectRows`      — every way a forward path could keep state between calls (10 kinds);
* `normCtors`       — constructions of batch-statistics layers and whether running statistics are tracked;
* `unresolvedPrims` — call sites whose axis expression the scanner cannot resolve (not judged).
"""
from __future__ import annotations

import ast
import pathlib

from ..gen import EXTRA, REPO, Kernel, Untranslatable, register
from ..pyexpr import find_function, parse_file

BS = ("DirectVerif.Model.BatchSep",)
REDUCE = {"mean", "std", "var", "sum", "amax", "amin", "max", "min", "norm", "prod", "median"}
NORM_FUNCS = [
    ("direct/nn/unet/unet_2d.py", "NormUnetModel2d.norm"),
    ("direct/nn/unet/unet_3d.py", "NormUnetModel3d.norm"),
    ("direct/nn/recurrent/recurrent.py", "NormConv2dGRU.norm"),
]
SKIP_METHODS = {"__init__", "reset_parameters", "__repr__"}


def nn_files(repo: pathlib.Path):
    out = []
    for p in sorted((repo / "direct" / "nn").rglob("*.py")):
        n = p.name
        if n.endswith("_engine.py") or n in ("config.py", "__init__.py", "mri_models.py", "types.py", "get_nn_model_config.py"):
            continue
        if "ssl" in p.parts:
            continue
        out.append(p)
    return out


def _dims(call: ast.Call):
    """the `dim` argument of a reduction call -> list of ints, [] when absent, None when symbolic"""
    node = None
    if call.args:
        node = call.args[0]
    for kw in call.keywords:
        if kw.arg in ("dim", "axis"):
            node = kw.value
    if node is None:
        return []
    try:
        v = ast.literal_eval(node)
    except (ValueError, SyntaxError):
        return None
    if isinstance(v, bool):
        return []            # e.g. `.max(keepdim)` — not a dim
    if isinstance(v, int):
        return [v]
    if isinstance(v, (tuple, list)) and all(isinstance(x, int) for x in v):
        return list(v)
    return None


def norm_reductions(repo: pathlib.Path):
    rows = []
    for file, func in NORM_FUNCS:
        fn = find_function(parse_file(repo / file), func)
        batch = None
        views: dict[str, tuple[int, bool]] = {}
        for st in ast.walk(fn):
            if isinstance(st, ast.Assign) and isinstance(st.targets[0], ast.Tuple) and ast.unparse(st.value).endswith(".shape"):
                first = st.targets[0].elts[0]
                batch = first.id if isinstance(first, ast.Name) else None
        for st in ast.walk(fn):
            if (isinstance(st, ast.Assign) and isinstance(st.targets[0], ast.Name) and isinstance(st.value, ast.Call)
                    and isinstance(st.value.func, ast.Attribute) and st.value.func.attr in ("reshape", "view")):
                args = st.value.args
                first = args[0] if args else None
                views[st.targets[0].id] = (len(args), isinstance(first, ast.Name) and first.id == batch and batch is not None)
        found = 0
        for n in ast.walk(fn):
            if isinstance(n, ast.Call) and isinstance(n.func, ast.Attribute) and n.func.attr in REDUCE:
                recv = n.func.value
                if not (isinstance(recv, ast.Name) and recv.id in views):
                    raise Untranslatable(f"{func}: reduction `{ast.unparse(n)}` on something that is not a known view")
                d = _dims(n)
                if d is None:
                    raise Untranslatable(f"{func}: symbolic reduction axes in `{ast.unparse(n)}`")
                rank, bf = views[recv.id]
                rows.append((func, n.func.attr, rank, d, bf))
                found += 1
        if found == 0:
            raise Untranslatable(f"{func}: no reduction found")
    return rows


def coil_dims(repo: pathlib.Path):
    """(Class, value) for every `self._coil_dim = <int>` / `coil_dim: int = <int>` default in the zoo"""
    rows = []
    for p in nn_files(repo):
        tree = parse_file(p)
        for cls in [n for n in ast.walk(tree) if isinstance(n, ast.ClassDef)]:
            for n in ast.walk(cls):
                if isinstance(n, ast.Assign) and ast.unparse(n.targets[0]) == "self._coil_dim":
                    try:
                        rows.append((cls.name, int(ast.literal_eval(n.value))))
                    except (ValueError, SyntaxError):
                        if isinstance(n.value, ast.Name) and n.value.id == "coil_dim":
                            continue      # constructor parameter: its default is recorded below
                        raise Untranslatable(f"{cls.name}: symbolic _coil_dim `{ast.unparse(n.value)}`")
            for f in cls.body:
                if isinstance(f, ast.FunctionDef) and f.name == "__init__":
                    names = [a.arg for a in f.args.args]
                    defaults = f.args.defaults
                    for a, dflt in zip(names[len(names) - len(defaults):], defaults):
                        if a == "coil_dim":
                            rows.append((cls.name + ".coil_dim", int(ast.literal_eval(dflt))))
    return rows


def reduce_operator_axis(repo: pathlib.Path):
    """`reduce_operator` must sum over exactly its `dim` parameter"""
    fn = find_function(parse_file(repo / "direct/data/transforms.py"), "reduce_operator")
    calls = [n for n in ast.walk(fn) if isinstance(n, ast.Call) and isinstance(n.func, ast.Attribute) and n.func.attr in REDUCE]
    if len(calls) != 1 or calls[0].func.attr != "sum":
        raise Untranslatable("reduce_operator: expected exactly one `.sum(dim)`")
    c = calls[0]
    arg = c.args[0] if c.args else next((k.value for k in c.keywords if k.arg in ("dim", "axis")), None)
    if not (isinstance(arg, ast.Name) and arg.id == "dim"):
        raise Untranslatable(f"reduce_operator sums over `{ast.unparse(arg) if arg is not None else 'all axes'}`, expected `dim`")
    return True


def global_reductions(repo: pathlib.Path):
    rows = []
    for p in nn_files(repo):
        tree = parse_file(p)
        for cls in [n for n in tree.body if isinstance(n, ast.ClassDef)]:
            for f in [n for n in cls.body if isinstance(n, ast.FunctionDef) and n.name not in SKIP_METHODS]:
                for n in ast.walk(f):
                    if isinstance(n, ast.Call) and isinstance(n.func, ast.Attribute) and n.func.attr in REDUCE:
                        if isinstance(n.func.value, ast.Name) and n.func.value.id in ("np", "math"):
                            continue
                        if n.func.attr == "norm" and isinstance(n.func.value, ast.Attribute):
                            continue
                        is_torch_fn = isinstance(n.func.value, ast.Name) and n.func.value.id == "torch"
                        args = n.args[1:] if is_torch_fn else n.args
                        kws = {k.arg for k in n.keywords}
                        if not args and not ({"dim", "axis"} & kws):
                            rows.append((f"{cls.name}.{f.name}", n.func.attr))
    return rows


def forward_writes(repo: pathlib.Path):
    rows = []
    for p in nn_files(repo):
        tree = parse_file(p)
        for cls in [n for n in tree.body if isinstance(n, ast.ClassDef)]:
            for f in [n for n in cls.body if isinstance(n, ast.FunctionDef) and n.name not in SKIP_METHODS]:
                cnt = 0
                for n in ast.walk(f):
                    targets = []
                    if isinstance(n, ast.Assign):
                        targets = n.targets
                    elif isinstance(n, (ast.AugAssign, ast.AnnAssign)):
                        targets = [n.target]
                    for t in targets:
                        for sub in ast.walk(t):
                            if isinstance(sub, ast.Attribute) and isinstance(sub.value, ast.Name) and sub.value.id == "self" \
                                    and isinstance(sub.ctx, ast.Store):
                                cnt += 1
                    if isinstance(n, ast.Call) and isinstance(n.func, ast.Name) and n.func.id == "setattr" and n.args \
                            and isinstance(n.args[0], ast.Name) and n.args[0].id == "self":
                        cnt += 1
                    if isinstance(n, ast.Call) and isinstance(n.func, ast.Attribute) and n.func.attr in ("register_buffer", "add_module") \
                            and isinstance(n.func.value, ast.Name) and n.func.value.id == "self":
                        cnt += 1
                rows.append((f"{cls.name}.{f.name}", cnt))
    return rows


# ---- complete scan of direct/nn (nn.Module classes) + the reconstruction path of the engines --------------------------
ENGINE_METHODS = {"forward_function", "compute_sensitivity_map", "compute_model_per_coil", "_forward_operator", "_backward_operator"}
ENGINE_FUNCS = {"_process_output"}
# helper -> position of its `dim` argument
REDUCE_HELPERS = {"reduce_operator": 2, "complex_dot_product": 2, "root_sum_of_squares": 1}


def _all_nn_files(repo: pathlib.Path):
    return [p for p in sorted((repo / "direct" / "nn").rglob("*.py")) if p.name not in ("config.py", "__init__.py", "types.py")]


def _is_engine_file(p: pathlib.Path) -> bool:
    return p.name.endswith("_engine.py") or p.name == "mri_models.py"


def _scopes(repo: pathlib.Path):
    """yield (qualified name, FunctionDef, ClassDef or None, class attribute table) for every function on a forward /
    reconstruction path: all methods of nn.Module classes except constructors; the reconstruction methods of the engines"""
    trees = {p: parse_file(p) for p in _all_nn_files(repo)}
    own, bases = {}, {}
    for tree in trees.values():
        for node in tree.body:
            if isinstance(node, ast.ClassDef):
                own[node.name] = _class_attrs(node)
                bases[node.name] = [ast.unparse(b).split(".")[-1] for b in node.bases]

    def inherited(name, seen=()):
        out = {}
        for b in bases.get(name, []):
            if b in own and b not in seen:
                out.update(inherited(b, seen + (name,)))
        out.update(own.get(name, {}))
        return out

    for p, tree in trees.items():
        eng = _is_engine_file(p)
        for node in tree.body:
            if isinstance(node, ast.ClassDef):
                attrs = inherited(node.name)
                for f in node.body:
                    if not isinstance(f, ast.FunctionDef) or f.name in SKIP_METHODS:
                        continue
                    if eng and f.name not in ENGINE_METHODS:
                        continue
                    yield f"{node.name}.{f.name}", f, node, attrs
            elif isinstance(node, ast.FunctionDef) and ((eng and node.name in ENGINE_FUNCS) or (not eng and not node.name.startswith("__"))):
                if not eng and node.name in ("_get_relu_activation", "_get_model_config"):
                    continue
                yield node.name, node, None, {}


def _class_attrs(cls: ast.ClassDef):
    """literal values of `self.x = <literal>` in __init__ and literal defaults of its parameters"""
    out = {}
    for f in cls.body:
        if isinstance(f, ast.FunctionDef) and f.name == "__init__":
            names = [a.arg for a in f.args.args]
            for a, d in zip(names[len(names) - len(f.args.defaults):], f.args.defaults):
                try:
                    out["param:" + a] = ast.literal_eval(d)
                except (ValueError, SyntaxError):
                    pass
            for n in ast.walk(f):
                if isinstance(n, ast.Assign) and len(n.targets) == 1 and isinstance(n.targets[0], ast.Attribute) \
                        and isinstance(n.targets[0].value, ast.Name) and n.targets[0].value.id == "self":
                    try:
                        out[n.targets[0].attr] = ast.literal_eval(n.value)
                    except (ValueError, SyntaxError):
                        if isinstance(n.value, ast.Name) and ("param:" + n.value.id) in out:
                            out[n.targets[0].attr] = out["param:" + n.value.id]
    return out


def _resolve_dims(node, fn: ast.FunctionDef, cls, attrs):
    """dims argument -> (kind, axes): kind 0 = known axes, 1 = all axes (no dim), 2 = unresolved"""
    if node is None:
        return 1, []
    try:
        v = ast.literal_eval(node)
    except (ValueError, SyntaxError):
        v = None
        if isinstance(node, ast.Attribute) and isinstance(node.value, ast.Name) and node.value.id == "self" and node.attr in attrs:
            v = attrs[node.attr]
        elif isinstance(node, ast.Name):
            # a parameter: its default, else the value every call site in the class passes
            names = [a.arg for a in fn.args.args]
            if node.id in names:
                i = names.index(node.id)
                j = i - (len(names) - len(fn.args.defaults))
                if j >= 0:
                    try:
                        v = ast.literal_eval(fn.args.defaults[j])
                    except (ValueError, SyntaxError):
                        v = None
                if v is None and cls is not None:
                    vals = set()
                    for c in ast.walk(cls):
                        if isinstance(c, ast.Call) and isinstance(c.func, ast.Attribute) and c.func.attr == fn.name:
                            off = 0 if any(isinstance(d, ast.Name) and d.id == "staticmethod" for d in fn.decorator_list) else 1
                            k = i - off
                            arg = c.args[k] if 0 <= k < len(c.args) else next((kw.value for kw in c.keywords if kw.arg == node.id), None)
                            if arg is not None:
                                kk, ax = _resolve_dims(arg, fn, None, attrs)
                                vals.add((kk, tuple(ax)))
                    if len(vals) == 1:
                        kk, ax = vals.pop()
                        return kk, list(ax)
        if v is None:
            return 2, []
    if isinstance(v, bool):
        return 1, []
    if isinstance(v, int):
        return 0, [v]
    if isinstance(v, (tuple, list)) and all(isinstance(x, int) and not isinstance(x, bool) for x in v):
        return 0, list(v)
    return 2, []


def all_reductions(repo: pathlib.Path):
    """every reduction call on a forward / reconstruction path: (function, op, kind, axes)"""
    rows = []
    for name, fn, cls, attrs in _scopes(repo):
        for n in ast.walk(fn):
            if not isinstance(n, ast.Call):
                continue
            op = None
            recv_is_lib = False
            ftxt = ast.unparse(n.func)
            helper = ftxt.split(".")[-1]
            if helper in REDUCE_HELPERS and (ftxt == helper or ftxt.startswith("T.") or ftxt.startswith("transforms.")):
                # reductions hidden in direct.data.transforms helpers: the reduced axis is their `dim` argument
                pos = REDUCE_HELPERS[helper]
                dim = next((k.value for k in n.keywords if k.arg == "dim"), None)
                if dim is None and len(n.args) > pos:
                    dim = n.args[pos]
                if dim is None:
                    rows.append((name, helper, 0, [0]))       # their default `dim=0`
                else:
                    kind, axes = _resolve_dims(dim, fn, cls, attrs)
                    rows.append((name, helper, kind, axes))
                continue
            if isinstance(n.func, ast.Attribute) and isinstance(n.func.value, ast.Name) and n.func.value.id == "self":
                continue                                      # a method of the module itself (e.g. `self.norm(x, groups)`)
            if isinstance(n.func, ast.Attribute) and n.func.attr in REDUCE:
                op = n.func.attr
                base = n.func.value
                recv_is_lib = isinstance(base, ast.Name) and base.id in ("np", "math", "numpy")
                is_torch_fn = isinstance(base, ast.Name) and base.id in ("torch", "F")
                args = n.args[1:] if is_torch_fn else n.args
            elif ast.unparse(n.func) in ("F.normalize", "torch.nn.functional.normalize"):
                op, args = "normalize", n.args[2:] if len(n.args) > 2 else []
            if op is None or recv_is_lib:
                continue
            dim = next((k.value for k in n.keywords if k.arg in ("dim", "axis")), None)
            if dim is None and args:
                dim = args[0]
            if op == "normalize" and dim is None:
                rows.append((name, op, 0, [1]))
                continue
            if op == "norm" and dim is None and args:
                dim = args[1] if len(args) > 1 else None      # norm(p, dim)
            kind, axes = _resolve_dims(dim, fn, cls, attrs)
            rows.append((name, op, kind, axes))
    return rows


def reshape_rows(repo: pathlib.Path):
    """`view(-1, …)`, `reshape(-1, …)`, `flatten(…)`: (function, op, 1 when it is the per-sample broadcast idiom `(-1, 1, 1, …)`)"""
    rows = []
    for name, fn, _cls, _attrs in _scopes(repo):
        for n in ast.walk(fn):
            if isinstance(n, ast.Call) and isinstance(n.func, ast.Attribute) and n.func.attr in ("view", "reshape", "flatten"):
                if n.func.attr == "flatten":
                    start = n.args[0] if n.args else next((k.value for k in n.keywords if k.arg == "start_dim"), None)
                    try:
                        sd = 0 if start is None else int(ast.literal_eval(start))
                    except (ValueError, SyntaxError):
                        sd = 0
                    rows.append((name, "flatten", 1 if sd >= 1 else 0))
                    continue
                if not n.args:
                    continue
                first = n.args[0]
                if not (isinstance(first, ast.UnaryOp) and isinstance(first.op, ast.USub) and isinstance(first.operand, ast.Constant)
                        and first.operand.value == 1):
                    continue
                rest = n.args[1:]
                idiom = bool(rest) and all((isinstance(a, ast.Constant) and a.value == 1) or
                                           (isinstance(a, ast.Starred) and ("ones" in ast.unparse(a) or "(1,)" in ast.unparse(a)))
                                           for a in rest)
                rows.append((name, n.func.attr, 1 if idiom else 0))
    return rows


def seed_and_dropout_rows(repo: pathlib.Path):
    seeds, drops = [], []
    for name, fn, _cls, _attrs in _scopes(repo):
        for n in ast.walk(fn):
            if isinstance(n, ast.Call):
                txt = ast.unparse(n.func)
                if txt.endswith("manual_seed") or txt.endswith("random.seed") or txt in ("np.random.seed", "torch.seed", "torch.set_rng_state"):
                    seeds.append((name, txt))
                if txt in ("F.dropout", "F.dropout2d", "F.dropout3d", "torch.nn.functional.dropout", "torch.dropout",
                           "torch.rand", "torch.randn", "torch.rand_like", "torch.randn_like", "torch.bernoulli", "torch.randint"):
                    ok = any(k.arg == "training" and ast.unparse(k.value) == "self.training" for k in n.keywords)
                    drops.append((name, txt, 1 if ok else 0))
    return seeds, drops


def coil_order_rows(repo: pathlib.Path):
    """operations that single out a coil or depend on the coil order: an integer index at the coil position (`x[:, 0]`),
    `select(coil, <constant>)`, sorting / arg-reductions / flips"""
    rows = []
    for name, fn, cls, attrs in _scopes(repo):
        for n in ast.walk(fn):
            if isinstance(n, ast.Subscript) and isinstance(n.slice, ast.Tuple) and len(n.slice.elts) >= 2:
                e0, e1 = n.slice.elts[0], n.slice.elts[1]
                full0 = isinstance(e0, ast.Slice) and e0.lower is None and e0.upper is None and e0.step is None
                if full0 and isinstance(e1, ast.Constant) and isinstance(e1.value, int) and not isinstance(e1.value, bool):
                    rows.append((name, f"index[:, {e1.value}]"))
            if isinstance(n, ast.Call) and isinstance(n.func, ast.Attribute):
                if n.func.attr == "select" and len(n.args) == 2:
                    kind, ax = _resolve_dims(n.args[0], fn, cls, attrs)
                    try:
                        idx = ast.literal_eval(n.args[1])
                    except (ValueError, SyntaxError):
                        idx = None
                    if idx is not None and (kind != 0 or ax == [1]):
                        rows.append((name, f"select(coil, {idx})"))
                if n.func.attr in ("sort", "argsort", "argmax", "argmin", "topk", "flip", "roll", "cumsum", "cumprod"):
                    rows.append((name, n.func.attr))
    return rows


def _s(x):
    return '"' + x + '"'


def _extra():
    status, chunks = {}, []
    # 1. normalisation reductions + coil sums
    try:
        rows = norm_reductions(REPO)
        reduce_operator_axis(REPO)
        cd = coil_dims(REPO)
        items = [f"⟨{_s(fn)}, {_s(op)}, {rank}, {[int(a) for a in axes]}, {'true' if bf else 'false'}⟩" for fn, op, rank, axes, bf in rows]
        items += [f"⟨{_s('reduce_operator@' + c)}, \"sum\", 5, [{v}], true⟩" for c, v in cd]
        chunks.append("/-- reduction table of the anchored normalisation code and of coil reduction (one entry per class that fixes a coil axis) -/\n"
                      "def reductions : BatchSep.Table :=\n  [" + ",\n   ".join(items) + "]\n")
        status["reductions"] = "translated"
    except (Untranslatable, ValueError) as e:
        chunks.append(f"/-- SKIPPED ({e}) -/\ndef reductions : BatchSep.Table := []\n")
        status["reductions"] = f"skipped: {e}"
    # 2. reductions over all axes anywhere in the zoo's module methods
    try:
        g = global_reductions(REPO)
        chunks.append("/-- reductions without `dim` (all axes, batch included) in nn.Module methods of the zoo -/\n"
                      "def globalReductions : List (String × String) :=\n  [" + ", ".join(f"({_s(a)}, {_s(b)})" for a, b in g) + "]\n")
        status["globalReductions"] = "translated"
    except Untranslatable as e:
        chunks.append(f"/-- SKIPPED ({e}) -/\ndef globalReductions : List (String × String) := [(\"RIM.forward\", \"max\"), (\"ConjGrad.cg\", \"mean\")]\n")
        status["globalReductions"] = f"skipped: {e}"
    # 3. writes to self.* outside constructors
    try:
        w = forward_writes(REPO)
        chunks.append("/-- (Class.method, number of assignments to self.*) for every nn.Module method of the zoo except constructors -/\n"
                      "def forwardWrites : BatchSep.Writes :=\n  [" + ", ".join(f"({_s(a)}, {b})" for a, b in w) + "]\n")
        status["forwardWrites"] = "translated"
    except Untranslatable as e:
        chunks.append(f"/-- SKIPPED ({e}) -/\ndef forwardWrites : BatchSep.Writes := []\n")
        status["forwardWrites"] = f"skipped: {e}"
    # 4. the complete tables
    try:
        rows = all_reductions(REPO)
        chunks.append("/-- every reduction on a forward / reconstruction path of direct/nn: (function, op, kind, axes); kind 0 = the listed\n"
                      "axes, 1 = all axes (no `dim`), 2 = axes could not be resolved -/\n"
                      "def allReductions : List BatchSep.Row :=\n  [" +
                      ",\n   ".join(f"⟨{_s(a)}, {_s(b)}, {k}, {[int(x) for x in ax]}⟩" for a, b, k, ax in rows) + "]\n")
        status["allReductions"] = "translated"
    except Untranslatable as e:
        chunks.append(f"/-- SKIPPED ({e}) -/\ndef allReductions : List BatchSep.Row := []\n")
        status["allReductions"] = f"skipped: {e}"
    try:
        rr = reshape_rows(REPO)
        chunks.append("/-- `view(-1, …)` / `reshape(-1, …)` / `flatten`: (function, op, 1 = per-sample broadcast idiom or batch kept) -/\n"
                      "def reshapeRows : List (String × String × Nat) :=\n  [" + ", ".join(f"({_s(a)}, {_s(b)}, {c})" for a, b, c in rr) + "]\n")
        seeds, drops = seed_and_dropout_rows(REPO)
        chunks.append("/-- RNG seeding inside forward paths -/\ndef seedCalls : List (String × String) :=\n  ["
                      + ", ".join(f"({_s(a)}, {_s(b)})" for a, b in seeds) + "]\n")
        chunks.append("/-- functional dropout / random draws inside forward paths: (function, call, 1 = guarded by training=self.training) -/\n"
                      "def randomCalls : List (String × String × Nat) :=\n  [" + ", ".join(f"({_s(a)}, {_s(b)}, {c})" for a, b, c in drops) + "]\n")
        co = coil_order_rows(REPO)
        chunks.append("/-- operations that single out a coil or depend on the coil order -/\ndef coilOrderOps : List (String × String) :=\n  ["
                      + ", ".join(f"({_s(a)}, {_s(b)})" for a, b in co) + "]\n")
        status["structureScans"] = "translated"
    except Untranslatable as e:
        chunks.append(f"/-- SKIPPED ({e}) -/\ndef reshapeRows : List (String × String × Nat) := []\n"
                      "def seedCalls : List (String × String) := []\ndef randomCalls : List (String × String × Nat) := []\n"
                      "def coilOrderOps : List (String × String) := []\n")
        status["structureScans"] = f"skipped: {e}"
    t5, s5 = _phase3_tables()
    chunks.append(t5)
    status.update(s5)
    return "\n".join(chunks), status


def norm_ctor_rows(repo: pathlib.Path):
    """every construction of a batch-statistics layer in direct/nn: (Class, layer, form) with form 0 = running statistics
    are tracked (the default), 1 = `track_running_stats=False` (batch statistics also in eval mode), 2 = not a literal"""
    rows = []
    for p in sorted((repo / "direct" / "nn").rglob("*.py")):
        tree = parse_file(p)
        for cls in [n for n in ast.walk(tree) if isinstance(n, ast.ClassDef)]:
            for n in ast.walk(cls):
                if isinstance(n, ast.Call):
                    last = ast.unparse(n.func).split(".")[-1]
                    if "BatchNorm" in last and last[0].isupper():
                        kw = next((k.value for k in n.keywords if k.arg == "track_running_stats"), None)
                        if kw is None and len(n.args) > 4:
                            kw = n.args[4]
                        form = 0 if kw is None else (0 if ast.unparse(kw) == "True" else 1 if ast.unparse(kw) == "False" else 2)
                        mom = next((k.value for k in n.keywords if k.arg == "momentum"), None)
                        if mom is not None and ast.unparse(mom) == "None" and form == 0:
                            form = 0
                        rows.append((cls.name, last, form))
    return rows


def _phase3_tables():
    """per-function primitive tables, per-model function lists (runtime trace of the zoo), effect rows, norm-layer constructors"""
    from . import c18_prims as CP

    status, chunks = {}, []
    traced, terr = None, None
    try:
        traced = CP.trace_models(REPO)
        if not traced:
            terr = "no zoo model could be evaluated"
    except Exception as e:  # noqa: BLE001
        terr = f"cannot trace the zoo: {type(e).__name__}: {str(e)[:120]}"
    try:
        T = CP.build_tables(REPO, traced)
    except (Untranslatable, SyntaxError, OSError, ValueError) as e:
        chunks.append(f"/-- SKIPPED ({str(e)[:160]}) -/\ndef primTable : List BatchSep.FuncRow := []\n"
                      "def unresolvedPrims : List BatchSep.Prim := []\ndef modelFuncs : List BatchSep.ModelRow := []\n"
                      "def effectRows : List BatchSep.EffRow := []\ndef normCtors : List (String × String × Nat) := []\n")
        for k in ("primTable", "modelFuncs", "effectRows", "normCtors"):
            status[k] = f"skipped: {str(e)[:160]}"
        return "\n".join(chunks), status

    def prim(r):
        fn, fam, op, form, args, sink = r
        return f"⟨{_s(fn)}, {fam}, {_s(op)}, {form}, {[int(a) for a in args]}, {sink}⟩"

    names = T["functions"]
    index = {q: i for i, q in enumerate(names)}
    chunks.append("/-- every operation of a forward / reconstruction path of /repo/direct whose meaning depends on which axis is the\n"
                  "batch, function by function (static scan of direct/nn + every function of /repo/direct a zoo model executes) -/\n"
                  "def primTable : List BatchSep.FuncRow :=\n  [" +
                  ",\n   ".join(f"⟨{_s(q)}, [" + ", ".join(prim(r) for r in T["prims"][q]) + "]⟩" for q in names) + "]\n")
    status["primTable"] = "translated" + (f" ({len(T['unresolved'])} call sites with axis expressions the scanner cannot resolve: listed in unresolvedPrims)"
                                          if T["unresolved"] else "")
    chunks.append("/-- call sites whose axis / extent expression the scanner cannot resolve (not judged; the oracle covers them) -/\n"
                  "def unresolvedPrims : List BatchSep.Prim :=\n  [" + ", ".join(prim(r) for r in T["unresolved"]) + "]\n")
    if terr is None:
        chunks.append("/-- zoo model -> indices (into primTable) of the functions of /repo/direct one evaluation of a batch of two executes\n"
                      "(recorded with sys.setprofile on the real model) -/\n"
                      "def modelFuncs : List BatchSep.ModelRow :=\n  [" +
                      ",\n   ".join(f"({_s(e)}, {[index[q] for q in fs if q in index]})" for e, fs in T["models"].items()) + "]\n")
        status["modelFuncs"] = "translated"
    else:
        chunks.append(f"/-- SKIPPED ({terr}) -/\ndef modelFuncs : List BatchSep.ModelRow := []\n")
        status["modelFuncs"] = "skipped: " + terr
    chunks.append("/-- every way a forward path could keep state between calls -/\n"
                  "def effectRows : List BatchSep.EffRow :=\n  [" +
                  ", ".join(f"⟨{_s(a)}, {k}, {_s(d.replace(chr(34), chr(39)).replace(chr(92), '/'))}⟩" for a, k, d in T["effects"]) + "]\n")
    status["effectRows"] = "translated"
    try:
        nc = norm_ctor_rows(REPO)
        chunks.append("/-- constructions of batch-statistics layers: (class, layer, 0 = running statistics tracked) -/\n"
                      "def normCtors : List (String × String × Nat) :=\n  [" + ", ".join(f"({_s(a)}, {_s(b)}, {c})" for a, b, c in nc) + "]\n")
        status["normCtors"] = "translated"
    except (Untranslatable, SyntaxError) as e:
        chunks.append(f"/-- SKIPPED ({e}) -/\ndef normCtors : List (String × String × Nat) := []\n")
        status["normCtors"] = f"skipped: {e}"
    return "\n".join(chunks), status


# a (trivial) registered kernel only to pull the model import into Gen/C18.lean
def _marker(k: Kernel, fn) -> str:
    return f"def {k.name} : Int := 18\n"


register("C18", [Kernel("c18_marker", "direct/nn/unet/unet_2d.py", "NormUnetModel2d.norm", [], "18", _marker, imports=BS)])
EXTRA["C18"] = _extra
