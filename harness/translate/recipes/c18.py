"""C18 translation recipes: structural tables extracted from `direct/nn` (no arithmetic kernels).

* `reductions`      — every `.mean(…)`, `.std(…)`, `.var(…)`, `.sum(…)` of the anchored normalisation code
                      (NormUnetModel2d/3d.norm, NormConv2dGRU.norm, reduce_operator through the `_coil_dim` of every
                      network): rank of the (reshaped) view, whether its leading axis is the batch, the reduced axes;
* `globalReductions`— reductions without `dim` (over *all* axes, batch included) inside any nn.Module method of the zoo;
* `forwardWrites`   — per nn.Module method (except constructors): number of assignments to `self.*`.
"""
from __future__ import annotations

import ast
import pathlib

from ..gen import EXTRA, REPO, Kernel, Untranslatable, register
from ..pyexpr import find_function, parse_file

BS = ("DirectVerif.Model.BatchSep",)
REDUCE = {"mean", "std", "var", "sum", "amax", "amin", "max", "min", "norm", "prod", "median"}
NORM_FUNCS = [
    ("direct/nn/unet/unet_2d.py", "NormUnetModel2d.norm"),
    ("direct/nn/unet/unet_3d.py", "NormUnetModel3d.norm"),
    ("direct/nn/recurrent/recurrent.py", "NormConv2dGRU.norm"),
]
SKIP_METHODS = {"__init__", "reset_parameters", "__repr__"}


def nn_files(repo: pathlib.Path):
    out = []
    for p in sorted((repo / "direct" / "nn").rglob("*.py")):
        n = p.name
        if n.endswith("_engine.py") or n in ("config.py", "__init__.py", "mri_models.py", "types.py", "get_nn_model_config.py"):
            continue
        if "ssl" in p.parts:
            continue
        out.append(p)
    return out


def _dims(call: ast.Call):
    """the `dim` argument of a reduction call -> list of ints, [] when absent, None when symbolic"""
    node = None
    if call.args:
        node = call.args[0]
    for kw in call.keywords:
        if kw.arg in ("dim", "axis"):
            node = kw.value
    if node is None:
        return []
    try:
        v = ast.literal_eval(node)
    except (ValueError, SyntaxError):
        return None
    if isinstance(v, bool):
        return []            # e.g. `.max(keepdim)` — not a dim
    if isinstance(v, int):
        return [v]
    if isinstance(v, (tuple, list)) and all(isinstance(x, int) for x in v):
        return list(v)
    return None


def norm_reductions(repo: pathlib.Path):
    rows = []
    for file, func in NORM_FUNCS:
        fn = find_function(parse_file(repo / file), func)
        batch = None
        views: dict[str, tuple[int, bool]] = {}
        for st in ast.walk(fn):
            if isinstance(st, ast.Assign) and isinstance(st.targets[0], ast.Tuple) and ast.unparse(st.value).endswith(".shape"):
                first = st.targets[0].elts[0]
                batch = first.id if isinstance(first, ast.Name) else None
        for st in ast.walk(fn):
            if (isinstance(st, ast.Assign) and isinstance(st.targets[0], ast.Name) and isinstance(st.value, ast.Call)
                    and isinstance(st.value.func, ast.Attribute) and st.value.func.attr in ("reshape", "view")):
                args = st.value.args
                first = args[0] if args else None
                views[st.targets[0].id] = (len(args), isinstance(first, ast.Name) and first.id == batch and batch is not None)
        found = 0
        for n in ast.walk(fn):
            if isinstance(n, ast.Call) and isinstance(n.func, ast.Attribute) and n.func.attr in REDUCE:
                recv = n.func.value
                if not (isinstance(recv, ast.Name) and recv.id in views):
                    raise Untranslatable(f"{func}: reduction `{ast.unparse(n)}` on something that is not a known view")
                d = _dims(n)
                if d is None:
                    raise Untranslatable(f"{func}: symbolic reduction axes in `{ast.unparse(n)}`")
                rank, bf = views[recv.id]
                rows.append((func, n.func.attr, rank, d, bf))
                found += 1
        if found == 0:
            raise Untranslatable(f"{func}: no reduction found")
    return rows


def coil_dims(repo: pathlib.Path):
    """(Class, value) for every `self._coil_dim = <int>` / `coil_dim: int = <int>` default in the zoo"""
    rows = []
    for p in nn_files(repo):
        tree = parse_file(p)
        for cls in [n for n in ast.walk(tree) if isinstance(n, ast.ClassDef)]:
            for n in ast.walk(cls):
                if isinstance(n, ast.Assign) and ast.unparse(n.targets[0]) == "self._coil_dim":
                    try:
                        rows.append((cls.name, int(ast.literal_eval(n.value))))
                    except (ValueError, SyntaxError):
                        if isinstance(n.value, ast.Name) and n.value.id == "coil_dim":
                            continue      # constructor parameter: its default is recorded below
                        raise Untranslatable(f"{cls.name}: symbolic _coil_dim `{ast.unparse(n.value)}`")
            for f in cls.body:
                if isinstance(f, ast.FunctionDef) and f.name == "__init__":
                    names = [a.arg for a in f.args.args]
                    defaults = f.args.defaults
                    for a, dflt in zip(names[len(names) - len(defaults):], defaults):
                        if a == "coil_dim":
                            rows.append((cls.name + ".coil_dim", int(ast.literal_eval(dflt))))
    return rows


def reduce_operator_axis(repo: pathlib.Path):
    """`reduce_operator` must sum over exactly its `dim` parameter"""
    fn = find_function(parse_file(repo / "direct/data/transforms.py"), "reduce_operator")
    calls = [n for n in ast.walk(fn) if isinstance(n, ast.Call) and isinstance(n.func, ast.Attribute) and n.func.attr in REDUCE]
    if len(calls) != 1 or calls[0].func.attr != "sum":
        raise Untranslatable("reduce_operator: expected exactly one `.sum(dim)`")
    c = calls[0]
    arg = c.args[0] if c.args else next((k.value for k in c.keywords if k.arg in ("dim", "axis")), None)
    if not (isinstance(arg, ast.Name) and arg.id == "dim"):
        raise Untranslatable(f"reduce_operator sums over `{ast.unparse(arg) if arg is not None else 'all axes'}`, expected `dim`")
    return True


def global_reductions(repo: pathlib.Path):
    rows = []
    for p in nn_files(repo):
        tree = parse_file(p)
        for cls in [n for n in tree.body if isinstance(n, ast.ClassDef)]:
            for f in [n for n in cls.body if isinstance(n, ast.FunctionDef) and n.name not in SKIP_METHODS]:
                for n in ast.walk(f):
                    if isinstance(n, ast.Call) and isinstance(n.func, ast.Attribute) and n.func.attr in REDUCE:
                        if isinstance(n.func.value, ast.Name) and n.func.value.id in ("np", "math"):
                            continue
                        if n.func.attr == "norm" and isinstance(n.func.value, ast.Attribute):
                            continue
                        is_torch_fn = isinstance(n.func.value, ast.Name) and n.func.value.id == "torch"
                        args = n.args[1:] if is_torch_fn else n.args
                        kws = {k.arg for k in n.keywords}
                        if not args and not ({"dim", "axis"} & kws):
                            rows.append((f"{cls.name}.{f.name}", n.func.attr))
    return rows


def forward_writes(repo: pathlib.Path):
    rows = []
    for p in nn_files(repo):
        tree = parse_file(p)
        for cls in [n for n in tree.body if isinstance(n, ast.ClassDef)]:
            for f in [n for n in cls.body if isinstance(n, ast.FunctionDef) and n.name not in SKIP_METHODS]:
                cnt = 0
                for n in ast.walk(f):
                    targets = []
                    if isinstance(n, ast.Assign):
                        targets = n.targets
                    elif isinstance(n, (ast.AugAssign, ast.AnnAssign)):
                        targets = [n.target]
                    for t in targets:
                        for sub in ast.walk(t):
                            if isinstance(sub, ast.Attribute) and isinstance(sub.value, ast.Name) and sub.value.id == "self" \
                                    and isinstance(sub.ctx, ast.Store):
                                cnt += 1
                    if isinstance(n, ast.Call) and isinstance(n.func, ast.Name) and n.func.id == "setattr" and n.args \
                            and isinstance(n.args[0], ast.Name) and n.args[0].id == "self":
                        cnt += 1
                    if isinstance(n, ast.Call) and isinstance(n.func, ast.Attribute) and n.func.attr in ("register_buffer", "add_module") \
                            and isinstance(n.func.value, ast.Name) and n.func.value.id == "self":
                        cnt += 1
                rows.append((f"{cls.name}.{f.name}", cnt))
    return rows


def _s(x):
    return '"' + x + '"'


def _extra():
    status, chunks = {}, []
    # 1. normalisation reductions + coil sums
    try:
        rows = norm_reductions(REPO)
        reduce_operator_axis(REPO)
        cd = coil_dims(REPO)
        items = [f"⟨{_s(fn)}, {_s(op)}, {rank}, {[int(a) for a in axes]}, {'true' if bf else 'false'}⟩" for fn, op, rank, axes, bf in rows]
        items += [f"⟨{_s('reduce_operator@' + c)}, \"sum\", 5, [{v}], true⟩" for c, v in cd]
        chunks.append("/-- reduction table of the anchored normalisation code and of coil reduction (one entry per class that fixes a coil axis) -/\n"
                      "def reductions : BatchSep.Table :=\n  [" + ",\n   ".join(items) + "]\n")
        status["reductions"] = "translated"
    except (Untranslatable, ValueError) as e:
        chunks.append(f"/-- SKIPPED ({e}) -/\ndef reductions : BatchSep.Table := []\n")
        status["reductions"] = f"skipped: {e}"
    # 2. reductions over all axes anywhere in the zoo's module methods
    try:
        g = global_reductions(REPO)
        chunks.append("/-- reductions without `dim` (all axes, batch included) in nn.Module methods of the zoo -/\n"
                      "def globalReductions : List (String × String) :=\n  [" + ", ".join(f"({_s(a)}, {_s(b)})" for a, b in g) + "]\n")
        status["globalReductions"] = "translated"
    except Untranslatable as e:
        chunks.append(f"/-- SKIPPED ({e}) -/\ndef globalReductions : List (String × String) := [(\"RIM.forward\", \"max\"), (\"ConjGrad.cg\", \"mean\")]\n")
        status["globalReductions"] = f"skipped: {e}"
    # 3. writes to self.* outside constructors
    try:
        w = forward_writes(REPO)
        chunks.append("/-- (Class.method, number of assignments to self.*) for every nn.Module method of the zoo except constructors -/\n"
                      "def forwardWrites : BatchSep.Writes :=\n  [" + ", ".join(f"({_s(a)}, {b})" for a, b in w) + "]\n")
        status["forwardWrites"] = "translated"
    except Untranslatable as e:
        chunks.append(f"/-- SKIPPED ({e}) -/\ndef forwardWrites : BatchSep.Writes := []\n")
        status["forwardWrites"] = f"skipped: {e}"
    return "\n".join(chunks), status


# a (trivial) registered kernel only to pull the model import into Gen/C18.lean
def _marker(k: Kernel, fn) -> str:
    return f"def {k.name} : Int := 18\n"


register("C18", [Kernel("c18_marker", "direct/nn/unet/unet_2d.py", "NormUnetModel2d.norm", [], "18", _marker, imports=BS)])
EXTRA["C18"] = _extra
