"""C17: the block schedule of an unrolled network, read from the AST of its `forward`.

`scan_schedule(model, denoisers)` walks the source of `model.forward` in evaluation order, inlining the methods of the
model (`self._image_model(...)`, `self._compute_model_per_coil(model, data)`, …) and the `forward` of every repo sub-module
that is not itself a denoiser (blocks, `MultiCoil`, `PrimalNet`, …).  Python control flow is evaluated on the instantiated
model where it is concrete (loops over `range(self.num_iter)` / `ModuleList`s, `if self.kspace_nets is not None`); a loop
whose range depends on a tensor (`for idx in range(data.size(self._coil_dim))`) is the per-coil loop.  Every call of one
of `denoisers` is recorded with

* the denoiser module (identity),
* the domain: `image` (one call), `perCoil` (inside a coil loop), `coilBatch` (`MultiCoil(coil_to_batch=True)`),
* the last `.permute(...)` literal on the data-flow path of its argument (`(0, 3, 1, 2)` / `(0, 1, 4, 2, 3)` / …).

Nothing is executed on tensors; only attribute look-ups on the real module and integer expressions are evaluated.
"""
from __future__ import annotations

import ast
import inspect
import textwrap

from ..pyexpr import Untranslatable

IMAGE, PER_COIL, COIL_BATCH = 0, 1, 2


class _Unknown:
    """a value we do not track (tensors)"""


UNKNOWN = _Unknown()


def _fn_ast(fn):
    fn = getattr(fn, "__func__", fn)
    try:
        src = textwrap.dedent(inspect.getsource(fn))
    except (OSError, TypeError) as e:
        raise Untranslatable(f"no source: {e}")
    import warnings
    with warnings.catch_warnings():
        warnings.simplefilter("ignore")
        return ast.parse(src).body[0], fn.__globals__


class Scanner:
    def __init__(self, denoisers):
        self.den = {id(d): d for d in denoisers}
        self.calls = []            # (module, domain, perm)
        self.out_perms = []        # per call: the `.permute(literal)` applied to its result (None: used as returned)
        self.pending = {}          # variable name -> indices of calls whose (not yet permuted) result it holds
        self.axis_vars = set()     # locals holding the length of a tensor axis (`n = data.shape[1]`, `n = data.size(1)`)
        self.depth = 0

    # -- concrete evaluation of an expression on the instantiated objects; UNKNOWN when it involves tensors
    def value(self, node, env, glob):
        import torch.nn as nn

        try:
            if isinstance(node, ast.Constant):
                return node.value
            if isinstance(node, ast.Name):
                if node.id in env:
                    return env[node.id]
                if node.id in ("range", "len", "zip", "enumerate", "int", "list", "tuple", "min", "max", "reversed", "None", "True", "False"):
                    import builtins
                    return getattr(builtins, node.id)
                return UNKNOWN
            if isinstance(node, ast.Attribute):
                v = self.value(node.value, env, glob)
                if v is UNKNOWN or not hasattr(v, node.attr):
                    return UNKNOWN
                r = getattr(v, node.attr)
                import torch
                if isinstance(r, torch.Tensor):
                    return UNKNOWN
                return r
            if isinstance(node, ast.Subscript):
                v = self.value(node.value, env, glob)
                i = self.value(node.slice, env, glob)
                if v is UNKNOWN or i is UNKNOWN or isinstance(v, _Unknown):
                    return UNKNOWN
                return v[i]
            if isinstance(node, ast.Slice):
                parts = [None if p is None else self.value(p, env, glob) for p in (node.lower, node.upper, node.step)]
                return UNKNOWN if any(p is UNKNOWN for p in parts) else slice(*parts)
            if isinstance(node, (ast.Tuple, ast.List)):
                vals = [self.value(e, env, glob) for e in node.elts]
                return UNKNOWN if any(v is UNKNOWN for v in vals) else (tuple(vals) if isinstance(node, ast.Tuple) else vals)
            if isinstance(node, ast.BinOp):
                a, b = self.value(node.left, env, glob), self.value(node.right, env, glob)
                if a is UNKNOWN or b is UNKNOWN:
                    return UNKNOWN
                import operator as o
                ops = {ast.Add: o.add, ast.Sub: o.sub, ast.Mult: o.mul, ast.FloorDiv: o.floordiv, ast.Mod: o.mod}
                return ops[type(node.op)](a, b) if type(node.op) in ops else UNKNOWN
            if isinstance(node, ast.UnaryOp) and isinstance(node.op, ast.Not):
                v = self.value(node.operand, env, glob)
                return UNKNOWN if v is UNKNOWN else (not v)
            if isinstance(node, ast.Compare) and len(node.ops) == 1:
                a, b = self.value(node.left, env, glob), self.value(node.comparators[0], env, glob)
                op = node.ops[0]
                if isinstance(op, (ast.Is, ast.IsNot)):
                    if a is UNKNOWN and b is None:
                        return UNKNOWN
                    if a is UNKNOWN or b is UNKNOWN:
                        return UNKNOWN
                    return (a is b) if isinstance(op, ast.Is) else (a is not b)
                if a is UNKNOWN or b is UNKNOWN:
                    return UNKNOWN
                import operator as o
                ops = {ast.Eq: o.eq, ast.NotEq: o.ne, ast.Lt: o.lt, ast.LtE: o.le, ast.Gt: o.gt, ast.GtE: o.ge,
                       ast.In: lambda x, y: x in y, ast.NotIn: lambda x, y: x not in y}
                return ops[type(op)](a, b)
            if isinstance(node, ast.BoolOp):
                vals = [self.value(v, env, glob) for v in node.values]
                if any(v is UNKNOWN for v in vals):
                    return UNKNOWN
                return all(vals) if isinstance(node.op, ast.And) else any(vals)
            if isinstance(node, ast.IfExp):
                t = self.value(node.test, env, glob)
                return UNKNOWN if t is UNKNOWN else self.value(node.body if t else node.orelse, env, glob)
            if isinstance(node, ast.Call):
                f = self.value(node.func, env, glob)
                if f in (range, len, zip, enumerate, int, list, tuple, min, max, reversed) and not node.keywords:
                    args = [self.value(a, env, glob) for a in node.args]
                    if any(a is UNKNOWN for a in args):
                        return UNKNOWN
                    r = f(*args)
                    return list(r) if f in (zip, enumerate, reversed, range) else r
                return UNKNOWN
        except (TypeError, IndexError, KeyError, AttributeError):
            return UNKNOWN
        return UNKNOWN

    # -- statements in source order
    def block(self, stmts, env, glob, dom, perms):
        for st in stmts:
            self.stmt(st, env, glob, dom, perms)

    def stmt(self, st, env, glob, dom, perms):
        if isinstance(st, ast.Assign):
            n0 = len(self.calls)
            self.expr(st.value, env, glob, dom, perms)
            fresh = [i for i in range(n0, len(self.calls)) if self.out_perms[i] is None]
            carried = [i for nm in ast.walk(st.value) if isinstance(nm, ast.Name) for i in self.pending.get(nm.id, [])
                       if self.out_perms[i] is None]
            for t in st.targets:
                for nm in ast.walk(t):
                    if isinstance(nm, ast.Name):
                        self.pending[nm.id] = fresh + carried
            val = self.value(st.value, env, glob)
            if val is UNKNOWN and self._axis_len(st.value):
                for t in st.targets:
                    if isinstance(t, ast.Name):
                        self.axis_vars.add(t.id)
            perm = self._perm_of(st.value, perms, env, glob)
            for t in st.targets:
                self._bind(t, val, env)
                for n in ast.walk(t):
                    if isinstance(n, ast.Name):
                        perms[n.id] = perm
        elif isinstance(st, (ast.AugAssign, ast.AnnAssign)):
            if st.value is not None:
                self.expr(st.value, env, glob, dom, perms)
        elif isinstance(st, ast.Expr):
            self.expr(st.value, env, glob, dom, perms)
        elif isinstance(st, ast.Return):
            if st.value is not None:
                self.expr(st.value, env, glob, dom, perms)
        elif isinstance(st, ast.For):
            it = self.value(st.iter, env, glob)
            if it is UNKNOWN:
                # a range that depends on a tensor size: the loop over the coils
                src = ast.unparse(st.iter)
                if not self._axis_len(st.iter):
                    raise Untranslatable(f"loop over `{src}` is neither concrete nor a loop over a tensor axis")
                self._bind(st.target, UNKNOWN, env)
                self.block(st.body, env, glob, PER_COIL, perms)
            else:
                for item in list(it):
                    self._bind(st.target, item, env)
                    self.block(st.body, env, glob, dom, perms)
        elif isinstance(st, ast.If):
            t = self.value(st.test, env, glob)
            self.expr(st.test, env, glob, dom, perms)
            if t is UNKNOWN:
                self.block(st.body, env, glob, dom, perms)
                self.block(st.orelse, env, glob, dom, perms)
            else:
                self.block(st.body if t else st.orelse, env, glob, dom, perms)
        elif isinstance(st, (ast.Pass, ast.Delete, ast.Raise, ast.Assert, ast.Break, ast.Continue)):
            return
        elif isinstance(st, ast.With):
            self.block(st.body, env, glob, dom, perms)
        else:
            raise Untranslatable(f"statement `{ast.unparse(st)[:50]}`")

    def _bind(self, target, val, env):
        if isinstance(target, ast.Name):
            env[target.id] = val
        elif isinstance(target, (ast.Tuple, ast.List)):
            vals = list(val) if (val is not UNKNOWN and isinstance(val, (tuple, list)) and len(val) == len(target.elts)) \
                else [UNKNOWN] * len(target.elts)
            for t, v in zip(target.elts, vals):
                self._bind(t, v, env)

    def _axis_len(self, node):
        """does the expression depend on the length of a tensor axis (`x.size(d)`, `x.shape[d]`, a local holding one)?"""
        src = ast.unparse(node)
        if "size(" in src or "shape" in src:
            return True
        return any(isinstance(n, ast.Name) and n.id in self.axis_vars for n in ast.walk(node))

    def _perm_literal(self, call, env, glob):
        """the permutation of `x.permute(...)`: literal arguments, a literal tuple, or `*NAME` / `NAME` of a constant tuple
        (a local, a module-level constant or an attribute of the module)"""
        vals = []
        for a in call.args:
            inner = a.value if isinstance(a, ast.Starred) else a
            try:
                v = ast.literal_eval(inner)
            except (ValueError, SyntaxError):
                v = self.value(inner, env or {}, glob or {})
                if v is UNKNOWN and isinstance(inner, ast.Name) and glob is not None and inner.id in glob:
                    v = glob[inner.id]
            if isinstance(a, ast.Starred) or (len(call.args) == 1 and isinstance(v, (tuple, list))):
                if not isinstance(v, (tuple, list)):
                    return None
                vals.extend(v)
            else:
                vals.append(v)
        if vals and all(isinstance(v, int) and not isinstance(v, bool) for v in vals):
            return tuple(vals)
        return None

    def _perm_of(self, node, perms, env=None, glob=None):
        """the outermost `.permute(…)` applied in `node`, else the one of the variables it is built from"""
        for n in ast.walk(node):
            if isinstance(n, ast.Call) and isinstance(n.func, ast.Attribute) and n.func.attr == "permute":
                return self._perm_literal(n, env, glob)
        for n in ast.walk(node):
            if isinstance(n, ast.Name) and perms.get(n.id) is not None:
                return perms[n.id]
        return None

    # -- expressions: find calls in evaluation order
    def expr(self, node, env, glob, dom, perms):
        import torch.nn as nn

        if isinstance(node, ast.Call) and isinstance(node.func, ast.Attribute) and node.func.attr == "permute":
            # `<expr>.permute(literal)`: the permute applied to the result of every denoiser call made inside <expr> (or held
            # by a variable of <expr>) that has not been permuted yet
            n0 = len(self.calls)
            self.expr(node.func.value, env, glob, dom, perms)
            lit = self._perm_literal(node, env, glob)
            if lit is not None:
                idxs = list(range(n0, len(self.calls)))
                for nm in ast.walk(node.func.value):
                    if isinstance(nm, ast.Name):
                        idxs += self.pending.get(nm.id, [])
                for i in idxs:
                    if self.out_perms[i] is None:
                        self.out_perms[i] = lit
            return
        if isinstance(node, ast.Call):
            # arguments first (Python evaluates the callee expression, then the arguments; callee expressions here have no calls
            # with side effects except `self.x[idx]`)
            for a in node.args:
                self.expr(a.value if isinstance(a, ast.Starred) else a, env, glob, dom, perms)
            for k in node.keywords:
                self.expr(k.value, env, glob, dom, perms)
            if isinstance(node.func, ast.Attribute):
                self.expr(node.func.value, env, glob, dom, perms)
            f = self.value(node.func, env, glob)
            if isinstance(f, nn.Module):
                arg_perm = self._perm_of(node.args[0], perms, env, glob) if node.args else None
                if id(f) in self.den:
                    self.calls.append((f, dom, arg_perm))
                    self.out_perms.append(None)
                    return
                if type(f).__module__.startswith("torch."):
                    return
                self.enter(type(f), "forward", f, node, env, glob, dom, perms, arg_perm)
                return
            if inspect.ismethod(f) and isinstance(getattr(f, "__self__", None), nn.Module) and not type(f.__self__).__module__.startswith("torch."):
                self.enter(type(f.__self__), f.__name__, f.__self__, node, env, glob, dom, perms, None)
                return
            if inspect.isfunction(f) and isinstance(node.func, ast.Attribute) and isinstance(self.value(node.func.value, env, glob), nn.Module):
                # static method reached through self
                obj = self.value(node.func.value, env, glob)
                self.enter(type(obj), node.func.attr, obj, node, env, glob, dom, perms, None, static=True)
                return
            return
        if isinstance(node, (ast.ListComp, ast.GeneratorExp)):
            gen = node.generators[0]
            it = self.value(gen.iter, env, glob)
            self.expr(gen.iter, env, glob, dom, perms)
            if it is UNKNOWN:
                # a comprehension over the length of a tensor axis is the per-coil loop, as the `for` statement is
                self.expr(node.elt, env, glob, PER_COIL if self._axis_len(gen.iter) else dom, perms)
            else:
                for item in list(it):
                    sub = dict(env)
                    self._bind(gen.target, item, sub)
                    self.expr(node.elt, sub, glob, dom, perms)
            return
        if isinstance(node, ast.Lambda):
            return
        for child in ast.iter_child_nodes(node):
            if isinstance(child, ast.expr):
                self.expr(child, env, glob, dom, perms)

    def enter(self, cls, meth, obj, call, env, glob, dom, perms, arg_perm, static=False):
        fn = None
        for c in cls.__mro__:
            if meth in c.__dict__:
                fn = c.__dict__[meth]
                break
        if fn is None:
            return
        is_static = isinstance(fn, staticmethod)
        node, fglob = _fn_ast(fn)
        self.depth += 1
        if self.depth > 12:
            raise Untranslatable("call depth")
        params = [a.arg for a in node.args.args]
        sub = {}
        subperms = {}
        vals = [] if is_static else [obj]
        argnodes = [None] * len(vals) + list(call.args)
        vals += [self.value(a, env, glob) for a in call.args]
        for i, p in enumerate(params):
            if i < len(vals):
                sub[p] = vals[i]
                if argnodes[i] is not None:
                    subperms[p] = self._perm_of(argnodes[i], perms, env, glob)
            else:
                sub[p] = UNKNOWN
        for k in call.keywords:
            if k.arg in params:
                sub[k.arg] = self.value(k.value, env, glob)
                subperms[k.arg] = self._perm_of(k.value, perms, env, glob)
        # defaults that are concrete (e.g. `coil_dim: int = 1`)
        defaults = node.args.defaults
        for j, d in enumerate(defaults):
            p = params[len(params) - len(defaults) + j]
            if sub.get(p, UNKNOWN) is UNKNOWN and p not in [k.arg for k in call.keywords] and params.index(p) >= len(vals):
                try:
                    sub[p] = ast.literal_eval(d)
                except (ValueError, SyntaxError):
                    pass
        ndom = dom
        if cls.__name__ == "MultiCoil" and getattr(obj, "coil_to_batch", False):
            ndom = COIL_BATCH
        self.block(node.body, sub, fglob, ndom, subperms)
        self.depth -= 1


def _scan(model, denoisers):
    sc = Scanner(denoisers)
    node, glob = _fn_ast(type(model).forward)
    env = {a.arg: UNKNOWN for a in node.args.args}
    env["self"] = model
    sc.block(node.body, env, glob, IMAGE, {})
    return sc


def scan_schedule(model, denoisers):
    """[(denoiser module, domain, permute literal or None)] in call order"""
    return _scan(model, denoisers).calls


def scan_schedule_full(model, denoisers):
    """[(denoiser module, domain, permute literal applied to the argument, permute literal applied to the result)]"""
    sc = _scan(model, denoisers)
    return [(m, d, p, o) for (m, d, p), o in zip(sc.calls, sc.out_perms)]


def io_channels(mod):
    """(in_channels, out_channels) of a denoiser: the first convolution's input channels, and the channel count the real
    module returns for a zero input of that many channels"""
    import torch
    import torch.nn as nn

    if type(mod).__name__ == "ConvRNNStack":
        return mod.convs.conv_layer.in_channels, mod.recurrent.ih.out_channels
    inner = getattr(mod, "convgru", mod)
    is_gru = hasattr(inner, "conv_blocks") and hasattr(inner, "reset_gates")
    if is_gru:                                   # Conv2dGRU: the gates are registered before the conv blocks
        convs = [c for c in inner.conv_blocks[0].modules() if isinstance(c, nn.Conv2d)]
    else:
        convs = [c for c in mod.modules() if isinstance(c, (nn.Conv2d, nn.Conv3d))]
    if not convs:
        raise Untranslatable(f"no convolution in {type(mod).__name__}")
    cin = convs[0].in_channels
    three_d = isinstance(convs[0], nn.Conv3d)
    x = torch.zeros((1, cin, 4, 16, 16) if three_d else (1, cin, 16, 16))
    was = mod.training
    mod.eval()
    try:
        with torch.no_grad():
            out = mod(x, None) if is_gru else mod(x)
    except Exception as e:  # noqa: BLE001
        raise Untranslatable(f"cannot probe {type(mod).__name__}: {type(e).__name__}: {e}")
    finally:
        mod.train(was)
    out = out[0] if isinstance(out, (tuple, list)) else out
    return cin, int(out.shape[1])
