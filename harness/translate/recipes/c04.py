"""Translation recipes for C04 (mask generator geometry): guards, reshape / broadcast tables, the
return-wrapper table of every `mask_func`, the `build_masking_function` table, Magic offsets."""
from __future__ import annotations

import ast

from ..gen import EXTRA, Kernel, Untranslatable, all_stmts, assign_value, find_assign, guard_condition, register
from ..pyexpr import ExprTr, emit_def, find_function, parse_file

F = "direct/common/subsample.py"
MG = ("DirectVerif.Model.MaskGeom",)
FRAMED = "self.mode in [MaskFuncMode.DYNAMIC, MaskFuncMode.MULTISLICE]"
GENERATORS = [
    "FastMRIRandom", "CartesianRandom", "FastMRIEquispaced", "CartesianEquispaced", "FastMRIMagic",
    "CartesianMagic", "Gaussian1D", "Gaussian2D", "Radial", "Spiral", "VariableDensityPoisson",
    "KtRadial", "KtUniform", "KtGaussian1D",
]


class Tr(ExprTr):
    """ExprTr + `e ** 2` (→ `MaskGeom.sq e`) + bound compound expressions."""

    def int(self, node):
        text = ast.unparse(node)
        if text in self.binds and not (isinstance(node, ast.Name) and node.id in self.locals):
            return self.binds[text]
        if isinstance(node, ast.BinOp) and isinstance(node.op, ast.Pow):
            if isinstance(node.right, ast.Constant) and node.right.value == 2:
                return f"(MaskGeom.sq {self.int(node.left)})"
            raise Untranslatable(f"power `{text}`")
        if isinstance(node, ast.Call):
            f = ast.unparse(node.func)
            # integer-valued numpy float idioms: floor(a / b), ceil(a / b), round(e).astype(int), e.astype(int)
            if f in ("np.floor", "np.ceil") and len(node.args) == 1 and isinstance(node.args[0], ast.BinOp) \
                    and isinstance(node.args[0].op, ast.Div):
                a, b = self.int(node.args[0].left), self.int(node.args[0].right)
                return f"(Int.fdiv {a} {b})" if f == "np.floor" else f"(-(Int.fdiv (-{a}) {b}))"
            if isinstance(node.func, ast.Attribute) and node.func.attr == "astype" and len(node.args) == 1 \
                    and ast.unparse(node.args[0]) == "int":
                return self.int(node.func.value)
            if f == "np.round" and len(node.args) == 1:
                return self.int(node.args[0])
        return super().int(node)


def guard_nth(binds, bool_binds, nth):
    """nth `if …: raise` guard, with boolean leaves"""

    def build(k, fn):
        tr = Tr(binds, bool_binds)
        n = 0
        for st in all_stmts(fn):
            if isinstance(st, ast.If) and st.body and isinstance(st.body[0], ast.Raise):
                if n == nth:
                    return emit_def(k.name, k.params, [], tr.bool(st.test), "Bool")
                n += 1
        raise Untranslatable("guard not found")

    return build


def not_in_guard(var_text, lean_var):
    """`if <var> not in [c1, c2, …]: raise`  ->  `!(v == c1 || v == c2 …)`"""

    def build(k, fn):
        for st in all_stmts(fn):
            if (isinstance(st, ast.If) and st.body and isinstance(st.body[0], ast.Raise) and isinstance(st.test, ast.Compare)
                    and len(st.test.ops) == 1 and isinstance(st.test.ops[0], ast.NotIn)
                    and ast.unparse(st.test.left) == var_text and isinstance(st.test.comparators[0], (ast.List, ast.Tuple))):
                consts = []
                for e in st.test.comparators[0].elts:
                    if not (isinstance(e, ast.Constant) and isinstance(e.value, int)):
                        raise Untranslatable("non-constant rank list")
                    consts.append(e.value)
                body = " || ".join(f"({lean_var} == ({c} : Int))" for c in consts) or "false"
                return emit_def(k.name, k.params, [], f"(!({body}))", "Bool")
        raise Untranslatable("`not in` rank guard not found")

    return build


MGI = ("DirectVerif.Model.MaskInterior",)


def tr_assign(binds, target, nth=0):
    """right-hand side of the nth assignment to `target`, translated with the numpy idioms of `Tr`"""

    def build(k, fn):
        st = find_assign(fn, target, nth)
        return emit_def(k.name, k.params, [], Tr(binds).int(st.value))

    return build


def if_assign(binds, target):
    """value of `target` after `if c: target = a … else: target = b …`"""

    def build(k, fn):
        tr = Tr(binds)
        for st in all_stmts(fn):
            if isinstance(st, ast.If) and st.orelse:
                def val(body):
                    for s in body:
                        if isinstance(s, ast.Assign) and len(s.targets) == 1 and ast.unparse(s.targets[0]) == target:
                            return s.value
                    return None
                a, b = val(st.body), val(st.orelse)
                if a is not None and b is not None:
                    return emit_def(k.name, k.params, [], f"(if {tr.bool(st.test)} then {tr.int(a)} else {tr.int(b)})")
        raise Untranslatable(f"if/else assignment of `{target}` not found")

    return build


register("C04", [
    Kernel("call_rejects_rank", F, "BaseMaskFunc.__call__", ["rank"], "(fun rank => decide (rank < 3))",
           guard_condition({"len(shape)": "rank"}, 0), ret_type="Bool", imports=MG),
    Kernel("call_rejects_framed", F, "BaseMaskFunc.__call__", ["framed", "rank"],
           "(fun framed rank => (framed != 0) && decide (rank < 4))",
           guard_nth({"len(shape)": "rank"}, {FRAMED: "(framed != 0)"}, 1), ret_type="Bool", imports=MG),
] + [
    Kernel(f"kt_rejects_{cls}", F, f"{cls}MaskFunc.mask_func", ["rank"], "(fun rank => !(rank == 4 || rank == 5))",
           not_in_guard("len(shape)", "rank"), ret_type="Bool", imports=MG)
    for cls in ("KtRadial", "KtUniform", "KtGaussian1D")
] + [
    Kernel("magic_offset_pos", F, "MagicMaskFunc.mask_func", ["offset"], "MaskGeom.magicOffPos",
           if_assign({"offset": "offset"}, "offset_pos"), imports=MG),
    Kernel("magic_offset_neg", F, "MagicMaskFunc.mask_func", ["offset"], "MaskGeom.magicOffNeg",
           if_assign({"offset": "offset"}, "offset_neg"), imports=MG),
    Kernel("magic_poslen", F, "MagicMaskFunc.mask_func", ["num_cols"], "MaskGeom.magicPosLen",
           assign_value({"num_cols": "num_cols"}, "poslen"), imports=MG),
    Kernel("magic_neglen", F, "MagicMaskFunc.mask_func", ["num_cols"], "MaskGeom.magicNegLen",
           assign_value({"num_cols": "num_cols"}, "neglen"), imports=MG),
    # k-t grid helpers
    Kernel("kt_linear_x", F, "KtBaseMaskFunc.linear_indices_to_2d_coordinates", ["idx", "row"],
           "(fun idx row => (MaskGeom.linear2d idx row).1)", tr_assign({"indices": "idx", "row_length": "row"}, "x_coords"),
           imports=MGI),
    Kernel("kt_linear_y", F, "KtBaseMaskFunc.linear_indices_to_2d_coordinates", ["idx", "row"],
           "(fun idx row => (MaskGeom.linear2d idx row).2)", tr_assign({"indices": "idx", "row_length": "row"}, "y_coords"),
           imports=MGI),
    Kernel("kt_phase_corrected", F, "KtBaseMaskFunc.resolve_duplicates_on_kt_grid", ["phase", "ny"],
           "(fun phase ny => phase + MaskGeom.halfUp ny)", tr_assign({"phase": "phase", "ny": "ny"}, "phase_corrected"),
           imports=MGI),
    Kernel("kt_time_corrected", F, "KtBaseMaskFunc.resolve_duplicates_on_kt_grid", ["time", "nt"],
           "(fun time nt => time + MaskGeom.halfUp nt)", tr_assign({"time": "time", "nt": "nt"}, "time_corrected"),
           imports=MGI),
    Kernel("kt_trajectory_index", F, "KtBaseMaskFunc.resolve_duplicates_on_kt_grid", ["tc", "pc", "ny"],
           "(fun tc pc ny => (tc - 1) * ny + pc)",
           tr_assign({"time_corrected": "tc", "phase_corrected": "pc", "ny": "ny"}, "trajectory_indices"), imports=MGI),
    Kernel("kt_uniform_ph", F, "KtUniformMaskFunc.mask_func", ["ind", "num_cols"],
           "(fun ind n => ind % n - n / 2)", tr_assign({"ind": "ind", "num_cols": "num_cols"}, "ph"), imports=MGI),
    Kernel("kt_uniform_ti", F, "KtUniformMaskFunc.mask_func", ["ind", "num_cols", "nt"],
           "(fun ind n nt => ind / n - nt / 2)", tr_assign({"ind": "ind", "num_cols": "num_cols", "nt": "nt"}, "ti"), imports=MGI),
    Kernel("kt_uniform_inds", F, "KtUniformMaskFunc.mask_func", ["ph", "ti", "num_cols", "nt"],
           "(fun ph ti n nt => n * (ti + nt / 2) + (ph + n / 2))",
           tr_assign({"ph": "ph", "ti": "ti", "num_cols": "num_cols", "nt": "nt"}, "inds"), imports=MGI),
    Kernel("kt_gaussian_inds", F, "KtGaussian1DMaskFunc.mask_func", ["ph", "ti", "num_cols", "nt"],
           "(fun ph ti n nt => n * (ti + nt / 2) + (ph + n / 2))",
           tr_assign({"ph": "ph", "ti": "ti", "num_cols": "num_cols", "nt": "nt"}, "inds"), imports=MGI),
])


# ---------------------------------------------------------------------------------------------------
# structural tables
def _neg_index(node: ast.AST, base: str):
    """`base[-k]` -> k"""
    if (isinstance(node, ast.Subscript) and ast.unparse(node.value) == base and isinstance(node.slice, ast.UnaryOp)
            and isinstance(node.slice.op, ast.USub) and isinstance(node.slice.operand, ast.Constant)
            and isinstance(node.slice.operand.value, int)):
        return node.slice.operand.value
    return None


def reshape_tables(tree) -> str:
    fn = find_function(tree, "BaseMaskFunc._reshape_and_add_coil_axis")
    names: dict[str, int] = {}
    assign, framed = [], []
    seen_ones = seen_bool = seen_coil = False
    for st in fn.body:
        if isinstance(st, ast.Expr):       # docstring
            continue
        if isinstance(st, ast.Assign) and len(st.targets) == 1:
            tgt, val = st.targets[0], st.value
            k = _neg_index(val, "shape")
            if isinstance(tgt, ast.Name) and k is not None:
                names[tgt.id] = k
                continue
            if isinstance(tgt, ast.Name) and tgt.id == "mask_shape":
                if ast.unparse(val).replace(" ", "") != "[1for_inshape]":
                    raise Untranslatable(f"mask_shape initialised as `{ast.unparse(val)}`")
                seen_ones = True
                continue
            kt = _neg_index(tgt, "mask_shape")
            if kt is not None:
                j = names.get(val.id) if isinstance(val, ast.Name) else _neg_index(val, "shape")
                if j is None:
                    raise Untranslatable(f"mask_shape[-{kt}] = `{ast.unparse(val)}`")
                assign.append((kt, j))
                continue
            if isinstance(tgt, ast.Name) and tgt.id == "mask":
                v = ast.unparse(val).replace(" ", "")
                if v == "mask.reshape(*mask_shape).bool()":
                    seen_bool = True
                    continue
                if v == "mask[None,...]":
                    seen_coil = True
                    continue
            raise Untranslatable(f"unexpected statement `{ast.unparse(st)}`")
        if isinstance(st, ast.If):
            t = ast.unparse(st.test)
            if t == FRAMED and not st.orelse:
                for s in st.body:
                    kt = _neg_index(s.targets[0], "mask_shape") if isinstance(s, ast.Assign) else None
                    j = None
                    if kt is not None:
                        j = names.get(s.value.id) if isinstance(s.value, ast.Name) else _neg_index(s.value, "shape")
                    if kt is None or j is None:
                        raise Untranslatable(f"unexpected statement `{ast.unparse(s)}` in the framed branch")
                    framed.append((kt, j))
                continue
            if t == "isinstance(mask, np.ndarray)":
                continue
            raise Untranslatable(f"unexpected branch `{t}`")
        if isinstance(st, ast.Return):
            if ast.unparse(st.value) != "mask":
                raise Untranslatable("unexpected return value")
            continue
        raise Untranslatable(f"unexpected statement `{ast.unparse(st)}`")
    if not (seen_ones and seen_bool and seen_coil):
        raise Untranslatable("ones-initialisation / reshape().bool() / mask[None, ...] not found")
    fmt = lambda ps: "[" + ", ".join(f"({a}, {b})" for a, b in ps) + "]"
    return (f"def reshape_assign : List (Nat × Nat) := {fmt(assign)}\n"
            f"def reshape_assign_framed : List (Nat × Nat) := {fmt(framed)}\n")


def broadcast_table(tree) -> str:
    fn = find_function(tree, "CartesianVerticalMaskFunc._broadcast_mask")
    chain = [s for s in fn.body if isinstance(s, ast.If)]
    if len(chain) != 1:
        raise Untranslatable("expected one if/elif chain")
    node, rows = chain[0], []
    while True:
        t = node.test
        if not (isinstance(t, ast.Compare) and ast.unparse(t.left) == "mask.ndim" and isinstance(t.ops[0], ast.Eq)
                and isinstance(t.comparators[0], ast.Constant)):
            raise Untranslatable(f"unexpected test `{ast.unparse(t)}`")
        nd = t.comparators[0].value
        if len(node.body) != 1 or not isinstance(node.body[0], ast.Assign):
            raise Untranslatable("unexpected branch body")
        call = node.body[0].value
        if not (isinstance(call, ast.Call) and ast.unparse(call.func) == "np.tile" and len(call.args) == 2
                and isinstance(call.args[1], ast.Tuple)):
            raise Untranslatable(f"unexpected `{ast.unparse(call)}`")
        arg = ast.unparse(call.args[0]).replace(" ", "")
        want = {1: "mask", 2: "mask[:,np.newaxis,:]"}.get(nd)
        if arg != want:
            raise Untranslatable(f"ndim {nd}: tiles `{arg}`")
        reps = []
        for e in call.args[1].elts:
            if isinstance(e, ast.Name) and e.id == "num_rows":
                reps.append(0)
            elif isinstance(e, ast.Constant) and isinstance(e.value, int) and e.value >= 1:
                reps.append(e.value)
            else:
                raise Untranslatable(f"repetition `{ast.unparse(e)}`")
        rows.append((nd, reps))
        if len(node.orelse) == 1 and isinstance(node.orelse[0], ast.If):
            node = node.orelse[0]
            continue
        if not (len(node.orelse) == 1 and isinstance(node.orelse[0], ast.Raise)
                and "ValueError" in ast.unparse(node.orelse[0])):
            raise Untranslatable("else branch does not raise ValueError")
        break
    body = ", ".join(f"({nd}, [{', '.join(map(str, r))}])" for nd, r in rows)
    return f"def broadcast_branches : List (Nat × List Nat) := [{body}]\n"


def _classes(tree):
    return {n.name: n for n in tree.body if isinstance(n, ast.ClassDef)}


def _resolve(classes, cls: str, meth: str):
    """method `meth` of class `cls` following the (single-inheritance) bases in the module"""
    seen = set()
    while cls in classes and cls not in seen:
        seen.add(cls)
        for n in classes[cls].body:
            if isinstance(n, ast.FunctionDef) and n.name == meth:
                return n
        bases = [b.id for b in classes[cls].bases if isinstance(b, ast.Name)]
        if not bases:
            break
        cls = bases[0]
    raise Untranslatable(f"{cls}.{meth} not found")


def _is_wrap(node):
    """(wrapped, through_broadcast) of an expression"""
    if (isinstance(node, ast.Call) and ast.unparse(node.func) == "self._reshape_and_add_coil_axis" and len(node.args) == 2
            and not node.keywords and ast.unparse(node.args[1]) == "shape"):
        a = node.args[0]
        b = (isinstance(a, ast.Call) and ast.unparse(a.func) == "self._broadcast_mask" and len(a.args) == 2
             and ast.unparse(a.args[1]) == "num_rows")
        return True, bool(b)
    return None


def return_table(tree) -> str:
    classes = _classes(tree)
    rows = []
    for name in GENERATORS:
        fn = _resolve(classes, name + "MaskFunc", "mask_func")
        # last wrapping assignment of every name, in source order
        events = []   # (lineno, kind, payload)
        for n in ast.walk(fn):
            if isinstance(n, ast.Assign) and len(n.targets) == 1 and isinstance(n.targets[0], ast.Name):
                events.append((n.lineno, "assign", n))
            elif isinstance(n, ast.Return):
                events.append((n.lineno, "return", n))
        events.sort(key=lambda e: e[0])
        state: dict[str, tuple | None] = {}
        rets = []

        def classify(e):
            w = _is_wrap(e)
            if w is not None:
                return w
            if isinstance(e, ast.Name):
                return state.get(e.id) or (False, False)
            if isinstance(e, ast.BinOp) and isinstance(e.op, ast.BitOr):
                l, r = classify(e.left), classify(e.right)
                return (l[0] and r[0], l[1] and r[1])
            return (False, False)

        for _, kind, n in events:
            if kind == "assign":
                state[n.targets[0].id] = _is_wrap(n.value)
            else:
                rets.append(classify(n.value) if n.value is not None else (False, False))
        b = lambda v: "true" if v else "false"
        rows.append(f'("{name}", [' + ", ".join(f"({b(w)}, {b(br)})" for w, br in rets) + "])")
    return "def return_table : List (String × List (Bool × Bool)) :=\n  [" + ",\n   ".join(rows) + "]\n"


def clamp_table(tree) -> str:
    """`inds[inds <= c] = v` statements of the two k-t line generators"""
    classes = _classes(tree)
    out = []
    for name in ("KtUniform", "KtGaussian1D"):
        fn = _resolve(classes, name + "MaskFunc", "mask_func")
        found = "none"
        for st in all_stmts(fn):
            if (isinstance(st, ast.Assign) and isinstance(st.targets[0], ast.Subscript) and ast.unparse(st.targets[0].value) == "inds"
                    and isinstance(st.targets[0].slice, ast.Compare)):
                c = st.targets[0].slice
                if (ast.unparse(c.left) == "inds" and isinstance(c.ops[0], ast.LtE) and isinstance(c.comparators[0], ast.Constant)
                        and isinstance(st.value, ast.Constant)):
                    found = f"some (({c.comparators[0].value} : Int), ({st.value.value} : Int))"
                else:
                    raise Untranslatable(f"unexpected clamp `{ast.unparse(st)}`")
        out.append(f"def clamp_{name} : Option (Int × Int) := {found}\n")
    return "".join(out)


def poisson_radius_table(tree) -> str:
    """lower clip of the per-pixel Poisson-disc radii handed to the `_poisson` kernel:
    `radius_x = np.clip(<expr>, lo, None)`; `-1` = the radius is not clipped from below"""
    fn = _resolve(_classes(tree), "VariableDensityPoissonMaskFunc", "poisson")
    rows = []
    for var in ("radius_x", "radius_y"):
        lo = None
        for st in all_stmts(fn):
            if isinstance(st, ast.Assign) and len(st.targets) == 1 and ast.unparse(st.targets[0]) == var:
                v = st.value
                if (isinstance(v, ast.Call) and ast.unparse(v.func) == "np.clip" and len(v.args) >= 2
                        and isinstance(v.args[1], ast.Constant) and isinstance(v.args[1].value, int)):
                    lo = v.args[1].value
                else:
                    lo = -1
        if lo is None:
            raise Untranslatable(f"assignment to `{var}` not found")
        rows.append(f'("{var}", ({lo} : Int))')
    # the same names must be what the kernel receives
    ok = any(isinstance(n, ast.Call) and ast.unparse(n.func) == "_poisson" and
             [ast.unparse(a) for a in n.args[4:6]] == ["radius_x", "radius_y"] for n in ast.walk(fn))
    if not ok:
        raise Untranslatable("call `_poisson(…, mask, radius_x, radius_y, seed)` not found")
    return "def poisson_radius_floor : List (String × Int) := [" + ", ".join(rows) + "]\n"


def build_table(tree) -> str:
    fn = find_function(tree, "build_masking_function")
    src = ast.unparse(fn).replace(" ", "")
    if "str_to_class('direct.common.subsample',name+'MaskFunc')" not in src:
        raise Untranslatable("class lookup `str_to_class('direct.common.subsample', name + 'MaskFunc')` not found")
    if "if'kwargs'inconstructor_paramsorkeyinconstructor_params:init_args[key]=value" not in src.replace("\n", ""):
        raise Untranslatable("keyword filtering loop not found")
    if "inspect.signature(MaskFunc.__init__).parameters" not in src:
        raise Untranslatable("constructor signature inspection not found")
    classes = _classes(tree)
    rows = []
    for name in GENERATORS:
        if name + "MaskFunc" not in classes:
            raise Untranslatable(f"class {name}MaskFunc not found")
        init = _resolve(classes, name + "MaskFunc", "__init__")
        params = {a.arg for a in init.args.args + init.args.kwonlyargs}
        anyk = init.args.kwarg is not None
        b = lambda p: "true" if (anyk or p in params) else "false"
        rows.append(f'("{name}", {b("center_fractions")}, {b("uniform_range")}, {b("mode")}, {b("crop_corner")})')
    # the Kt generators pin the mode
    kt = _resolve(classes, "KtBaseMaskFunc", "__init__")
    pinned = any(isinstance(n, ast.keyword) and n.arg == "mode" and ast.unparse(n.value) == "MaskFuncMode.DYNAMIC"
                 for n in ast.walk(kt))
    return ("def build_table : List (String × Bool × Bool × Bool × Bool) :=\n  [" + ",\n   ".join(rows) + "]\n"
            f"def kt_mode_pinned_dynamic : Bool := {'true' if pinned else 'false'}\n")



# ---------------------------------------------------------------------------------------------------
# per-generator assembly: a small abstract interpretation of `mask_func` that tracks, for every array variable,
# the boolean expression "content of one frame" over the atoms  acs | draw | other  (`draw` = something drawn /
# rasterised for THIS frame, `other` = anything else: a value shared between frames, another frame, unknown)
ACS_FUNCS = {"self.center_mask_func", "centered_disk_mask", "self.zero_pad_to_center", "self.circular_centered_mask"}
PASS_FUNCS = {"self._reshape_and_add_coil_axis", "self._broadcast_mask", "np.stack", "torch.stack", "np.tile",
              "torch.from_numpy", "np.flip", "np.fft.fftshift", "self.crop_center"}
PASS_METHODS = {"squeeze", "astype", "repeat", "reshape", "copy", "transpose", "bool", "ravel"}
DRAW_FUNCS = {"self.circus_radial_mask", "self.circus_spiral_mask", "self.poisson", "rotate", "toeplitz"}
KERNELS = {"gaussian_mask_1d", "gaussian_mask_2d"}
OTHER, ACS, DRAW, FF, EMPTY = ("other",), ("acs",), ("draw",), ("ff",), ("empty",)


class Asm:
    def __init__(self, classes, name):
        self.classes, self.name = classes, name
        self.kt = name.startswith("Kt")
        self.env: dict[str, tuple] = {}
        self.taint: set[str] = set()            # names holding something drawn per frame
        self.taint_shared: set[str] = set()     # names holding something drawn once, outside the frame loop
        self.returns: dict[str, list] = {"acs": [], "mask": []}
        self.poisson_ors_acs = None

    # -- expressions
    def has_draw(self, node) -> bool:
        return self.level(node, {"frame": True}) is not None

    def level(self, node, ctx):
        """None: nothing drawn in `node`; "frame": depends on something drawn for this frame; "shared": only on
        values drawn once for all frames (outside the frame loop)"""
        direct = shared = framed = False
        for n in ast.walk(node):
            if isinstance(n, ast.Attribute) and ast.unparse(n).startswith("self.rng."):
                direct = True
            if isinstance(n, ast.Call) and ast.unparse(n.func) in DRAW_FUNCS:
                direct = True
            if isinstance(n, ast.Name):
                framed = framed or n.id in self.taint
                shared = shared or n.id in self.taint_shared
        if framed or (direct and (ctx["frame"] or self.kt)):
            return "frame"
        if direct or shared:
            return "shared"
        return None

    def fresh(self, ctx, node=None):
        if node is not None:
            return DRAW if self.level(node, ctx) == "frame" else OTHER
        return DRAW if (ctx["frame"] or self.kt) else OTHER

    def ab(self, node, ctx) -> tuple:
        if isinstance(node, ast.Name):
            if node.id in self.env:
                return self.env[node.id]
            return DRAW if node.id in self.taint else OTHER
        if isinstance(node, ast.Subscript):
            base = node.value
            if isinstance(base, ast.Name) and base.id in self.env:
                idx = node.slice
                if ctx["loop"] and isinstance(idx, ast.Constant) and isinstance(idx.value, int) and idx.value >= 0:
                    return OTHER                      # a fixed frame read inside the frame loop
                return self.env[base.id]
            return self.ab(base, ctx)
        if isinstance(node, ast.Call):
            f = ast.unparse(node.func)
            if f in ACS_FUNCS:
                return ACS
            if f == "self.poisson":
                if self.poisson_ors_acs is None:
                    fn = _resolve(self.classes, self.name + "MaskFunc", "poisson")
                    self.poisson_ors_acs = any(
                        isinstance(st, ast.Assign) and ast.unparse(st.targets[0]) == "mask" and isinstance(st.value, ast.BinOp)
                        and isinstance(st.value.op, ast.BitOr) and ast.unparse(st.value.left) == "mask"
                        and ast.unparse(st.value.right).startswith("centered_disk_mask(") for st in all_stmts(fn))
                d = self.fresh(ctx)
                return ("or", d, ACS) if self.poisson_ors_acs else d
            if f in ("np.logical_or", "torch.logical_or") and len(node.args) == 2:
                return ("or", self.ab(node.args[0], ctx), self.ab(node.args[1], ctx))
            if f == "np.concatenate" and node.args and isinstance(node.args[0], (ast.Tuple, ast.List)) and node.args[0].elts:
                out = self.ab(node.args[0].elts[0], ctx)          # parts of one frame
                for e in node.args[0].elts[1:]:
                    out = ("or", out, self.ab(e, ctx))
                return out
            if f in PASS_FUNCS and node.args:
                a = node.args[0]
                if isinstance(a, (ast.List, ast.Tuple)) and len(a.elts) == 1:
                    a = a.elts[0]
                return self.ab(a, ctx)
            if isinstance(node.func, ast.Attribute) and node.func.attr in PASS_METHODS:
                return self.ab(node.func.value, ctx)
            if f in ("np.zeros", "torch.zeros"):
                return FF
            if self.has_draw(node):
                return self.fresh(ctx, node)
            return OTHER
        if isinstance(node, ast.BinOp) and isinstance(node.op, (ast.BitOr, ast.Add)):
            return ("or", self.ab(node.left, ctx), self.ab(node.right, ctx))
        if isinstance(node, ast.Compare) and len(node.ops) == 1:
            if isinstance(node.ops[0], ast.Gt) and ast.unparse(node.comparators[0]) == "0":
                return self.ab(node.left, ctx)          # `mask > 0` after `mask + acs_mask`
            if self.has_draw(node):
                return self.fresh(ctx, node)
            return OTHER
        if isinstance(node, ast.IfExp):
            return ("ite", self.ab(node.body, ctx), self.ab(node.orelse, ctx))
        if isinstance(node, ast.Attribute) and node.attr == "T":
            return self.ab(node.value, ctx)
        if isinstance(node, (ast.List, ast.Tuple)):
            if not node.elts:
                return EMPTY
            if len(node.elts) == 1:
                return self.ab(node.elts[0], ctx)
        if self.has_draw(node):
            return self.fresh(ctx, node)
        return OTHER

    # -- statements
    def add_taint(self, name, node, ctx):
        lv = self.level(node, ctx)
        if lv == "frame":
            self.taint.add(name)
        elif lv == "shared":
            self.taint_shared.add(name)

    def run(self, stmts, ctx):
        for st in stmts:
            self.stmt(st, ctx)

    def stmt(self, st, ctx):
        if isinstance(st, ast.Assign) and len(st.targets) == 1:
            tgt, val = st.targets[0], st.value
            if isinstance(tgt, ast.Name):
                v = self.ab(val, ctx)
                if self.has_draw(val):
                    self.add_taint(tgt.id, val, ctx)
                    if v == OTHER:
                        v = self.fresh(ctx, val)
                if v != OTHER or tgt.id in self.env:
                    self.env[tgt.id] = v
                return
            if isinstance(tgt, ast.Tuple):
                if "choose_acceleration" in ast.unparse(val):
                    return                                   # the (cf, R) choice is shared by design
                for e in tgt.elts:
                    if isinstance(e, ast.Name) and self.has_draw(val):
                        self.add_taint(e.id, val, ctx)
                return
            if (isinstance(tgt, ast.Subscript) and isinstance(tgt.value, ast.Call) and isinstance(tgt.value.func, ast.Attribute)
                    and tgt.value.func.attr == "ravel" and isinstance(tgt.value.func.value, ast.Name)):
                tgt = ast.Subscript(value=tgt.value.func.value, slice=tgt.slice, ctx=tgt.ctx)      # X.ravel()[idx] = v
            if isinstance(tgt, ast.Subscript) and isinstance(tgt.value, ast.Name):
                base, idx = tgt.value.id, tgt.slice
                both = ast.Tuple(elts=[idx, val], ctx=ast.Load())
                if self.has_draw(both):
                    self.add_taint(base, both, ctx)
                if base not in self.env:
                    return
                if isinstance(idx, ast.Name) and idx.id == ctx.get("var"):
                    self.env[base] = self.ab(val, ctx)                 # X[i] = E
                elif self.has_draw(both) and ast.unparse(val) in ("True", "1"):
                    self.env[base] = ("or", self.env[base], self.fresh(ctx, both))    # X[i, drawn] = True / X[drawn::k] = True
                elif self.has_draw(both):
                    self.env[base] = OTHER
                else:
                    self.env[base] = OTHER
                return
            return
        if isinstance(st, ast.Expr) and isinstance(st.value, ast.Call):
            c = st.value
            f = ast.unparse(c.func)
            if isinstance(c.func, ast.Attribute) and c.func.attr == "append" and isinstance(c.func.value, ast.Name):
                base = c.func.value.id
                if base in self.env:
                    v = self.ab(c.args[0], ctx)
                    old = self.env[base]
                    self.env[base] = v if old in (EMPTY, v) else ("ite", old, v)
                return
            if f in KERNELS:
                for a in c.args:
                    b = a.value if isinstance(a, ast.Subscript) else a
                    if isinstance(b, ast.Name) and b.id in self.env:
                        self.env[b.id] = ("or", self.env[b.id], self.fresh(ctx, c))
                        return
            return
        if isinstance(st, ast.For):
            it = ast.unparse(st.iter).replace(" ", "")
            if it == "range(num_slc_or_time)":
                self.run(st.body, dict(ctx, loop=True, frame=True, var=ast.unparse(st.target)))
            else:
                self.run(st.body, ctx)
            return
        if isinstance(st, ast.With):
            self.run(st.body, ctx)
            return
        if isinstance(st, ast.If):
            t = ast.unparse(st.test)
            if t == "return_acs":
                self.run(st.body, dict(ctx, branch="acs"))
                return
            before = dict(self.env)
            self.run(st.body, ctx)
            a = dict(self.env)
            self.env = dict(before)
            self.run(st.orelse, dict(ctx, frame=True) if t == FRAMED else ctx)
            b = self.env
            self.env = {k: (a[k] if a.get(k) == b.get(k) else
                            a[k] if k not in b or b[k] == before.get(k) and not st.orelse else
                            b[k] if k not in a else ("ite", a[k], b[k])) for k in set(a) | set(b)}
            return
        if isinstance(st, ast.Return) and st.value is not None:
            self.returns[ctx.get("branch", "mask")].append(self.ab(st.value, ctx))
            return


def _lean_bexp(e) -> str:
    k = e[0]
    if k in ("acs", "draw", "other", "ff"):
        return {"acs": ".acs", "draw": ".draw", "other": ".other", "ff": ".ff"}[k]
    if k == "empty":
        return ".other"
    return f"(.{k} {_lean_bexp(e[1])} {_lean_bexp(e[2])})"


def _join(vals):
    if not vals:
        return OTHER
    out = vals[0]
    for v in vals[1:]:
        if v != out:
            out = ("ite", out, v)
    return out


def assembly_table(tree) -> str:
    classes = _classes(tree)
    rows = []
    for name in GENERATORS:
        fn = _resolve(classes, name + "MaskFunc", "mask_func")
        a = Asm(classes, name)
        a.run(fn.body, {"loop": False, "frame": False, "var": None})
        rows.append(f'("{name}", {_lean_bexp(_join(a.returns["mask"]))}, {_lean_bexp(_join(a.returns["acs"]))})')
    return ("def assembly_table : List (String × MaskGeom.BExp × MaskGeom.BExp) :=\n  [" + ",\n   ".join(rows) + "]\n")

FALLBACKS = {
    "reshape_tables": ("def reshape_assign : List (Nat × Nat) := MaskGeom.reshapeAssign\n"
                       "def reshape_assign_framed : List (Nat × Nat) := MaskGeom.reshapeAssignFramed\n"),
    "broadcast_table": "def broadcast_branches : List (Nat × List Nat) := MaskGeom.broadcastBranches\n",
    "return_table": ("def return_table : List (String × List (Bool × Bool)) :=\n"
                     "  MaskGeom.Gen.all.map fun g => (g.name, [(true, true), (true, true)])\n"),
    "assembly_table": ("def assembly_table : List (String × MaskGeom.BExp × MaskGeom.BExp) :=\n"
                       "  MaskGeom.Gen.all.map fun g => (g.name, .or .draw .acs, .acs)\n"),
    "clamp_table": "def clamp_KtUniform : Option (Int × Int) := some (0, 1)\ndef clamp_KtGaussian1D : Option (Int × Int) := none\n",
    "poisson_radius_table": "def poisson_radius_floor : List (String × Int) := MaskGeom.poissonRadiusFloor\n",
    "build_table": ("def build_table : List (String × Bool × Bool × Bool × Bool) := MaskGeom.buildTable\n"
                    "def kt_mode_pinned_dynamic : Bool := true\n"),
}


def _extra():
    from ..gen import REPO

    chunks, status = [], {}
    try:
        tree = parse_file(REPO / F)
    except Untranslatable as e:
        tree, err = None, e
    for key, fn in (("reshape_tables", reshape_tables), ("broadcast_table", broadcast_table),
                    ("return_table", return_table), ("assembly_table", assembly_table), ("clamp_table", clamp_table), ("poisson_radius_table", poisson_radius_table), ("build_table", build_table)):
        try:
            if tree is None:
                raise err
            chunks.append(f"/-- translated from `{F}` ({key}) -/\n" + fn(tree))
            status[key] = "translated"
        except Untranslatable as e:
            chunks.append(f"/-- SKIPPED ({e}); stands for the hand-written model -/\n" + FALLBACKS[key])
            status[key] = f"skipped: {e}"
    return "\n".join(chunks), status


EXTRA["C04"] = _extra
