"""Translation recipes for C04 (mask generator geometry): guards, reshape / broadcast tables, the
return-wrapper table of every `mask_func`, the `build_masking_function` table, Magic offsets."""
from __future__ import annotations

import ast

from ..gen import EXTRA, Kernel, Untranslatable, all_stmts, assign_value, find_assign, guard_condition, register
from ..pyexpr import ExprTr, emit_def, find_function, parse_file

F = "direct/common/subsample.py"
MG = ("DirectVerif.Model.MaskGeom", "DirectVerif.Model.C04Poisson", "DirectVerif.Model.C04Tables")   # the latter for the `.pyx` tables of EXTRA
FRAMED = "self.mode in [MaskFuncMode.DYNAMIC, MaskFuncMode.MULTISLICE]"
GENERATORS = [
    "FastMRIRandom", "CartesianRandom", "FastMRIEquispaced", "CartesianEquispaced", "FastMRIMagic",
    "CartesianMagic", "Gaussian1D", "Gaussian2D", "Radial", "Spiral", "VariableDensityPoisson",
    "KtRadial", "KtUniform", "KtGaussian1D",
]


class Tr(ExprTr):
    """ExprTr + `e ** 2` (→ `MaskGeom.sq e`) + bound compound expressions."""

    def int(self, node):
        text = ast.unparse(node)
        if text in self.binds and not (isinstance(node, ast.Name) and node.id in self.locals):
            return self.binds[text]
        if isinstance(node, ast.BinOp) and isinstance(node.op, ast.Pow):
            if isinstance(node.right, ast.Constant) and node.right.value == 2:
                return f"(MaskGeom.sq {self.int(node.left)})"
            raise Untranslatable(f"power `{text}`")
        if isinstance(node, ast.Call):
            f = ast.unparse(node.func)
            # integer-valued numpy float idioms: floor(a / b), ceil(a / b), round(e).astype(int), e.astype(int)
            if f in ("np.floor", "np.ceil") and len(node.args) == 1 and isinstance(node.args[0], ast.BinOp) \
                    and isinstance(node.args[0].op, ast.Div):
                a, b = self.int(node.args[0].left), self.int(node.args[0].right)
                return f"(Int.fdiv {a} {b})" if f == "np.floor" else f"(-(Int.fdiv (-{a}) {b}))"
            if isinstance(node.func, ast.Attribute) and node.func.attr == "astype" and len(node.args) == 1 \
                    and ast.unparse(node.args[0]) == "int":
                return self.int(node.func.value)
            if f == "np.round" and len(node.args) == 1:
                return self.int(node.args[0])
        return super().int(node)


def guard_nth(binds, bool_binds, nth):
    """nth `if …: raise` guard, with boolean leaves"""

    def build(k, fn):
        tr = Tr(binds, bool_binds)
        n = 0
        for st in all_stmts(fn):
            if isinstance(st, ast.If) and st.body and isinstance(st.body[0], ast.Raise):
                if n == nth:
                    return emit_def(k.name, k.params, [], tr.bool(st.test), "Bool")
                n += 1
        raise Untranslatable("guard not found")

    return build


def not_in_guard(var_text, lean_var):
    """`if <var> not in [c1, c2, …]: raise`  ->  `!(v == c1 || v == c2 …)`"""

    def build(k, fn):
        for st in all_stmts(fn):
            if (isinstance(st, ast.If) and st.body and isinstance(st.body[0], ast.Raise) and isinstance(st.test, ast.Compare)
                    and len(st.test.ops) == 1 and isinstance(st.test.ops[0], ast.NotIn)
                    and ast.unparse(st.test.left) == var_text and isinstance(st.test.comparators[0], (ast.List, ast.Tuple))):
                consts = []
                for e in st.test.comparators[0].elts:
                    if not (isinstance(e, ast.Constant) and isinstance(e.value, int)):
                        raise Untranslatable("non-constant rank list")
                    consts.append(e.value)
                body = " || ".join(f"({lean_var} == ({c} : Int))" for c in consts) or "false"
                return emit_def(k.name, k.params, [], f"(!({body}))", "Bool")
        raise Untranslatable("`not in` rank guard not found")

    return build


MGI = ("DirectVerif.Model.MaskInterior",)


def tr_assign(binds, target, nth=0):
    """right-hand side of the nth assignment to `target`, translated with the numpy idioms of `Tr`"""

    def build(k, fn):
        st = find_assign(fn, target, nth)
        return emit_def(k.name, k.params, [], Tr(binds).int(st.value))

    return build


def if_assign(binds, target):
    """value of `target` after `if c: target = a … else: target = b …`"""

    def build(k, fn):
        tr = Tr(binds)
        for st in all_stmts(fn):
            if isinstance(st, ast.If) and st.orelse:
                def val(body):
                    for s in body:
                        if isinstance(s, ast.Assign) and len(s.targets) == 1 and ast.unparse(s.targets[0]) == target:
                            return s.value
                    return None
                a, b = val(st.body), val(st.orelse)
                if a is not None and b is not None:
                    return emit_def(k.name, k.params, [], f"(if {tr.bool(st.test)} then {tr.int(a)} else {tr.int(b)})")
        raise Untranslatable(f"if/else assignment of `{target}` not found")

    return build


def _const_tuple(node):
    """nested tuple / list of integer constants -> python value, else None"""
    if isinstance(node, (ast.Tuple, ast.List)):
        out = [_const_tuple(e) for e in node.elts]
        return None if any(o is None for o in out) else tuple(out)
    if isinstance(node, ast.Constant) and isinstance(node.value, int) and not isinstance(node.value, bool):
        return node.value
    if isinstance(node, ast.UnaryOp) and isinstance(node.op, ast.USub) and isinstance(node.operand, ast.Constant) \
            and isinstance(node.operand.value, int):
        return -node.operand.value
    return None


def _const_node(v):
    return ast.UnaryOp(op=ast.USub(), operand=ast.Constant(value=-v)) if v < 0 else ast.Constant(value=v)


def resolve_locals(fn, node, bound: set, depth: int = 0):
    """`node` with every local name that is not in `bound` replaced by its definition: a single plain assignment, an
    `if c: x = a else: x = b` pair (-> `a if c else b`), or a tuple unpacking from a constant table indexed by an
    expression, `a, b = TABLE[e]` (-> a chain of conditional expressions on `e`)."""
    if depth > 12:
        raise Untranslatable("definitions nest too deeply")
    stmts = list(all_stmts(fn))

    def definition(name):
        plain, ifs, unpack = [], [], []
        for st in stmts:
            if isinstance(st, ast.Assign) and len(st.targets) == 1:
                t = st.targets[0]
                if isinstance(t, ast.Name) and t.id == name:
                    plain.append(st)
                if isinstance(t, ast.Tuple) and any(isinstance(e, ast.Name) and e.id == name for e in t.elts):
                    unpack.append(st)
            if isinstance(st, ast.If) and st.orelse:
                def val(body):
                    vs = [x.value for x in body if isinstance(x, ast.Assign) and len(x.targets) == 1
                          and isinstance(x.targets[0], ast.Name) and x.targets[0].id == name]
                    return vs[0] if len(vs) == 1 else None
                a, b = val(st.body), val(st.orelse)
                if a is not None and b is not None:
                    ifs.append(ast.IfExp(test=st.test, body=a, orelse=b))
        if len(ifs) == 1 and len(plain) == 2 and not unpack:
            return ifs[0]
        if len(plain) == 1 and not ifs and not unpack:
            return plain[0].value
        if len(unpack) == 1 and not plain and not ifs:
            st = unpack[0]
            pos = [i for i, e in enumerate(st.targets[0].elts) if isinstance(e, ast.Name) and e.id == name][0]
            v = st.value
            if isinstance(v, ast.Subscript):
                table = _const_tuple(v.value)
                if table is None and isinstance(v.value, ast.Name):
                    d = definition(v.value.id)
                    table = _const_tuple(d) if d is not None else None
                if (isinstance(table, tuple) and table and all(isinstance(r, tuple) and len(r) > pos and isinstance(r[pos], int)
                                                                 for r in table)):
                    out = _const_node(table[-1][pos])
                    for k in range(len(table) - 2, -1, -1):
                        out = ast.IfExp(test=ast.Compare(left=v.slice, ops=[ast.Eq()], comparators=[ast.Constant(value=k)]),
                                        body=_const_node(table[k][pos]), orelse=out)
                    return out
        return None

    class R(ast.NodeTransformer):
        def visit_Name(self, n):
            if n.id in bound:
                return n
            d = definition(n.id)
            if d is None:
                raise Untranslatable(f"no unique definition of local `{n.id}`")
            return resolve_locals(fn, d, bound, depth + 1)

    import copy

    return ast.fix_missing_locations(R().visit(copy.deepcopy(node)))


def slice_start(binds, array: str):
    """lower bound `e` of the statement `<array>[e::step] = True`, locals resolved"""

    def build(k, fn):
        for st in all_stmts(fn):
            if (isinstance(st, ast.Assign) and len(st.targets) == 1 and isinstance(st.targets[0], ast.Subscript)
                    and ast.unparse(st.targets[0].value) == array and isinstance(st.targets[0].slice, ast.Slice)
                    and st.targets[0].slice.lower is not None):
                e = resolve_locals(fn, st.targets[0].slice.lower, set(binds))
                return emit_def(k.name, k.params, [], Tr(binds).int(e))
        raise Untranslatable(f"`{array}[start::step] = …` not found")

    return build


def resolved_value(binds, target: str):
    """value of the single assignment to `target`, locals resolved"""

    def build(k, fn):
        st = find_assign(fn, target, 0)
        return emit_def(k.name, k.params, [], Tr(binds).int(resolve_locals(fn, st.value, set(binds))))

    return build


register("C04", [
    Kernel("call_rejects_rank", F, "BaseMaskFunc.__call__", ["rank"], "(fun rank => decide (rank < 3))",
           guard_condition({"len(shape)": "rank"}, 0), ret_type="Bool", imports=MG),
    Kernel("call_rejects_framed", F, "BaseMaskFunc.__call__", ["framed", "rank"],
           "(fun framed rank => (framed != 0) && decide (rank < 4))",
           guard_nth({"len(shape)": "rank"}, {FRAMED: "(framed != 0)"}, 1), ret_type="Bool", imports=MG),
] + [
    Kernel(f"kt_rejects_{cls}", F, f"{cls}MaskFunc.mask_func", ["rank"], "(fun rank => !(rank == 4 || rank == 5))",
           not_in_guard("len(shape)", "rank"), ret_type="Bool", imports=MG)
    for cls in ("KtRadial", "KtUniform", "KtGaussian1D")
] + [
    # start of the comb in the positive / negative half (whatever the names of the intermediate locals, whether the parity
    # decision is an if/else or a table lookup) and the two half lengths
    Kernel("magic_offset_pos", F, "MagicMaskFunc.mask_func", ["offset"], "MaskGeom.magicOffPos",
           slice_start({"offset": "offset"}, "mask_positive"), imports=MG),
    Kernel("magic_offset_neg", F, "MagicMaskFunc.mask_func", ["offset"], "MaskGeom.magicOffNeg",
           slice_start({"offset": "offset"}, "mask_negative"), imports=MG),
    Kernel("magic_poslen", F, "MagicMaskFunc.mask_func", ["num_cols"], "MaskGeom.magicPosLen",
           resolved_value({"num_cols": "num_cols"}, "poslen"), imports=MG),
    Kernel("magic_neglen", F, "MagicMaskFunc.mask_func", ["num_cols"], "MaskGeom.magicNegLen",
           resolved_value({"num_cols": "num_cols"}, "neglen"), imports=MG),
    # k-t grid helpers
    Kernel("kt_linear_x", F, "KtBaseMaskFunc.linear_indices_to_2d_coordinates", ["idx", "row"],
           "(fun idx row => (MaskGeom.linear2d idx row).1)", tr_assign({"indices": "idx", "row_length": "row"}, "x_coords"),
           imports=MGI),
    Kernel("kt_linear_y", F, "KtBaseMaskFunc.linear_indices_to_2d_coordinates", ["idx", "row"],
           "(fun idx row => (MaskGeom.linear2d idx row).2)", tr_assign({"indices": "idx", "row_length": "row"}, "y_coords"),
           imports=MGI),
    Kernel("kt_phase_corrected", F, "KtBaseMaskFunc.resolve_duplicates_on_kt_grid", ["phase", "ny"],
           "(fun phase ny => phase + MaskGeom.halfUp ny)", tr_assign({"phase": "phase", "ny": "ny"}, "phase_corrected"),
           imports=MGI),
    Kernel("kt_time_corrected", F, "KtBaseMaskFunc.resolve_duplicates_on_kt_grid", ["time", "nt"],
           "(fun time nt => time + MaskGeom.halfUp nt)", tr_assign({"time": "time", "nt": "nt"}, "time_corrected"),
           imports=MGI),
    Kernel("kt_trajectory_index", F, "KtBaseMaskFunc.resolve_duplicates_on_kt_grid", ["tc", "pc", "ny"],
           "(fun tc pc ny => (tc - 1) * ny + pc)",
           tr_assign({"time_corrected": "tc", "phase_corrected": "pc", "ny": "ny"}, "trajectory_indices"), imports=MGI),
    Kernel("kt_uniform_ph", F, "KtUniformMaskFunc.mask_func", ["ind", "num_cols"],
           "(fun ind n => ind % n - n / 2)", tr_assign({"ind": "ind", "num_cols": "num_cols"}, "ph"), imports=MGI),
    Kernel("kt_uniform_ti", F, "KtUniformMaskFunc.mask_func", ["ind", "num_cols", "nt"],
           "(fun ind n nt => ind / n - nt / 2)", tr_assign({"ind": "ind", "num_cols": "num_cols", "nt": "nt"}, "ti"), imports=MGI),
    Kernel("kt_uniform_inds", F, "KtUniformMaskFunc.mask_func", ["ph", "ti", "num_cols", "nt"],
           "(fun ph ti n nt => n * (ti + nt / 2) + (ph + n / 2))",
           tr_assign({"ph": "ph", "ti": "ti", "num_cols": "num_cols", "nt": "nt"}, "inds"), imports=MGI),
    Kernel("kt_gaussian_inds", F, "KtGaussian1DMaskFunc.mask_func", ["ph", "ti", "num_cols", "nt"],
           "(fun ph ti n nt => n * (ti + nt / 2) + (ph + n / 2))",
           tr_assign({"ph": "ph", "ti": "ti", "num_cols": "num_cols", "nt": "nt"}, "inds"), imports=MGI),
])


# ---------------------------------------------------------------------------------------------------
# structural tables
def _neg_index(node: ast.AST, base: str):
    """`base[-k]` -> k"""
    if (isinstance(node, ast.Subscript) and ast.unparse(node.value) == base and isinstance(node.slice, ast.UnaryOp)
            and isinstance(node.slice.op, ast.USub) and isinstance(node.slice.operand, ast.Constant)
            and isinstance(node.slice.operand.value, int)):
        return node.slice.operand.value
    return None


def reshape_tables(tree) -> str:
    fn = find_function(tree, "BaseMaskFunc._reshape_and_add_coil_axis")
    names: dict[str, int] = {}
    assign, framed = [], []
    seen_ones = seen_bool = seen_coil = False
    for st in fn.body:
        if isinstance(st, ast.Expr):       # docstring
            continue
        if isinstance(st, ast.Assign) and len(st.targets) == 1:
            tgt, val = st.targets[0], st.value
            k = _neg_index(val, "shape")
            if isinstance(tgt, ast.Name) and k is not None:
                names[tgt.id] = k
                continue
            if isinstance(tgt, ast.Name) and tgt.id == "mask_shape":
                if ast.unparse(val).replace(" ", "") != "[1for_inshape]":
                    raise Untranslatable(f"mask_shape initialised as `{ast.unparse(val)}`")
                seen_ones = True
                continue
            kt = _neg_index(tgt, "mask_shape")
            if kt is not None:
                j = names.get(val.id) if isinstance(val, ast.Name) else _neg_index(val, "shape")
                if j is None:
                    raise Untranslatable(f"mask_shape[-{kt}] = `{ast.unparse(val)}`")
                assign.append((kt, j))
                continue
            if isinstance(tgt, ast.Name) and tgt.id == "mask":
                v = ast.unparse(val).replace(" ", "")
                if v == "mask.reshape(*mask_shape).bool()":
                    seen_bool = True
                    continue
                if v == "mask[None,...]":
                    seen_coil = True
                    continue
            raise Untranslatable(f"unexpected statement `{ast.unparse(st)}`")
        if isinstance(st, ast.If):
            t = ast.unparse(st.test)
            if t == FRAMED and not st.orelse:
                for s in st.body:
                    kt = _neg_index(s.targets[0], "mask_shape") if isinstance(s, ast.Assign) else None
                    j = None
                    if kt is not None:
                        j = names.get(s.value.id) if isinstance(s.value, ast.Name) else _neg_index(s.value, "shape")
                    if kt is None or j is None:
                        raise Untranslatable(f"unexpected statement `{ast.unparse(s)}` in the framed branch")
                    framed.append((kt, j))
                continue
            if t == "isinstance(mask, np.ndarray)":
                continue
            raise Untranslatable(f"unexpected branch `{t}`")
        if isinstance(st, ast.Return):
            if ast.unparse(st.value) != "mask":
                raise Untranslatable("unexpected return value")
            continue
        raise Untranslatable(f"unexpected statement `{ast.unparse(st)}`")
    if not (seen_ones and seen_bool and seen_coil):
        raise Untranslatable("ones-initialisation / reshape().bool() / mask[None, ...] not found")
    fmt = lambda ps: "[" + ", ".join(f"({a}, {b})" for a, b in ps) + "]"
    return (f"def reshape_assign : List (Nat × Nat) := {fmt(assign)}\n"
            f"def reshape_assign_framed : List (Nat × Nat) := {fmt(framed)}\n")


def broadcast_table(tree) -> str:
    fn = find_function(tree, "CartesianVerticalMaskFunc._broadcast_mask")
    chain = [s for s in fn.body if isinstance(s, ast.If)]
    if len(chain) != 1:
        raise Untranslatable("expected one if/elif chain")
    node, rows = chain[0], []
    while True:
        t = node.test
        if not (isinstance(t, ast.Compare) and ast.unparse(t.left) == "mask.ndim" and isinstance(t.ops[0], ast.Eq)
                and isinstance(t.comparators[0], ast.Constant)):
            raise Untranslatable(f"unexpected test `{ast.unparse(t)}`")
        nd = t.comparators[0].value
        if len(node.body) != 1 or not isinstance(node.body[0], ast.Assign):
            raise Untranslatable("unexpected branch body")
        call = node.body[0].value
        if not (isinstance(call, ast.Call) and ast.unparse(call.func) == "np.tile" and len(call.args) == 2
                and isinstance(call.args[1], ast.Tuple)):
            raise Untranslatable(f"unexpected `{ast.unparse(call)}`")
        arg = ast.unparse(call.args[0]).replace(" ", "")
        want = {1: "mask", 2: "mask[:,np.newaxis,:]"}.get(nd)
        if arg != want:
            raise Untranslatable(f"ndim {nd}: tiles `{arg}`")
        reps = []
        for e in call.args[1].elts:
            if isinstance(e, ast.Name) and e.id == "num_rows":
                reps.append(0)
            elif isinstance(e, ast.Constant) and isinstance(e.value, int) and e.value >= 1:
                reps.append(e.value)
            else:
                raise Untranslatable(f"repetition `{ast.unparse(e)}`")
        rows.append((nd, reps))
        if len(node.orelse) == 1 and isinstance(node.orelse[0], ast.If):
            node = node.orelse[0]
            continue
        if not (len(node.orelse) == 1 and isinstance(node.orelse[0], ast.Raise)
                and "ValueError" in ast.unparse(node.orelse[0])):
            raise Untranslatable("else branch does not raise ValueError")
        break
    body = ", ".join(f"({nd}, [{', '.join(map(str, r))}])" for nd, r in rows)
    return f"def broadcast_branches : List (Nat × List Nat) := [{body}]\n"


def _classes(tree):
    return {n.name: n for n in tree.body if isinstance(n, ast.ClassDef)}


def _resolve(classes, cls: str, meth: str):
    """method `meth` of class `cls` following the (single-inheritance) bases in the module"""
    seen = set()
    while cls in classes and cls not in seen:
        seen.add(cls)
        for n in classes[cls].body:
            if isinstance(n, ast.FunctionDef) and n.name == meth:
                return n
        bases = [b.id for b in classes[cls].bases if isinstance(b, ast.Name)]
        if not bases:
            break
        cls = bases[0]
    raise Untranslatable(f"{cls}.{meth} not found")


def _is_wrap(node):
    """(wrapped, through_broadcast) of an expression"""
    if (isinstance(node, ast.Call) and ast.unparse(node.func) == "self._reshape_and_add_coil_axis" and len(node.args) == 2
            and not node.keywords and ast.unparse(node.args[1]) == "shape"):
        a = node.args[0]
        b = (isinstance(a, ast.Call) and ast.unparse(a.func) == "self._broadcast_mask" and len(a.args) == 2
             and ast.unparse(a.args[1]) == "num_rows")
        return True, bool(b)
    return None


def return_table(tree) -> str:
    classes = _classes(tree)
    rows = []
    for name in GENERATORS:
        fn = _resolve(classes, name + "MaskFunc", "mask_func")
        # last wrapping assignment of every name, in source order
        events = []   # (lineno, kind, payload)
        for n in ast.walk(fn):
            if isinstance(n, ast.Assign) and len(n.targets) == 1 and isinstance(n.targets[0], ast.Name):
                events.append((n.lineno, "assign", n))
            elif isinstance(n, ast.Return):
                events.append((n.lineno, "return", n))
        events.sort(key=lambda e: e[0])
        state: dict[str, tuple | None] = {}
        rets = []

        def classify(e):
            w = _is_wrap(e)
            if w is not None:
                return w
            if isinstance(e, ast.Name):
                return state.get(e.id) or (False, False)
            if isinstance(e, ast.BinOp) and isinstance(e.op, ast.BitOr):
                l, r = classify(e.left), classify(e.right)
                return (l[0] and r[0], l[1] and r[1])
            return (False, False)

        for _, kind, n in events:
            if kind == "assign":
                state[n.targets[0].id] = _is_wrap(n.value)
            else:
                rets.append(classify(n.value) if n.value is not None else (False, False))
        b = lambda v: "true" if v else "false"
        rows.append(f'("{name}", [' + ", ".join(f"({b(w)}, {b(br)})" for w, br in rets) + "])")
    return "def return_table : List (String × List (Bool × Bool)) :=\n  [" + ",\n   ".join(rows) + "]\n"


def clamp_table(tree) -> str:
    """`inds[inds <= c] = v` statements of the two k-t line generators"""
    classes = _classes(tree)
    out = []
    for name in ("KtUniform", "KtGaussian1D"):
        fn = _resolve(classes, name + "MaskFunc", "mask_func")
        found = "none"
        for st in all_stmts(fn):
            if (isinstance(st, ast.Assign) and isinstance(st.targets[0], ast.Subscript) and ast.unparse(st.targets[0].value) == "inds"
                    and isinstance(st.targets[0].slice, ast.Compare)):
                c = st.targets[0].slice
                if (ast.unparse(c.left) == "inds" and isinstance(c.ops[0], ast.LtE) and isinstance(c.comparators[0], ast.Constant)
                        and isinstance(st.value, ast.Constant)):
                    found = f"some (({c.comparators[0].value} : Int), ({st.value.value} : Int))"
                else:
                    raise Untranslatable(f"unexpected clamp `{ast.unparse(st)}`")
        out.append(f"def clamp_{name} : Option (Int × Int) := {found}\n")
    return "".join(out)


def poisson_radius_table(tree) -> str:
    """lower clip of the per-pixel Poisson-disc radii handed to the `_poisson` kernel:
    `radius_x = np.clip(<expr>, lo, None)`; `-1` = the radius is not clipped from below"""
    fn = _resolve(_classes(tree), "VariableDensityPoissonMaskFunc", "poisson")
    rows = []
    for var in ("radius_x", "radius_y"):
        lo = None
        for st in all_stmts(fn):
            if isinstance(st, ast.Assign) and len(st.targets) == 1 and ast.unparse(st.targets[0]) == var:
                v = st.value
                if (isinstance(v, ast.Call) and ast.unparse(v.func) == "np.clip" and len(v.args) >= 2
                        and isinstance(v.args[1], ast.Constant) and isinstance(v.args[1].value, int)):
                    lo = v.args[1].value
                else:
                    lo = -1
        if lo is None:
            raise Untranslatable(f"assignment to `{var}` not found")
        rows.append(f'("{var}", ({lo} : Int))')
    # the same names must be what the kernel receives
    ok = any(isinstance(n, ast.Call) and ast.unparse(n.func) == "_poisson" and
             [ast.unparse(a) for a in n.args[4:6]] == ["radius_x", "radius_y"] for n in ast.walk(fn))
    if not ok:
        raise Untranslatable("call `_poisson(…, mask, radius_x, radius_y, seed)` not found")
    return "def poisson_radius_floor : List (String × Int) := [" + ", ".join(rows) + "]\n"


def build_table(tree) -> str:
    fn = find_function(tree, "build_masking_function")
    src = ast.unparse(fn).replace(" ", "")
    if "str_to_class('direct.common.subsample',name+'MaskFunc')" not in src:
        raise Untranslatable("class lookup `str_to_class('direct.common.subsample', name + 'MaskFunc')` not found")
    if "if'kwargs'inconstructor_paramsorkeyinconstructor_params:init_args[key]=value" not in src.replace("\n", ""):
        raise Untranslatable("keyword filtering loop not found")
    if "inspect.signature(MaskFunc.__init__).parameters" not in src:
        raise Untranslatable("constructor signature inspection not found")
    classes = _classes(tree)
    rows = []
    for name in GENERATORS:
        if name + "MaskFunc" not in classes:
            raise Untranslatable(f"class {name}MaskFunc not found")
        init = _resolve(classes, name + "MaskFunc", "__init__")
        params = {a.arg for a in init.args.args + init.args.kwonlyargs}
        anyk = init.args.kwarg is not None
        b = lambda p: "true" if (anyk or p in params) else "false"
        rows.append(f'("{name}", {b("center_fractions")}, {b("uniform_range")}, {b("mode")}, {b("crop_corner")})')
    # the Kt generators pin the mode
    kt = _resolve(classes, "KtBaseMaskFunc", "__init__")
    pinned = any(isinstance(n, ast.keyword) and n.arg == "mode" and ast.unparse(n.value) == "MaskFuncMode.DYNAMIC"
                 for n in ast.walk(kt))
    return ("def build_table : List (String × Bool × Bool × Bool × Bool) :=\n  [" + ",\n   ".join(rows) + "]\n"
            f"def kt_mode_pinned_dynamic : Bool := {'true' if pinned else 'false'}\n")



# ---------------------------------------------------------------------------------------------------
# per-generator assembly: a small abstract interpretation of `mask_func` that tracks, for every array variable,
# the boolean expression "content of one frame" over the atoms  acs | draw | other  (`draw` = something drawn /
# rasterised for THIS frame, `other` = anything else: a value shared between frames, another frame, unknown)
ACS_FUNCS = {"self.center_mask_func", "centered_disk_mask", "self.zero_pad_to_center", "self.circular_centered_mask"}
PASS_FUNCS = {"self._reshape_and_add_coil_axis", "self._broadcast_mask", "np.stack", "torch.stack", "np.tile",
              "torch.from_numpy", "np.flip", "np.fft.fftshift", "self.crop_center"}
PASS_METHODS = {"squeeze", "astype", "repeat", "reshape", "copy", "transpose", "bool", "ravel"}
DRAW_FUNCS = {"self.circus_radial_mask", "self.circus_spiral_mask", "self.poisson", "rotate", "toeplitz"}
KERNELS = {"gaussian_mask_1d", "gaussian_mask_2d"}
OTHER, ACS, DRAW, FF, EMPTY = ("other",), ("acs",), ("draw",), ("ff",), ("empty",)


class Asm:
    def __init__(self, classes, name):
        self.classes, self.name = classes, name
        self.kt = name.startswith("Kt")
        self.env: dict[str, tuple] = {}
        self.taint: set[str] = set()            # names holding something drawn per frame
        self.taint_shared: set[str] = set()     # names holding something drawn once, outside the frame loop
        self.returns: dict[str, list] = {"acs": [], "mask": []}
        self.poisson_ors_acs = None
        self.framed: set[str] = set()           # arrays whose first axis is the frame axis (`.reshape(num_slc_or_time, -1)`)
        self.draw_callables: set[str] = set()   # locals bound to a drawing method (`f = self._helper()` returning one)
        self.module = None                      # the module tree (for constant tables), set by `assembly_table`

    def _returns_draw_method(self, call) -> bool:
        """`self.<helper>(…)` whose every non-None return is a drawing method of the class: `self.<m>` or
        `getattr(self, <name>)` with the name taken from a module-level constant table of method names"""
        if not (isinstance(call, ast.Call) and isinstance(call.func, ast.Attribute) and isinstance(call.func.value, ast.Name)
                and call.func.value.id == "self"):
            return False
        try:
            helper = _resolve(self.classes, self.name + "MaskFunc", call.func.attr)
        except Untranslatable:
            return False
        consts = {}
        if self.module is not None:
            for n in self.module.body:
                if isinstance(n, ast.Assign) and len(n.targets) == 1 and isinstance(n.targets[0], ast.Name):
                    consts[n.targets[0].id] = n.value
        found = []
        for r in ast.walk(helper):
            if not isinstance(r, ast.Return) or r.value is None or (isinstance(r.value, ast.Constant) and r.value.value is None):
                continue
            v = r.value
            if isinstance(v, ast.Attribute) and ast.unparse(v) in DRAW_FUNCS:
                found.append(True)
            elif (isinstance(v, ast.Call) and ast.unparse(v.func) == "getattr" and len(v.args) == 2
                  and ast.unparse(v.args[0]) == "self"):
                names = []
                if isinstance(v.args[1], ast.Constant):
                    names = [v.args[1].value]
                else:
                    # the name comes from a loop over a module-level table: every string of the table that names a method
                    for loop in ast.walk(helper):
                        if isinstance(loop, ast.For) and isinstance(loop.iter, ast.Name) and loop.iter.id in consts:
                            names += [c.value for c in ast.walk(consts[loop.iter.id]) if isinstance(c, ast.Constant)
                                      and isinstance(c.value, str) and c.value.isidentifier()
                                      and any(isinstance(m, ast.FunctionDef) and m.name == c.value
                                              for cl in self.classes.values() for m in cl.body)]
                found.append(bool(names) and all("self." + nm in DRAW_FUNCS for nm in names))
            else:
                found.append(False)
        return bool(found) and all(found)

    # -- expressions
    def has_draw(self, node) -> bool:
        return self.level(node, {"frame": True}) is not None

    def level(self, node, ctx):
        """None: nothing drawn in `node`; "frame": depends on something drawn for this frame; "shared": only on
        values drawn once for all frames (outside the frame loop)"""
        direct = shared = framed = False
        for n in ast.walk(node):
            if isinstance(n, ast.Attribute) and ast.unparse(n).startswith("self.rng."):
                direct = True
            if isinstance(n, ast.Call) and (ast.unparse(n.func) in DRAW_FUNCS
                                            or (isinstance(n.func, ast.Name) and n.func.id in self.draw_callables)):
                direct = True
            if isinstance(n, ast.Name):
                framed = framed or n.id in self.taint
                shared = shared or n.id in self.taint_shared
        if framed or (direct and (ctx["frame"] or self.kt)):
            return "frame"
        if direct or shared:
            return "shared"
        return None

    def fresh(self, ctx, node=None):
        if node is not None:
            return DRAW if self.level(node, ctx) == "frame" else OTHER
        return DRAW if (ctx["frame"] or self.kt) else OTHER

    def ab(self, node, ctx) -> tuple:
        if isinstance(node, ast.Name):
            if node.id in self.env:
                return self.env[node.id]
            return DRAW if node.id in self.taint else OTHER
        if isinstance(node, ast.Subscript):
            base = node.value
            if isinstance(base, ast.Name) and base.id in self.env:
                idx = node.slice
                if ctx["loop"] and isinstance(idx, ast.Constant) and isinstance(idx.value, int) and idx.value >= 0:
                    return OTHER                      # a fixed frame read inside the frame loop
                return self.env[base.id]
            return self.ab(base, ctx)
        if isinstance(node, ast.Call):
            f = ast.unparse(node.func)
            if f in ACS_FUNCS:
                return ACS
            if f == "self.poisson":
                if self.poisson_ors_acs is None:
                    fn = _resolve(self.classes, self.name + "MaskFunc", "poisson")
                    self.poisson_ors_acs = any(
                        isinstance(st, ast.Assign) and ast.unparse(st.targets[0]) == "mask" and isinstance(st.value, ast.BinOp)
                        and isinstance(st.value.op, ast.BitOr) and ast.unparse(st.value.left) == "mask"
                        and ast.unparse(st.value.right).startswith("centered_disk_mask(") for st in all_stmts(fn))
                d = self.fresh(ctx)
                return ("or", d, ACS) if self.poisson_ors_acs else d
            if f in ("np.logical_or", "torch.logical_or") and len(node.args) == 2:
                return ("or", self.ab(node.args[0], ctx), self.ab(node.args[1], ctx))
            if f == "np.concatenate" and node.args and isinstance(node.args[0], (ast.Tuple, ast.List)) and node.args[0].elts:
                out = self.ab(node.args[0].elts[0], ctx)          # parts of one frame
                for e in node.args[0].elts[1:]:
                    out = ("or", out, self.ab(e, ctx))
                return out
            if f in PASS_FUNCS and node.args:
                a = node.args[0]
                if isinstance(a, (ast.List, ast.Tuple)) and len(a.elts) == 1:
                    a = a.elts[0]
                return self.ab(a, ctx)
            if isinstance(node.func, ast.Attribute) and node.func.attr in PASS_METHODS:
                return self.ab(node.func.value, ctx)
            if f in ("np.zeros", "torch.zeros"):
                return FF
            if self.has_draw(node):
                return self.fresh(ctx, node)
            return OTHER
        if isinstance(node, ast.BinOp) and isinstance(node.op, (ast.BitOr, ast.Add)):
            return ("or", self.ab(node.left, ctx), self.ab(node.right, ctx))
        if isinstance(node, ast.Compare) and len(node.ops) == 1:
            if isinstance(node.ops[0], ast.Gt) and ast.unparse(node.comparators[0]) == "0":
                return self.ab(node.left, ctx)          # `mask > 0` after `mask + acs_mask`
            if self.has_draw(node):
                return self.fresh(ctx, node)
            return OTHER
        if isinstance(node, ast.IfExp):
            a, b = self.ab(node.body, ctx), self.ab(node.orelse, ctx)
            if EMPTY in (a, b):                     # an empty frame list cannot be stacked: only the other branch returns
                return b if a == EMPTY else a
            return ("ite", a, b)
        if isinstance(node, ast.ListComp) and len(node.generators) == 1 and not node.generators[0].ifs \
                and ast.unparse(node.generators[0].iter).replace(" ", "") == "range(num_slc_or_time)":
            return self.ab(node.elt, dict(ctx, loop=True, frame=True))      # one element per frame
        if isinstance(node, ast.Attribute) and node.attr == "T":
            return self.ab(node.value, ctx)
        if isinstance(node, (ast.List, ast.Tuple)):
            if not node.elts:
                return EMPTY
            if len(node.elts) == 1:
                return self.ab(node.elts[0], ctx)
        if self.has_draw(node):
            return self.fresh(ctx, node)
        return OTHER

    # -- statements
    def add_taint(self, name, node, ctx):
        lv = self.level(node, ctx)
        if lv == "frame":
            self.taint.add(name)
        elif lv == "shared":
            self.taint_shared.add(name)

    def run(self, stmts, ctx):
        for st in stmts:
            self.stmt(st, ctx)

    def stmt(self, st, ctx):
        if isinstance(st, ast.Assign) and len(st.targets) == 1:
            tgt, val = st.targets[0], st.value
            if isinstance(tgt, ast.Name):
                if self._returns_draw_method(val):
                    self.draw_callables.add(tgt.id)
                    return
                if "reshape(num_slc_or_time" in ast.unparse(val).replace(" ", ""):
                    self.framed.add(tgt.id)
                v = self.ab(val, ctx)
                if self.has_draw(val):
                    self.add_taint(tgt.id, val, ctx)
                    if v == OTHER:
                        v = self.fresh(ctx, val)
                if v != OTHER or tgt.id in self.env:
                    self.env[tgt.id] = v
                return
            if isinstance(tgt, ast.Tuple):
                if "choose_acceleration" in ast.unparse(val):
                    return                                   # the (cf, R) choice is shared by design
                for e in tgt.elts:
                    if isinstance(e, ast.Name) and self.has_draw(val):
                        self.add_taint(e.id, val, ctx)
                return
            if (isinstance(tgt, ast.Subscript) and isinstance(tgt.value, ast.Call) and isinstance(tgt.value.func, ast.Attribute)
                    and tgt.value.func.attr == "ravel" and isinstance(tgt.value.func.value, ast.Name)):
                tgt = ast.Subscript(value=tgt.value.func.value, slice=tgt.slice, ctx=tgt.ctx)      # X.ravel()[idx] = v
            if isinstance(tgt, ast.Subscript) and isinstance(tgt.value, ast.Name):
                base, idx = tgt.value.id, tgt.slice
                both = ast.Tuple(elts=[idx, val], ctx=ast.Load())
                if self.has_draw(both):
                    self.add_taint(base, both, ctx)
                if base not in self.env:
                    return
                if isinstance(idx, ast.Name) and idx.id == ctx.get("var"):
                    self.env[base] = self.ab(val, ctx)                 # X[i] = E
                elif self.has_draw(both) and ast.unparse(val) in ("True", "1"):
                    self.env[base] = ("or", self.env[base], self.fresh(ctx, both))    # X[i, drawn] = True / X[drawn::k] = True
                elif self.has_draw(both):
                    self.env[base] = OTHER
                else:
                    self.env[base] = OTHER
                return
            return
        if isinstance(st, ast.AugAssign) and isinstance(st.target, ast.Name) and isinstance(st.op, (ast.BitOr, ast.Add)):
            # `x |= E` (in place: for a row view of a framed array the loop copies the value back)
            t = st.target.id
            v = self.ab(st.value, ctx)
            if self.has_draw(st.value):
                self.add_taint(t, st.value, ctx)
                if v == OTHER:
                    v = self.fresh(ctx, st.value)
            self.env[t] = ("or", self.env.get(t, OTHER), v)
            return
        if isinstance(st, ast.Expr) and isinstance(st.value, ast.Call):
            c = st.value
            f = ast.unparse(c.func)
            if isinstance(c.func, ast.Attribute) and c.func.attr == "append" and isinstance(c.func.value, ast.Name):
                base = c.func.value.id
                if base in self.env:
                    v = self.ab(c.args[0], ctx)
                    old = self.env[base]
                    self.env[base] = v if old in (EMPTY, v) else ("ite", old, v)
                return
            if f in KERNELS:
                for a in c.args:
                    b = a.value if isinstance(a, ast.Subscript) else a
                    if isinstance(b, ast.Name) and b.id in self.env:
                        self.env[b.id] = ("or", self.env[b.id], self.fresh(ctx, c))
                        return
            return
        if isinstance(st, ast.For):
            it = ast.unparse(st.iter).replace(" ", "")
            if it == "range(num_slc_or_time)":
                self.run(st.body, dict(ctx, loop=True, frame=True, var=ast.unparse(st.target)))
            elif (isinstance(st.iter, ast.Name) and st.iter.id in self.framed and st.iter.id in self.env
                  and isinstance(st.target, ast.Name)):
                # `for row in X` over the frame axis of X: `row` is a view of frame i of X
                src, row = st.iter.id, st.target.id
                self.env[row] = self.env[src]
                self.run(st.body, dict(ctx, loop=True, frame=True, var=None))
                self.env[src] = self.env.pop(row)
            else:
                self.run(st.body, ctx)
            return
        if isinstance(st, ast.With):
            self.run(st.body, ctx)
            return
        if isinstance(st, ast.If):
            t = ast.unparse(st.test)
            if t == "return_acs":
                self.run(st.body, dict(ctx, branch="acs"))
                return
            before = dict(self.env)
            self.run(st.body, ctx)
            a = dict(self.env)
            self.env = dict(before)
            self.run(st.orelse, dict(ctx, frame=True) if t == FRAMED else ctx)
            b = self.env
            self.env = {k: (a[k] if a.get(k) == b.get(k) else
                            a[k] if k not in b or b[k] == before.get(k) and not st.orelse else
                            b[k] if k not in a else ("ite", a[k], b[k])) for k in set(a) | set(b)}
            return
        if isinstance(st, ast.Return) and st.value is not None:
            self.returns[ctx.get("branch", "mask")].append(self.ab(st.value, ctx))
            return


def _lean_bexp(e) -> str:
    k = e[0]
    if k in ("acs", "draw", "other", "ff"):
        return {"acs": ".acs", "draw": ".draw", "other": ".other", "ff": ".ff"}[k]
    if k == "empty":
        return ".other"
    return f"(.{k} {_lean_bexp(e[1])} {_lean_bexp(e[2])})"


def _join(vals):
    if not vals:
        return OTHER
    out = vals[0]
    for v in vals[1:]:
        if v != out:
            out = ("ite", out, v)
    return out


def assembly_table(tree) -> str:
    classes = _classes(tree)
    rows = []
    for name in GENERATORS:
        fn = _resolve(classes, name + "MaskFunc", "mask_func")
        a = Asm(classes, name)
        a.module = tree
        a.run(fn.body, {"loop": False, "frame": False, "var": None})
        rows.append(f'("{name}", {_lean_bexp(_join(a.returns["mask"]))}, {_lean_bexp(_join(a.returns["acs"]))})')
    return ("def assembly_table : List (String × MaskGeom.BExp × MaskGeom.BExp) :=\n  [" + ",\n   ".join(rows) + "]\n")

# ---------------------------------------------------------------------------------------------------
# `direct/common/_poisson.pyx`: integer / boolean logic as definitions, float statements as located text
PYX = "direct/common/_poisson.pyx"
MGP = ("DirectVerif.Model.C04Poisson",)


def _norm(node) -> str:
    return ast.unparse(node).replace(" ", "")


def poisson_pyx(_tree) -> str:
    from ..gen import REPO
    import boot  # the .pyx front-end (cdef / type annotations stripped) lives there

    try:
        tree = ast.parse(boot.pyx_to_python((REPO / PYX).read_text()))
    except (OSError, SyntaxError) as e:
        raise Untranslatable(f"cannot parse the front-end output for {PYX}: {e}")
    fn = find_function(tree, "poisson")
    body = fn.body
    # `with nogil:` became `if True:`
    blocks = [st for st in body if isinstance(st, ast.If) and _norm(st.test) == "True"]
    if len(blocks) != 1:
        raise Untranslatable("`with nogil:` block not found")
    main = blocks[0].body
    outer = [st for st in main if isinstance(st, ast.While)]
    if len(outer) != 1 or outer[0].orelse:
        raise Untranslatable("outer `while` not found")
    outer = outer[0]
    inner = [st for st in outer.body if isinstance(st, ast.While)]
    if len(inner) != 1 or inner[0].orelse:
        raise Untranslatable("attempt loop not found")
    inner = inner[0]
    tail = [st for st in outer.body if isinstance(st, ast.If)]
    if len(tail) != 1 or _norm(tail[0].test) != "done" or not tail[0].orelse:
        raise Untranslatable("`if done: … else: …` not found")
    tail = tail[0]
    grid = [st for st in inner.body if isinstance(st, ast.If)]
    if len(grid) != 1 or grid[0].orelse:
        raise Untranslatable("grid test of the attempt loop not found")
    grid = grid[0]

    def assigns(stmts):
        out = []
        for st in stmts:
            if isinstance(st, ast.Assign) and len(st.targets) == 1:
                out.append((_norm(st.targets[0]), _norm(st.value)))
            elif isinstance(st, ast.AugAssign):
                out.append((_norm(st.target), _norm(st.target) + {ast.Add: "+", ast.Sub: "-"}.get(type(st.op), "?") + _norm(st.value)))
        return out

    facts: list[tuple[str, str]] = []
    pre = [st for st in body if not (isinstance(st, ast.If) and _norm(st.test) == "True")]
    facts.append(("srand", ";".join(_norm(st) for st in pre if isinstance(st, ast.Expr) and isinstance(st.value, ast.Call)
                                     and _norm(st.value.func) == "srand")))
    facts.append(("capacity", ";".join(f"{t}={v}" for t, v in assigns(pre) if t in ("pxs", "pys"))))
    facts.append(("init", ";".join(f"{t}={v}" for t, v in assigns([st for st in main if not isinstance(st, ast.While)]))))
    facts.append(("select", ";".join(f"{t}={v}" for t, v in assigns([st for st in outer.body[:outer.body.index(inner)]]))))
    facts.append(("attempt", ";".join(f"{t}={v}" for t, v in assigns([st for st in inner.body if st is not grid]))))
    facts.append(("window", ";".join(f"{t}={v}" for t, v in assigns(grid.body))))
    loops = [st for st in grid.body if isinstance(st, ast.For)]
    if len(loops) != 1 or not isinstance(loops[0].body[0], ast.For):
        raise Untranslatable("window loops not found")
    lx, ly = loops[0], loops[0].body[0]
    facts.append(("loops", f"for{_norm(lx.target)}in{_norm(lx.iter)};for{_norm(ly.target)}in{_norm(ly.iter)}"))
    facts.append(("distance", ";".join(f"{t}={v}" for t, v in assigns(ly.body))))
    tests = [st for st in ly.body if isinstance(st, ast.If)]
    if len(tests) != 1 or tests[0].orelse:
        raise Untranslatable("conflict test not found")
    facts.append(("conflict", _norm(tests[0].test) + "=>" + ";".join(
        (f"{a[0]}={a[1]}" if (a := (assigns([st]) or [None])[0]) else _norm(st)) for st in tests[0].body)))
    facts.append(("accept", ";".join(f"{t}={v}" for t, v in assigns(tail.body))))
    facts.append(("remove", ";".join(f"{t}={v}" for t, v in assigns(tail.orelse))))
    helpers = {}
    for name in ("random_uniform", "randint"):
        h = find_function(tree, name)
        helpers[name] = ";".join([f"{t}={v}" for t, v in assigns(h.body)] + [_norm(st) for st in h.body if isinstance(st, ast.Return)])
    facts.append(("random_uniform", helpers["random_uniform"]))
    facts.append(("randint", helpers["randint"]))
    esc = lambda t: t.replace("\\", "\\\\").replace('"', '\\"')
    out = ["def pyx_facts : List (String × String) :=\n  [" + ",\n   ".join(f'("{k}", "{esc(v)}")' for k, v in facts) + "]\n"]
    # integer / boolean logic as definitions
    tr = Tr({"num_actives": "na", "k": "k", "max_attempts": "ma", "qx": "qx", "qy": "qy", "nx": "nx", "ny": "ny"},
            {"done": "(done != 0)"})
    out.append(emit_def("pyx_outer_guard", ["na"], [], tr.bool(outer.test), "Bool"))
    out.append(emit_def("pyx_attempt_guard", ["done", "k", "ma"], [], tr.bool(inner.test), "Bool"))
    out.append(emit_def("pyx_in_grid", ["qx", "qy", "nx", "ny"], [], tr.bool(grid.test), "Bool"))

    def aug(stmts, target):
        for st in stmts:
            if isinstance(st, ast.AugAssign) and _norm(st.target) == target and isinstance(st.op, (ast.Add, ast.Sub)):
                v = tr.int(st.value)
                return f"({tr.binds[target]} {'+' if isinstance(st.op, ast.Add) else '-'} {v})"
        raise Untranslatable(f"update of `{target}` not found")

    out.append(emit_def("pyx_na_accept", ["na"], [], aug(tail.body, "num_actives")))
    out.append(emit_def("pyx_na_remove", ["na"], [], aug(tail.orelse, "num_actives")))
    out.append(emit_def("pyx_k_step", ["k"], [], aug(inner.body, "k")))
    return "\n".join(out)


# ---------------------------------------------------------------------------------------------------
# tables about ALL mask-function classes (not a fixed list) and their callers
MUTATORS = {"append", "extend", "update", "add", "insert", "pop", "clear", "setdefault", "remove", "popitem", "sort", "reverse",
            "move_to_end", "appendleft", "popleft", "discard", "fill", "put", "resize", "__setitem__", "__delitem__"}


def _maskfunc_classes(tree):
    """classes of the module deriving (transitively, by name) from BaseMaskFunc, in source order"""
    classes = _classes(tree)
    out = []
    for name, node in classes.items():
        seen, cur = set(), name
        while cur in classes and cur not in seen:
            seen.add(cur)
            if cur == "BaseMaskFunc":
                out.append(name)
                break
            bases = [b.id for b in classes[cur].bases if isinstance(b, ast.Name)]
            if not bases:
                break
            cur = bases[0]
    return classes, out


def _self_attr(node):
    """`self.x`, `self.x[...]`, `cls.x`, `ClassName.x` as text; None otherwise"""
    while isinstance(node, ast.Subscript):
        node = node.value
    if isinstance(node, ast.Attribute) and isinstance(node.value, ast.Name):
        return f"{node.value.id}.{node.attr}"
    return None


def state_table(tree) -> str:
    classes, names = _maskfunc_classes(tree)
    if len(names) < 15:
        raise Untranslatable(f"only {len(names)} classes derive from BaseMaskFunc")
    rows = []
    for cname in names:
        cls = classes[cname]
        methods = [n for n in cls.body if isinstance(n, ast.FunctionDef)]
        # who calls whom through `self.<m>(…)`
        callers: dict[str, set[str]] = {}
        for m in methods:
            for n in ast.walk(m):
                if (isinstance(n, ast.Call) and isinstance(n.func, ast.Attribute) and isinstance(n.func.value, ast.Name)
                        and n.func.value.id == "self"):
                    callers.setdefault(n.func.attr, set()).add(m.name)
        for m in methods:
            init_only = m.name == "__init__" or (m.name in callers and callers[m.name] <= {"__init__"})
            written = []
            for n in ast.walk(m):
                tgts = []
                if isinstance(n, ast.Assign):
                    tgts = n.targets
                elif isinstance(n, (ast.AugAssign, ast.AnnAssign)):
                    tgts = [n.target]
                elif isinstance(n, ast.Delete):
                    tgts = n.targets
                for t in tgts:
                    for e in (t.elts if isinstance(t, (ast.Tuple, ast.List)) else [t]):
                        a = _self_attr(e)
                        if a is not None and a.split(".")[0] in ("self", "cls", *classes):
                            written.append(a)
                if isinstance(n, (ast.Global, ast.Nonlocal)):
                    written += [f"global {g}" for g in n.names]
                if isinstance(n, ast.Call):
                    f = n.func
                    if isinstance(f, ast.Name) and f.id == "setattr":
                        written.append("setattr(" + ast.unparse(n.args[0]) + ")" if n.args else "setattr")
                    if (isinstance(f, ast.Attribute) and f.attr in MUTATORS):
                        a = _self_attr(f.value)
                        if a is not None and a.split(".")[0] in ("self", "cls", *classes) and a != "self.rng":
                            written.append(f"{a}.{f.attr}()")
            for w in dict.fromkeys(written):
                rows.append(f'("{cname}", "{m.name}", "{w}", {"true" if init_only else "false"})')
    # module-level functions of the module must not use `global` either
    for n in tree.body:
        if isinstance(n, ast.FunctionDef):
            for g in ast.walk(n):
                if isinstance(g, ast.Global):
                    rows.append(f'("<module>", "{n.name}", "global {",".join(g.names)}", false)')
    return "def state_table : List C04Tables.StateRow :=\n  [" + ",\n   ".join(rows) + "]\n"


def class_table(tree) -> str:
    classes, names = _maskfunc_classes(tree)
    rows = []
    for cname in names:
        try:
            fn = _resolve(classes, cname, "mask_func")
        except Untranslatable:
            continue
        rets = [n for n in ast.walk(fn) if isinstance(n, ast.Return)]
        if not rets:
            continue                         # the abstract method (raises NotImplementedError)
        # same classification as `return_table`
        events = sorted([(n.lineno, n) for n in ast.walk(fn)
                         if (isinstance(n, ast.Assign) and len(n.targets) == 1 and isinstance(n.targets[0], ast.Name))
                         or isinstance(n, ast.Return)], key=lambda e: e[0])
        state: dict[str, bool] = {}

        def wrapped(e):
            if _is_wrap(e) is not None:
                return True
            if isinstance(e, ast.Name):
                return state.get(e.id, False)
            if isinstance(e, ast.BinOp) and isinstance(e.op, ast.BitOr):
                return wrapped(e.left) and wrapped(e.right)
            return False

        ok = True
        for _, n in events:
            if isinstance(n, ast.Assign):
                state[n.targets[0].id] = _is_wrap(n.value) is not None
            else:
                ok = ok and n.value is not None and wrapped(n.value)
        rows.append(f'("{cname}", {"true" if ok else "false"})')
    return "def class_table : List (String × Bool) :=\n  [" + ",\n   ".join(rows) + "]\n"


CALLER_FILES = ["direct/data/mri_transforms.py", "direct/data/transforms.py", "direct/train.py", "direct/predict.py",
                "direct/data/datasets.py", "direct/ssl/mri_transforms.py", "direct/environment.py"]


def call_sites(_tree) -> str:
    from ..gen import REPO

    rows = []
    for rel in sorted({str(p.relative_to(REPO)) for p in (REPO / "direct").rglob("*.py")}):
        if rel == F:
            continue
        try:
            src = (REPO / rel).read_text()
        except OSError:
            continue
        if "mask_func" not in src:
            continue
        try:
            tree = ast.parse(src)
        except SyntaxError as e:
            raise Untranslatable(f"{rel}: {e}")
        stack: list[str] = []

        def visit(node):
            named = isinstance(node, (ast.FunctionDef, ast.ClassDef))
            if named:
                stack.append(node.name)
            if isinstance(node, ast.Call):
                f = node.func
                last = f.attr if isinstance(f, ast.Attribute) else f.id if isinstance(f, ast.Name) else None
                if last == "mask_func":
                    kws = ", ".join(f'"{k.arg}"' for k in node.keywords if k.arg is not None)
                    star = sum(1 for k in node.keywords if k.arg is None) + sum(1 for a in node.args if isinstance(a, ast.Starred))
                    rows.append(f'("{rel}", "{".".join(stack)}", "{ast.unparse(f)}", [{kws}], {len(node.args) + star})')
            for ch in ast.iter_child_nodes(node):
                visit(ch)
            if named:
                stack.pop()

        visit(tree)
    if not rows:
        raise Untranslatable("no call of a mask function found outside subsample.py")
    return "def call_sites : List C04Tables.CallRow :=\n  [" + ",\n   ".join(rows) + "]\n"


_POISSON_PYX_FALLBACK = ("def pyx_facts : List (String × String) := C04Poisson.pyxFacts\n"
                         "def pyx_outer_guard (na : Int) : Bool := decide (na > 0)\n"
                         "def pyx_attempt_guard (done : Int) (k : Int) (ma : Int) : Bool := (!(done != 0)) && decide (k < ma)\n"
                         "def pyx_in_grid (qx : Int) (qy : Int) (nx : Int) (ny : Int) : Bool :=\n"
                         "  decide (qx ≥ 0) && decide (qx < nx) && decide (qy ≥ 0) && decide (qy < ny)\n"
                         "def pyx_na_accept (na : Int) : Int := na + 1\n"
                         "def pyx_na_remove (na : Int) : Int := na - 1\n"
                         "def pyx_k_step (k : Int) : Int := k + 1\n")

FALLBACKS = {
    "reshape_tables": ("def reshape_assign : List (Nat × Nat) := MaskGeom.reshapeAssign\n"
                       "def reshape_assign_framed : List (Nat × Nat) := MaskGeom.reshapeAssignFramed\n"),
    "broadcast_table": "def broadcast_branches : List (Nat × List Nat) := MaskGeom.broadcastBranches\n",
    "return_table": ("def return_table : List (String × List (Bool × Bool)) :=\n"
                     "  MaskGeom.Gen.all.map fun g => (g.name, [(true, true), (true, true)])\n"),
    "assembly_table": ("def assembly_table : List (String × MaskGeom.BExp × MaskGeom.BExp) :=\n"
                       "  MaskGeom.Gen.all.map fun g => (g.name, .or .draw .acs, .acs)\n"),
    "clamp_table": "def clamp_KtUniform : Option (Int × Int) := some (0, 1)\ndef clamp_KtGaussian1D : Option (Int × Int) := none\n",
    "poisson_radius_table": "def poisson_radius_floor : List (String × Int) := MaskGeom.poissonRadiusFloor\n",
    "poisson_pyx": _POISSON_PYX_FALLBACK,
    "state_table": "def state_table : List C04Tables.StateRow := C04Tables.stateTable\n",
    "class_table": ("def class_table : List (String × Bool) :=\n"
                    "  C04Tables.inScope.map fun c => (c, true)\n"),
    "call_sites": ("def call_sites : List C04Tables.CallRow :=\n"
                   '  [("direct/data/mri_transforms.py", "CreateSamplingMask.__call__", "self.mask_func", '
                   '["shape", "seed", "return_acs"], 0)]\n'),
    "build_table": ("def build_table : List (String × Bool × Bool × Bool × Bool) := MaskGeom.buildTable\n"
                    "def kt_mode_pinned_dynamic : Bool := true\n"),
}


def _extra():
    from ..gen import REPO

    chunks, status = [], {}
    try:
        tree = parse_file(REPO / F)
    except Untranslatable as e:
        tree, err = None, e
    for key, fn in (("reshape_tables", reshape_tables), ("broadcast_table", broadcast_table),
                    ("return_table", return_table), ("assembly_table", assembly_table), ("clamp_table", clamp_table), ("poisson_radius_table", poisson_radius_table), ("build_table", build_table),
                    ("poisson_pyx", poisson_pyx), ("state_table", state_table), ("class_table", class_table),
                    ("call_sites", call_sites)):
        try:
            if tree is None:
                raise err
            chunks.append(f"/-- translated from `{F}` ({key}) -/\n" + fn(tree))
            status[key] = "translated"
        except Untranslatable as e:
            chunks.append(f"/-- SKIPPED ({e}); stands for the hand-written model -/\n" + FALLBACKS[key])
            status[key] = f"skipped: {e}"
    return "\n".join(chunks), status


EXTRA["C04"] = _extra
