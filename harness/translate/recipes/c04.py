"""Translation recipes for C04 (mask generator geometry): guards, reshape / broadcast tables, the
return-wrapper table of every `mask_func`, the `build_masking_function` table, Magic offsets."""
from __future__ import annotations

import ast

from ..gen import EXTRA, Kernel, Untranslatable, all_stmts, assign_value, find_assign, guard_condition, register
from ..pyexpr import ExprTr, emit_def, find_function, parse_file

F = "direct/common/subsample.py"
MG = ("DirectVerif.Model.MaskGeom",)
FRAMED = "self.mode in [MaskFuncMode.DYNAMIC, MaskFuncMode.MULTISLICE]"
GENERATORS = [
    "FastMRIRandom", "CartesianRandom", "FastMRIEquispaced", "CartesianEquispaced", "FastMRIMagic",
    "CartesianMagic", "Gaussian1D", "Gaussian2D", "Radial", "Spiral", "VariableDensityPoisson",
    "KtRadial", "KtUniform", "KtGaussian1D",
]


class Tr(ExprTr):
    """ExprTr + `e ** 2` (→ `MaskGeom.sq e`) + bound compound expressions."""

    def int(self, node):
        text = ast.unparse(node)
        if text in self.binds and not (isinstance(node, ast.Name) and node.id in self.locals):
            return self.binds[text]
        if isinstance(node, ast.BinOp) and isinstance(node.op, ast.Pow):
            if isinstance(node.right, ast.Constant) and node.right.value == 2:
                return f"(MaskGeom.sq {self.int(node.left)})"
            raise Untranslatable(f"power `{text}`")
        return super().int(node)


def guard_nth(binds, bool_binds, nth):
    """nth `if …: raise` guard, with boolean leaves"""

    def build(k, fn):
        tr = Tr(binds, bool_binds)
        n = 0
        for st in all_stmts(fn):
            if isinstance(st, ast.If) and st.body and isinstance(st.body[0], ast.Raise):
                if n == nth:
                    return emit_def(k.name, k.params, [], tr.bool(st.test), "Bool")
                n += 1
        raise Untranslatable("guard not found")

    return build


def not_in_guard(var_text, lean_var):
    """`if <var> not in [c1, c2, …]: raise`  ->  `!(v == c1 || v == c2 …)`"""

    def build(k, fn):
        for st in all_stmts(fn):
            if (isinstance(st, ast.If) and st.body and isinstance(st.body[0], ast.Raise) and isinstance(st.test, ast.Compare)
                    and len(st.test.ops) == 1 and isinstance(st.test.ops[0], ast.NotIn)
                    and ast.unparse(st.test.left) == var_text and isinstance(st.test.comparators[0], (ast.List, ast.Tuple))):
                consts = []
                for e in st.test.comparators[0].elts:
                    if not (isinstance(e, ast.Constant) and isinstance(e.value, int)):
                        raise Untranslatable("non-constant rank list")
                    consts.append(e.value)
                body = " || ".join(f"({lean_var} == ({c} : Int))" for c in consts) or "false"
                return emit_def(k.name, k.params, [], f"(!({body}))", "Bool")
        raise Untranslatable("`not in` rank guard not found")

    return build


def if_assign(binds, target):
    """value of `target` after `if c: target = a … else: target = b …`"""

    def build(k, fn):
        tr = Tr(binds)
        for st in all_stmts(fn):
            if isinstance(st, ast.If) and st.orelse:
                def val(body):
                    for s in body:
                        if isinstance(s, ast.Assign) and len(s.targets) == 1 and ast.unparse(s.targets[0]) == target:
                            return s.value
                    return None
                a, b = val(st.body), val(st.orelse)
                if a is not None and b is not None:
                    return emit_def(k.name, k.params, [], f"(if {tr.bool(st.test)} then {tr.int(a)} else {tr.int(b)})")
        raise Untranslatable(f"if/else assignment of `{target}` not found")

    return build


register("C04", [
    Kernel("call_rejects_rank", F, "BaseMaskFunc.__call__", ["rank"], "(fun rank => decide (rank < 3))",
           guard_condition({"len(shape)": "rank"}, 0), ret_type="Bool", imports=MG),
    Kernel("call_rejects_framed", F, "BaseMaskFunc.__call__", ["framed", "rank"],
           "(fun framed rank => (framed != 0) && decide (rank < 4))",
           guard_nth({"len(shape)": "rank"}, {FRAMED: "(framed != 0)"}, 1), ret_type="Bool", imports=MG),
] + [
    Kernel(f"kt_rejects_{cls}", F, f"{cls}MaskFunc.mask_func", ["rank"], "(fun rank => !(rank == 4 || rank == 5))",
           not_in_guard("len(shape)", "rank"), ret_type="Bool", imports=MG)
    for cls in ("KtRadial", "KtUniform", "KtGaussian1D")
] + [
    Kernel("magic_offset_pos", F, "MagicMaskFunc.mask_func", ["offset"], "MaskGeom.magicOffPos",
           if_assign({"offset": "offset"}, "offset_pos"), imports=MG),
    Kernel("magic_offset_neg", F, "MagicMaskFunc.mask_func", ["offset"], "MaskGeom.magicOffNeg",
           if_assign({"offset": "offset"}, "offset_neg"), imports=MG),
    Kernel("magic_poslen", F, "MagicMaskFunc.mask_func", ["num_cols"], "MaskGeom.magicPosLen",
           assign_value({"num_cols": "num_cols"}, "poslen"), imports=MG),
    Kernel("magic_neglen", F, "MagicMaskFunc.mask_func", ["num_cols"], "MaskGeom.magicNegLen",
           assign_value({"num_cols": "num_cols"}, "neglen"), imports=MG),
])


# ---------------------------------------------------------------------------------------------------
# structural tables
def _neg_index(node: ast.AST, base: str):
    """`base[-k]` -> k"""
    if (isinstance(node, ast.Subscript) and ast.unparse(node.value) == base and isinstance(node.slice, ast.UnaryOp)
            and isinstance(node.slice.op, ast.USub) and isinstance(node.slice.operand, ast.Constant)
            and isinstance(node.slice.operand.value, int)):
        return node.slice.operand.value
    return None


def reshape_tables(tree) -> str:
    fn = find_function(tree, "BaseMaskFunc._reshape_and_add_coil_axis")
    names: dict[str, int] = {}
    assign, framed = [], []
    seen_ones = seen_bool = seen_coil = False
    for st in fn.body:
        if isinstance(st, ast.Expr):       # docstring
            continue
        if isinstance(st, ast.Assign) and len(st.targets) == 1:
            tgt, val = st.targets[0], st.value
            k = _neg_index(val, "shape")
            if isinstance(tgt, ast.Name) and k is not None:
                names[tgt.id] = k
                continue
            if isinstance(tgt, ast.Name) and tgt.id == "mask_shape":
                if ast.unparse(val).replace(" ", "") != "[1for_inshape]":
                    raise Untranslatable(f"mask_shape initialised as `{ast.unparse(val)}`")
                seen_ones = True
                continue
            kt = _neg_index(tgt, "mask_shape")
            if kt is not None:
                j = names.get(val.id) if isinstance(val, ast.Name) else _neg_index(val, "shape")
                if j is None:
                    raise Untranslatable(f"mask_shape[-{kt}] = `{ast.unparse(val)}`")
                assign.append((kt, j))
                continue
            if isinstance(tgt, ast.Name) and tgt.id == "mask":
                v = ast.unparse(val).replace(" ", "")
                if v == "mask.reshape(*mask_shape).bool()":
                    seen_bool = True
                    continue
                if v == "mask[None,...]":
                    seen_coil = True
                    continue
            raise Untranslatable(f"unexpected statement `{ast.unparse(st)}`")
        if isinstance(st, ast.If):
            t = ast.unparse(st.test)
            if t == FRAMED and not st.orelse:
                for s in st.body:
                    kt = _neg_index(s.targets[0], "mask_shape") if isinstance(s, ast.Assign) else None
                    j = None
                    if kt is not None:
                        j = names.get(s.value.id) if isinstance(s.value, ast.Name) else _neg_index(s.value, "shape")
                    if kt is None or j is None:
                        raise Untranslatable(f"unexpected statement `{ast.unparse(s)}` in the framed branch")
                    framed.append((kt, j))
                continue
            if t == "isinstance(mask, np.ndarray)":
                continue
            raise Untranslatable(f"unexpected branch `{t}`")
        if isinstance(st, ast.Return):
            if ast.unparse(st.value) != "mask":
                raise Untranslatable("unexpected return value")
            continue
        raise Untranslatable(f"unexpected statement `{ast.unparse(st)}`")
    if not (seen_ones and seen_bool and seen_coil):
        raise Untranslatable("ones-initialisation / reshape().bool() / mask[None, ...] not found")
    fmt = lambda ps: "[" + ", ".join(f"({a}, {b})" for a, b in ps) + "]"
    return (f"def reshape_assign : List (Nat × Nat) := {fmt(assign)}\n"
            f"def reshape_assign_framed : List (Nat × Nat) := {fmt(framed)}\n")


def broadcast_table(tree) -> str:
    fn = find_function(tree, "CartesianVerticalMaskFunc._broadcast_mask")
    chain = [s for s in fn.body if isinstance(s, ast.If)]
    if len(chain) != 1:
        raise Untranslatable("expected one if/elif chain")
    node, rows = chain[0], []
    while True:
        t = node.test
        if not (isinstance(t, ast.Compare) and ast.unparse(t.left) == "mask.ndim" and isinstance(t.ops[0], ast.Eq)
                and isinstance(t.comparators[0], ast.Constant)):
            raise Untranslatable(f"unexpected test `{ast.unparse(t)}`")
        nd = t.comparators[0].value
        if len(node.body) != 1 or not isinstance(node.body[0], ast.Assign):
            raise Untranslatable("unexpected branch body")
        call = node.body[0].value
        if not (isinstance(call, ast.Call) and ast.unparse(call.func) == "np.tile" and len(call.args) == 2
                and isinstance(call.args[1], ast.Tuple)):
            raise Untranslatable(f"unexpected `{ast.unparse(call)}`")
        arg = ast.unparse(call.args[0]).replace(" ", "")
        want = {1: "mask", 2: "mask[:,np.newaxis,:]"}.get(nd)
        if arg != want:
            raise Untranslatable(f"ndim {nd}: tiles `{arg}`")
        reps = []
        for e in call.args[1].elts:
            if isinstance(e, ast.Name) and e.id == "num_rows":
                reps.append(0)
            elif isinstance(e, ast.Constant) and isinstance(e.value, int) and e.value >= 1:
                reps.append(e.value)
            else:
                raise Untranslatable(f"repetition `{ast.unparse(e)}`")
        rows.append((nd, reps))
        if len(node.orelse) == 1 and isinstance(node.orelse[0], ast.If):
            node = node.orelse[0]
            continue
        if not (len(node.orelse) == 1 and isinstance(node.orelse[0], ast.Raise)
                and "ValueError" in ast.unparse(node.orelse[0])):
            raise Untranslatable("else branch does not raise ValueError")
        break
    body = ", ".join(f"({nd}, [{', '.join(map(str, r))}])" for nd, r in rows)
    return f"def broadcast_branches : List (Nat × List Nat) := [{body}]\n"


def _classes(tree):
    return {n.name: n for n in tree.body if isinstance(n, ast.ClassDef)}


def _resolve(classes, cls: str, meth: str):
    """method `meth` of class `cls` following the (single-inheritance) bases in the module"""
    seen = set()
    while cls in classes and cls not in seen:
        seen.add(cls)
        for n in classes[cls].body:
            if isinstance(n, ast.FunctionDef) and n.name == meth:
                return n
        bases = [b.id for b in classes[cls].bases if isinstance(b, ast.Name)]
        if not bases:
            break
        cls = bases[0]
    raise Untranslatable(f"{cls}.{meth} not found")


def _is_wrap(node):
    """(wrapped, through_broadcast) of an expression"""
    if (isinstance(node, ast.Call) and ast.unparse(node.func) == "self._reshape_and_add_coil_axis" and len(node.args) == 2
            and not node.keywords and ast.unparse(node.args[1]) == "shape"):
        a = node.args[0]
        b = (isinstance(a, ast.Call) and ast.unparse(a.func) == "self._broadcast_mask" and len(a.args) == 2
             and ast.unparse(a.args[1]) == "num_rows")
        return True, bool(b)
    return None


def return_table(tree) -> str:
    classes = _classes(tree)
    rows = []
    for name in GENERATORS:
        fn = _resolve(classes, name + "MaskFunc", "mask_func")
        # last wrapping assignment of every name, in source order
        events = []   # (lineno, kind, payload)
        for n in ast.walk(fn):
            if isinstance(n, ast.Assign) and len(n.targets) == 1 and isinstance(n.targets[0], ast.Name):
                events.append((n.lineno, "assign", n))
            elif isinstance(n, ast.Return):
                events.append((n.lineno, "return", n))
        events.sort(key=lambda e: e[0])
        state: dict[str, tuple | None] = {}
        rets = []

        def classify(e):
            w = _is_wrap(e)
            if w is not None:
                return w
            if isinstance(e, ast.Name):
                return state.get(e.id) or (False, False)
            if isinstance(e, ast.BinOp) and isinstance(e.op, ast.BitOr):
                l, r = classify(e.left), classify(e.right)
                return (l[0] and r[0], l[1] and r[1])
            return (False, False)

        for _, kind, n in events:
            if kind == "assign":
                state[n.targets[0].id] = _is_wrap(n.value)
            else:
                rets.append(classify(n.value) if n.value is not None else (False, False))
        b = lambda v: "true" if v else "false"
        rows.append(f'("{name}", [' + ", ".join(f"({b(w)}, {b(br)})" for w, br in rets) + "])")
    return "def return_table : List (String × List (Bool × Bool)) :=\n  [" + ",\n   ".join(rows) + "]\n"


def build_table(tree) -> str:
    fn = find_function(tree, "build_masking_function")
    src = ast.unparse(fn).replace(" ", "")
    if "str_to_class('direct.common.subsample',name+'MaskFunc')" not in src:
        raise Untranslatable("class lookup `str_to_class('direct.common.subsample', name + 'MaskFunc')` not found")
    if "if'kwargs'inconstructor_paramsorkeyinconstructor_params:init_args[key]=value" not in src.replace("\n", ""):
        raise Untranslatable("keyword filtering loop not found")
    if "inspect.signature(MaskFunc.__init__).parameters" not in src:
        raise Untranslatable("constructor signature inspection not found")
    classes = _classes(tree)
    rows = []
    for name in GENERATORS:
        if name + "MaskFunc" not in classes:
            raise Untranslatable(f"class {name}MaskFunc not found")
        init = _resolve(classes, name + "MaskFunc", "__init__")
        params = {a.arg for a in init.args.args + init.args.kwonlyargs}
        anyk = init.args.kwarg is not None
        b = lambda p: "true" if (anyk or p in params) else "false"
        rows.append(f'("{name}", {b("center_fractions")}, {b("uniform_range")}, {b("mode")}, {b("crop_corner")})')
    # the Kt generators pin the mode
    kt = _resolve(classes, "KtBaseMaskFunc", "__init__")
    pinned = any(isinstance(n, ast.keyword) and n.arg == "mode" and ast.unparse(n.value) == "MaskFuncMode.DYNAMIC"
                 for n in ast.walk(kt))
    return ("def build_table : List (String × Bool × Bool × Bool × Bool) :=\n  [" + ",\n   ".join(rows) + "]\n"
            f"def kt_mode_pinned_dynamic : Bool := {'true' if pinned else 'false'}\n")


FALLBACKS = {
    "reshape_tables": ("def reshape_assign : List (Nat × Nat) := MaskGeom.reshapeAssign\n"
                       "def reshape_assign_framed : List (Nat × Nat) := MaskGeom.reshapeAssignFramed\n"),
    "broadcast_table": "def broadcast_branches : List (Nat × List Nat) := MaskGeom.broadcastBranches\n",
    "return_table": ("def return_table : List (String × List (Bool × Bool)) :=\n"
                     "  MaskGeom.Gen.all.map fun g => (g.name, [(true, true), (true, true)])\n"),
    "build_table": ("def build_table : List (String × Bool × Bool × Bool × Bool) := MaskGeom.buildTable\n"
                    "def kt_mode_pinned_dynamic : Bool := true\n"),
}


def _extra():
    from ..gen import REPO

    chunks, status = [], {}
    try:
        tree = parse_file(REPO / F)
    except Untranslatable as e:
        tree, err = None, e
    for key, fn in (("reshape_tables", reshape_tables), ("broadcast_table", broadcast_table),
                    ("return_table", return_table), ("build_table", build_table)):
        try:
            if tree is None:
                raise err
            chunks.append(f"/-- translated from `{F}` ({key}) -/\n" + fn(tree))
            status[key] = "translated"
        except Untranslatable as e:
            chunks.append(f"/-- SKIPPED ({e}); stands for the hand-written model -/\n" + FALLBACKS[key])
            status[key] = f"skipped: {e}"
    return "\n".join(chunks), status


EXTRA["C04"] = _extra
