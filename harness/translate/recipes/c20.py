"""C20 — generator of lean/DirectVerif/Gen/C20.lean from the LIVE package and the shipped YAML files.

Unlike the arithmetic kernels of the other properties nothing here is AST-translated arithmetic: the
translator *imports* the configuration layer of the working tree (so importability on the running
Python is part of every run), introspects the dataclasses into a typed schema, parses every YAML under
projects/ with OmegaConf's own loader into trees, walks direct/nn for model / config / engine classes and
reads the signatures of `build_mri_transforms` / `build_masking_function`.  All of it is emitted as Lean
data (interned strings = indices into `symbols`), about which Props/C20.lean proves the property by kernel
evaluation.  `introspect()` is also used by harness/props/c20.py so that both sides agree on the symbol ids.
"""
from __future__ import annotations

import ast
import dataclasses
import enum
import hashlib
import importlib
import inspect
import os
import pathlib
import pkgutil
import sys
import traceback
import typing

from ..gen import EXTRA, GEN_DIR, REPO, Kernel, Untranslatable, register
from . import c20_guards

CONFIG_IMPORT = ("DirectVerif.Model.Config", "DirectVerif.Model.ConfigGuard")

# strings the correspondence check uses for mutated inputs; interned so that they have code points
EXTRA_SYMBOLS = [
    "bogus_key_zz", "Nonexistent", "nonexistent.nonexistent.Nonexistent", "not_a_number", "3", "2.5", "yes", "RSS_ESTIMATE",
    "rss_estimate", "masking", "name", "model_name", "engine_name", "transforms", "datasets", "dataset", "training",
    "validation", "inference", "model", "additional_models", "models", "physics", "forward_operator", "backward_operator",
    "accelerations", "FastMRIRandom", "FakeMRIBlobs", "NoSuchEngine", "fft2", "ifft2", "no_such_operator", "fft2(centered=False)",
    "", "x", "unet.unet_2d.Unet2d", "Unet2dEngine", "rim.rim.RIM", "logging", "crop", "cropping", "lr", "batch_size",
    "SENSE", "sense", "InitType.SENSE", "unet.unet_2d.UnetModel2d", "UNetJSSLEngine", "UNetSSLEngine", "Unet2dJSSLEngine", "Unet2dSSLEngine", "cwn_conv", "true", "off", "1", "0", "1e-4", "nan", "STATIC", "static", "DYNAMIC",
    "seed", "mode", "center_fractions", "uniform_range", "loss", "losses", "function", "multiplier", "l1_loss", "metrics",
    "CalgaryCampinas", "FastMRI", "H5Slice", "unet.Unet2d", "Unet2d", "UNET", "unet", "scaling_key", "normalization",
    "image_center_crop", "padding_eps", "use_seed", "delete_kspace", "estimate_sensitivity_maps", "sensitivity_map_estimation",
    # phase 3: spellings the guard / dispatch candidates use
    "SGD", "AdamW", "adam", "Adam", "HEADER", "header", "0.5", "1.0", "0.0", "5.0", "zero_filled", "ZERO_FILLED", "zeros", "ZEROS",
    "input_image", "INPUT_IMAGE", "input_kspace", "INPUT_KSPACE", "normunet", "NORMUNET", "resnet", "RESNET", "didn", "DIDN",
    "conv", "CONV", "mwcnn", "MWCNN", "slice", "SLICE", "time", "TIME", "FR", "fr", "PRP", "prp", "DY", "dy", "BAN", "ban",
    "steps", "sensitivity_map_model", "kspace_context", "subsampling_scheme", "spatial_shape", "sample_size", "num_coils",
    "optimizer", "num_steps", "auxiliary_steps",
]

CONFIG_SOURCES = ["direct/config/defaults.py", "direct/data/datasets_config.py", "direct/common/subsample_config.py"]
NAMED_MODULES = ["direct.data.datasets_config", "direct.data.datasets", "direct.common.subsample", "direct.data.transforms",
                 "direct.common.subsample_config", "direct.config.defaults", "direct.functionals", "torch.optim"]


def cps(s: str) -> str:
    return "[" + ", ".join(str(ord(c)) for c in s) + "]"


def packed(s: str) -> str:
    """code points as digits in base 2^21, first character lowest (Model/Config.lean `pack`)"""
    n = 0
    for c in reversed(s):
        n = n * 2097152 + ord(c)
    return str(n)


def str_kind(s: str) -> int:
    k = 0
    try:
        int(s)
        k |= 1
    except ValueError:
        pass
    try:
        float(s)
        k |= 2
    except ValueError:
        pass
    if s.lower() in ("yes", "y", "on", "true", "no", "n", "off", "false"):
        k |= 4
    return k


class Info:
    """Everything introspected from the working tree (memoised per process)."""

    def __init__(self):
        self.failures: list[tuple[str, str]] = []      # (what, traceback) — importability findings
        self.strings: set[str] = set(EXTRA_SYMBOLS)
        self.configs: list[tuple[str, object]] = []    # (relative path, container)
        self.parse_failures: list[tuple[str, str]] = []
        self.modules: dict[str, list[str]] = {}
        self.schema_classes: dict[tuple[str, str], type] = {}   # (module, class name) -> dataclass
        self.enums: dict[str, type] = {}
        self.builder_params: list[str] = []
        self.builder_varkw = False
        self.mask_required: list[str] = []
        self.mask_params: list[str] = []
        self.model_inits: dict[tuple[str, str], tuple[list[str], list[str], bool]] = {}
        self.registered_models: list[tuple[str, bool]] = []          # (model_name, takes forward_operator)
        self.registered_engines: list[tuple[str, str]] = []          # (defining module, class)
        self.registered_datasets: list[str] = []                     # names accepted by build_dataset
        self.dataset_bases: list[str] = []                           # dataset classes that only serve as bases
        self.registered_masks: list[str] = []
        self.transforms_types: list[str] = []
        self.referenced_functionals: list[str] = []                  # metric / regularizer names in the shipped files
        self.referenced_losses: list[str] = []
        self.permissible_losses: list[str] = []
        self.scanned_sources: list[str] = []
        self.instance_defaults: list[str] = []
        self.undecorated: list[str] = []
        self.unsupported_types: list[str] = []
        self.sym: dict[str, int] = {}
        self.symbols: list[str] = []
        self.status: dict[str, str] = {}
        # ---- phase 3: value-level guards, constructor signatures, consumers, attribute chains
        self.guard_classes: list[dict] = []        # {route, module, attr, params, required, varkw, kw_policy, guards, opaque, …}
        self.consumers: list[dict] = []             # {path, module, attr, param, needs, verified}
        self.cfg_chains: list[tuple] = []           # (file, line, path, store, function, called)
        self.engine_model_fields: list[tuple] = []  # (engine module, engine class, field, file:line)
        self.str_to_class_sites: list[tuple] = []   # (file, function, module expression, modelled?)
        self.interpolations: list[str] = []         # "<file>: <path> = <value>" for every `${…}` value / `defaults` list
        self.builder_defaults: dict[str, object] = {}   # build_mri_transforms parameter -> default ("NODEFAULT" when none)
        self.builder_required: list[str] = []
        self.dead_model_keys: list[str] = []        # report only
        self.str_enum_defaults: list[str] = []      # `x: str = SomeEnum.MEMBER` (stored by OmegaConf as the text `SomeEnum.MEMBER`)

    # ------------------------------------------------------------------------------------------
    def S(self, s: str) -> int:
        return self.sym[s]


_INFO: Info | None = None


def _try(info: Info, what: str, fn):
    try:
        return fn()
    except BaseException as e:  # noqa: BLE001 — SystemExit included: an unimportable tree is a finding, not a crash
        info.failures.append((what, "".join(traceback.format_exception(type(e), e, e.__traceback__))[-3000:]))
        return None


def yaml_files() -> list[pathlib.Path]:
    return sorted((REPO / "projects").rglob("*.yaml"))


def load_yaml(path: pathlib.Path):
    from omegaconf import OmegaConf

    return OmegaConf.to_container(OmegaConf.load(path), resolve=False)


def load_yaml_cached(path: pathlib.Path):
    """parsed tree, cached under /verif/.build by the SHA-256 of the file's bytes (the pure-Python YAML parser needs ~6 s
    for the 87 files; the key is the content, so an edited file is always re-parsed)"""
    import pickle

    import omegaconf

    data = path.read_bytes()
    d = GEN_DIR.parents[2] / ".build" / "c20_yaml_cache"
    f = d / (hashlib.sha256(data + omegaconf.__version__.encode()).hexdigest() + ".pkl")
    if f.exists():
        try:
            return pickle.loads(f.read_bytes())
        except Exception:  # noqa: BLE001
            pass
    c = load_yaml(path)
    try:
        d.mkdir(parents=True, exist_ok=True)
        tmp = f.with_suffix(f".tmp{os.getpid()}")
        tmp.write_bytes(pickle.dumps(c))
        os.replace(tmp, f)
    except OSError:
        pass
    return c


def _collect_strings(info: Info, v):
    if isinstance(v, dict):
        for k, x in v.items():
            info.strings.add(str(k))
            _collect_strings(info, x)
    elif isinstance(v, (list, tuple)):
        for x in v:
            _collect_strings(info, x)
    elif isinstance(v, enum.Enum):
        info.strings.add(v.name)
        info.strings.add(str(v))
    elif isinstance(v, str):
        info.strings.add(v)
    elif isinstance(v, float):
        info.strings.add(repr(v))
    elif dataclasses.is_dataclass(v) and not isinstance(v, type):
        for f in dataclasses.fields(v):
            info.strings.add(f.name)
            _collect_strings(info, getattr(v, f.name))


def field_default(f: dataclasses.Field):
    if f.default is not dataclasses.MISSING:
        return f.default
    if f.default_factory is not dataclasses.MISSING:  # type: ignore[misc]
        return f.default_factory()  # type: ignore[misc]
    return "???"


def scan_config_sources(info: Info):
    """AST facts: dataclass-instance / mutable literals used as class-level defaults (ValueError on Python >= 3.11),
    config classes that are not decorated with @dataclass."""
    files = {REPO / p for p in CONFIG_SOURCES}
    files.update((REPO / "direct").rglob("config.py"))
    files.update((REPO / "direct").rglob("*_config.py"))
    files.update((REPO / "direct" / "config").glob("*.py"))
    files = sorted(f for f in files if f.exists())
    info.scanned_sources = [str(f.relative_to(REPO)) for f in files]
    for p in files:
        try:
            tree = ast.parse(p.read_text())
        except (OSError, SyntaxError) as e:
            info.failures.append((f"parse {p}", repr(e)))
            continue
        rel = str(p.relative_to(REPO))
        for node in tree.body:
            if not isinstance(node, ast.ClassDef):
                continue
            decorated = any("dataclass" in ast.unparse(d) for d in node.decorator_list)
            has_fields = any(isinstance(st, ast.AnnAssign) for st in node.body)
            if not decorated and has_fields and node.bases and not any("Enum" in ast.unparse(b) for b in node.bases):
                info.undecorated.append(f"{rel}:{node.name}")
            if not decorated:
                continue
            for st in node.body:
                if not isinstance(st, ast.AnnAssign) or st.value is None:
                    continue
                v = st.value
                bad = False
                if isinstance(v, (ast.List, ast.Dict, ast.Set)):
                    bad = True
                elif isinstance(v, ast.Call):
                    callee = ast.unparse(v.func)
                    if callee.split(".")[-1] != "field" and callee.split(".")[-1][:1].isupper():
                        bad = True      # SomeConfig() evaluated at class-creation time
                    if callee.split(".")[-1] == "field":
                        for kw in v.keywords:
                            if kw.arg == "default" and (isinstance(kw.value, (ast.List, ast.Dict, ast.Set)) or (
                                    isinstance(kw.value, ast.Call) and ast.unparse(kw.value.func).split(".")[-1][:1].isupper())):
                                bad = True
                if bad:
                    info.instance_defaults.append(f"{rel}:{node.name}.{ast.unparse(st.target)}")


def introspect(force: bool = False) -> Info:
    global _INFO
    if _INFO is not None and not force:
        return _INFO
    sys.path.insert(0, str(pathlib.Path(__file__).resolve().parents[2]))
    import boot  # noqa: F401

    info = Info()
    scan_config_sources(info)
    # ---- YAML trees (OmegaConf's own loader: `1e-4` is a float, as in the real run)
    for p in yaml_files():
        rel = str(p.relative_to(REPO))
        try:
            c = load_yaml_cached(p)
        except BaseException as e:  # noqa: BLE001
            info.parse_failures.append((rel, repr(e)[:300]))
            continue
        info.configs.append((rel, c))
        info.strings.add(rel)
        _collect_strings(info, c)
    # ---- modules and their attributes
    def _imp(name):
        mod = importlib.import_module(name)
        # everything `getattr(module, name)` finds (classes, functions, imported names, sub-modules)
        info.modules[name] = sorted(n for n in vars(mod) if not n.startswith("__"))
        return mod

    nn = _try(info, "import direct.nn", lambda: importlib.import_module("direct.nn"))
    mods = {}
    if nn is not None:
        for m in pkgutil.walk_packages(nn.__path__, "direct.nn."):
            mod = _try(info, f"import {m.name}", lambda m=m: _imp(m.name))
            if mod is not None:
                mods[m.name] = mod
    for name in NAMED_MODULES:
        mod = _try(info, f"import {name}", lambda name=name: _imp(name))
        if mod is not None:
            mods[name] = mod
    # ---- config dataclasses
    for name, mod in mods.items():
        if not (name.endswith(".config") or name in ("direct.data.datasets_config", "direct.common.subsample_config",
                                                     "direct.config.defaults")):
            continue
        for n, o in vars(mod).items():
            if inspect.isclass(o) and dataclasses.is_dataclass(o) and n.endswith("Config"):
                info.schema_classes[(name, n)] = o
    # nested dataclasses reachable from fields (e.g. TensorboardConfig)
    todo = list(info.schema_classes.values())
    seen = set(id(c) for c in todo)
    while todo:
        c = todo.pop()
        hints = _try(info, f"type hints of {c.__name__}", lambda c=c: typing.get_type_hints(c)) or {}
        for f in dataclasses.fields(c):
            info.strings.add(f.name)
            d = _try(info, f"default of {c.__name__}.{f.name}", lambda f=f: field_default(f))
            _collect_strings(info, d)
            if isinstance(d, enum.Enum):
                info.enums.setdefault(type(d).__name__, type(d))
                hint_core = [a for a in typing.get_args(hints.get(f.name)) if a is not type(None)] \
                    if typing.get_origin(hints.get(f.name)) is typing.Union else [hints.get(f.name)]
                if hint_core == [str]:
                    info.str_enum_defaults.append(f"{c.__module__}.{c.__name__}.{f.name} = {type(d).__name__}.{d.name}")
            for t in _walk_types(hints.get(f.name, typing.Any)):
                if inspect.isclass(t) and issubclass(t, enum.Enum):
                    info.enums[t.__name__] = t
                if inspect.isclass(t) and dataclasses.is_dataclass(t) and id(t) not in seen:
                    seen.add(id(t))
                    todo.append(t)
                    info.schema_classes.setdefault((t.__module__, t.__name__), t)
            if dataclasses.is_dataclass(d) and not isinstance(d, type) and id(type(d)) not in seen:
                seen.add(id(type(d)))
                todo.append(type(d))
                info.schema_classes.setdefault((type(d).__module__, type(d).__name__), type(d))
    for (m, n), c in info.schema_classes.items():
        info.strings.update([m, n, f"{m}.{n}", f"{c.__module__}.{c.__name__}"])
    for e in info.enums.values():
        for mem in e.__members__:
            info.strings.update([mem, f"{e.__name__}.{mem}"])
    # ---- builders
    def _builders():
        from direct.common.subsample import build_masking_function
        from direct.data.mri_transforms import build_mri_transforms

        sig = inspect.signature(build_mri_transforms)
        info.builder_params = [p.name for p in sig.parameters.values() if p.kind != p.VAR_KEYWORD]
        info.builder_varkw = any(p.kind == p.VAR_KEYWORD for p in sig.parameters.values())
        ms = inspect.signature(build_masking_function)
        info.mask_params = [p.name for p in ms.parameters.values() if p.kind != p.VAR_KEYWORD]
        info.mask_required = [p.name for p in ms.parameters.values()
                              if p.kind != p.VAR_KEYWORD and p.default is inspect.Parameter.empty]

    _try(info, "signatures of build_mri_transforms / build_masking_function", _builders)
    info.strings.update(info.builder_params + info.mask_params)
    # ---- model classes: __init__ parameters (for `model_config_accepted`)
    for (m, n), c in info.schema_classes.items():
        if not m.startswith("direct.nn.") or not n.endswith("Config"):
            continue
        pkg = m.rsplit(".", 1)[0]
        cls_name = n[:-len("Config")]
        for name, mod in mods.items():
            if name.startswith(pkg + ".") and cls_name in vars(mod) and inspect.isclass(vars(mod)[cls_name]) \
                    and vars(mod)[cls_name].__module__ == name:
                sig = inspect.signature(vars(mod)[cls_name].__init__)
                ps = [p.name for p in sig.parameters.values() if p.kind not in (p.VAR_KEYWORD, p.VAR_POSITIONAL)][1:]
                req = [p.name for p in list(sig.parameters.values())[1:]
                       if p.kind not in (p.VAR_KEYWORD, p.VAR_POSITIONAL) and p.default is inspect.Parameter.empty]
                info.model_inits[(m, n)] = (ps, req, any(p.kind == p.VAR_KEYWORD for p in sig.parameters.values()))
                info.registered_models.append((name[len("direct.nn."):] + "." + cls_name, "forward_operator" in ps))
                info.strings.update(ps)
    _try(info, "registry of engines / datasets / masking functions / functionals", lambda: _registry(info, mods))
    _try(info, "guards / signatures / consumers / attribute chains", lambda: _phase3(info, mods))
    info.symbols = sorted(info.strings)
    info.sym = {s: i for i, s in enumerate(info.symbols)}
    _INFO = info
    return info


def _registry(info: Info, mods: dict):
    """every registered name the configuration layer can be asked for (beyond the names the shipped files use)"""
    info.registered_models.sort()
    base = getattr(mods.get("direct.nn.mri_models"), "MRIModelEngine", None)
    for name, mod in sorted(mods.items()):
        if base is None or not name.startswith("direct.nn.") or name.endswith(".mri_models"):
            continue
        for n, o in sorted(vars(mod).items()):
            if inspect.isclass(o) and issubclass(o, base) and o.__module__ == name and not inspect.isabstract(o):
                info.registered_engines.append((name, n))
    ds = mods.get("direct.data.datasets")
    if ds is not None:
        classes = {n: o for n, o in vars(ds).items() if inspect.isclass(o) and n.endswith("Dataset") and o.__module__ == ds.__name__}
        for n, o in sorted(classes.items()):
            params = inspect.signature(o.__init__).parameters
            if "transform" not in params and not any(p.kind == p.VAR_KEYWORD for p in params.values()):
                continue                      # not constructible by build_dataset(transform=…) (ConcatDataset)
            if any(o is not c and issubclass(c, o) for c in classes.values()):
                info.dataset_bases.append(n[:-len("Dataset")])
                continue
            info.registered_datasets.append(n[:-len("Dataset")])
    sub = mods.get("direct.common.subsample")
    if sub is not None:
        for n, o in sorted(vars(sub).items()):
            if inspect.isclass(o) and n.endswith("MaskFunc") and o.__module__ == sub.__name__ and not inspect.isabstract(o) \
                    and not n.startswith("Base"):
                info.registered_masks.append(n[:-len("MaskFunc")])
    tt = info.enums.get("TransformsType")
    if tt is not None:
        info.transforms_types = list(tt.__members__)
    fns, losses = set(), set()
    for _, tree in info.configs:
        for sec in ("training", "validation"):
            sct = tree.get(sec) or {}
            if not isinstance(sct, dict):
                continue
            for key in ("metrics", "regularizers"):
                for x in sct.get(key) or []:
                    if isinstance(x, str):
                        fns.add(x)
        for l in ((tree.get("training") or {}).get("loss") or {}).get("losses") or []:
            if isinstance(l, dict) and isinstance(l.get("function"), str):
                losses.add(l["function"])
    info.referenced_functionals = sorted(fns)
    info.referenced_losses = sorted(losses)
    # losses `MRIModelEngine.build_loss` knows: the LossFunType members its if-chain mentions
    lft = getattr(mods.get("direct.nn.types"), "LossFunType", None)
    tree = ast.parse((REPO / "direct/nn/mri_models.py").read_text())
    for node in ast.walk(tree):
        if isinstance(node, ast.FunctionDef) and node.name == "build_loss":
            for a in ast.walk(node):
                if isinstance(a, ast.Attribute) and isinstance(a.value, ast.Name) and a.value.id == "LossFunType" and lft is not None \
                        and a.attr in lft.__members__:
                    v = str(lft[a.attr].value)
                    if v not in info.permissible_losses:
                        info.permissible_losses.append(v)
    for group in (info.registered_datasets, info.dataset_bases, info.registered_masks, info.transforms_types,
                  info.referenced_functionals, info.referenced_losses, info.permissible_losses,
                  [n for n, _ in info.registered_models]):
        info.strings.update(group)
    info.strings.add("transforms_type")


def _walk_types(t):
    yield t
    for a in typing.get_args(t):
        if a is not Ellipsis:
            yield from _walk_types(a)


# --------------------------------------------------------------------------------------------------
# Lean emission
class Pool:
    """hash-consing of containers into named defs `nK : Val`"""

    def __init__(self, info: Info):
        self.info = info
        self.names: dict[str, str] = {}
        self.defs: list[str] = []

    def val(self, v) -> str:
        I = self.info
        if v is None:
            return ".null"
        if isinstance(v, enum.Enum):
            return f".str {I.S(v.name)} {str_kind(v.name)}"
        if isinstance(v, bool):
            return f".bool {'true' if v else 'false'}"
        if isinstance(v, int):
            return f".int ({v})" if v < 0 else f".int {v}"
        if isinstance(v, float):
            return f".float {I.S(repr(v))}"
        if isinstance(v, str):
            if v == "???":
                return ".missing"
            return f".str {I.S(v)} {str_kind(v)}"
        if dataclasses.is_dataclass(v) and not isinstance(v, type):
            v = {f.name: getattr(v, f.name) for f in dataclasses.fields(v)}
        if isinstance(v, dict):
            body = ".map [" + ", ".join(f"({I.S(str(k))}, {self.val(x)})" for k, x in v.items()) + "]"
        elif isinstance(v, (list, tuple)):
            body = ".list [" + ", ".join(self.val(x) for x in v) + "]"
        else:
            raise TypeError(f"cannot express {type(v).__name__} as a YAML tree")
        if len(body) < 60:
            return body
        key = hashlib.sha1(body.encode()).hexdigest()
        if key not in self.names:
            name = f"n{len(self.names)}"
            self.names[key] = name
            self.defs.append(f"def {name} : Val := {body}")
        return self.names[key]


def ty_name(c: type) -> str:
    return "ty_" + c.__module__.replace(".", "_") + "_" + c.__name__


def lean_ty(info: Info, hint, default, where: str) -> str:
    """Lean `Ty` of a field: declared hint, refined by the class of a dataclass-instance default (as OmegaConf does)."""
    if dataclasses.is_dataclass(default) and not isinstance(default, type):
        base = ty_name(type(default))
        origin = typing.get_origin(hint)
        if origin is typing.Union and type(None) in typing.get_args(hint):
            return f"(.optional {base})"
        return base
    return _lean_ty(info, hint, where)


def _lean_ty(info: Info, hint, where: str) -> str:
    if hint is typing.Any:
        return ".any"
    if hint is int:
        return ".int"
    if hint is float:
        return ".float"
    if hint is bool:
        return ".bool"
    if hint is str:
        return ".str"
    if inspect.isclass(hint) and issubclass(hint, enum.Enum):
        names = []
        for mem in hint.__members__:
            names += [info.S(mem), info.S(f"{hint.__name__}.{mem}")]
        ints = [m.value for m in hint if isinstance(m.value, int) and not isinstance(m.value, bool)]
        return f"(.enum {names} {ints})".replace("'", "")
    if inspect.isclass(hint) and dataclasses.is_dataclass(hint):
        return ty_name(hint)
    origin = typing.get_origin(hint)
    args = [a for a in typing.get_args(hint)]
    if origin is typing.Union:
        non_none = [a for a in args if a is not type(None)]
        if len(non_none) == 1 and len(args) == 2:
            return f"(.optional {_lean_ty(info, non_none[0], where)})"
        info.unsupported_types.append(f"{where}: {hint}")
        return ".any"
    if origin in (list, tuple) or hint in (list, tuple, typing.List, typing.Tuple):
        elems = [a for a in args if a is not Ellipsis]
        if not elems:
            return "(.list .any)"
        if any(e != elems[0] for e in elems):
            info.unsupported_types.append(f"{where}: {hint}")
            return "(.list .any)"
        return f"(.list {_lean_ty(info, elems[0], where)})"
    info.unsupported_types.append(f"{where}: {hint}")
    return ".any"


def chunked(name: str, ty: str, items: list[str], size: int = 48) -> str:
    """a long list literal as a concatenation of short ones (the elaborator recurses on the literal's length)"""
    parts = []
    names = []
    for i in range(0, len(items), size):
        n = f"{name}_{i // size}"
        names.append(n)
        parts.append(f"def {n} : {ty} := [\n  " + ",\n  ".join(items[i:i + size]) + "]")
    parts.append(f"def {name} : {ty} := " + (" ++ ".join(names) if names else "[]") + "\n")
    return "\n".join(parts)


def emit(info: Info) -> tuple[str, dict]:
    I = info
    pool = Pool(info)
    out: list[str] = ["open DirectVerif.Config", ""]
    status: dict[str, str] = {}
    # ---- schemas (dependency order: emit a class after the classes it refers to)
    emitted: dict[type, str] = {}
    schema_defs: list[str] = []

    def emit_class(c: type, stack=()):
        if c in emitted:
            return
        if c in stack:
            raise Untranslatable(f"recursive config class {c.__name__}")
        try:
            hints = typing.get_type_hints(c)
        except Exception:  # noqa: BLE001
            hints = {}
        fields = []
        for f in dataclasses.fields(c):
            try:
                d = field_default(f)
            except BaseException:  # noqa: BLE001
                d = "???"
            hint = hints.get(f.name, typing.Any)
            for t in _walk_types(hint):
                if inspect.isclass(t) and dataclasses.is_dataclass(t):
                    emit_class(t, stack + (c,))
            if dataclasses.is_dataclass(d) and not isinstance(d, type):
                emit_class(type(d), stack + (c,))
            ty = lean_ty(I, hint, d, f"{c.__name__}.{f.name}")
            if isinstance(d, enum.Enum) and ty in (".str", "(.optional .str)"):
                d = str(d)          # what OmegaConf's StringNode stores for an Enum default of a `str` field
            try:
                dv = pool.val(d)
            except TypeError as e:
                I.unsupported_types.append(f"{c.__name__}.{f.name}: default {e}")
                dv = ".missing"
            fields.append(f"({I.S(f.name)}, {ty}, {dv})")
        name = ty_name(c)
        emitted[c] = name
        schema_defs.append(f"/-- `{c.__module__}.{c.__name__}` -/\ndef {name} : Ty := .struct {I.S(c.__module__ + '.' + c.__name__)} [\n  "
                           + ",\n  ".join(fields) + "]")

    for key, c in sorted(I.schema_classes.items()):
        try:
            emit_class(c)
        except Untranslatable as e:
            status[f"schema:{key[1]}"] = f"skipped: {e}"
    # ---- trees
    cfg_entries = []
    for rel, c in I.configs:
        cfg_entries.append(f"({I.S(rel)}, {pool.val(c)})")
    phase3_text, phase3_status = c20_guards.emit_phase3(I, pool, packed, chunked)
    out.append(f"/-- interned strings: `Sym` -> code points ({len(I.symbols)} entries) -/")
    out.append(chunked("symbols", "List PStr", [packed(s) for s in I.symbols]))
    out.append("/-! hash-consed YAML containers and dataclass defaults -/")
    out.extend(pool.defs)
    out.append("")
    out.extend(schema_defs)
    out.append("")
    out.append("/-- importable modules and the classes / functions they expose -/")
    out.append(chunked("modules", "ModuleTable", [
        f"({packed(m)}, [" + ", ".join(packed(a) for a in attrs) + "])" for m, attrs in sorted(I.modules.items())], 8))
    out.append("/-- every config dataclass: (module, class) -> schema -/")
    out.append("def schemas : List ((PStr × PStr) × Ty) := [\n  " + ",\n  ".join(
        f"(({packed(m)}, {packed(n)}), {emitted[c]})" for (m, n), c in sorted(I.schema_classes.items()) if c in emitted) + "]\n")
    out.append(f"def builderParams : List Sym := {[I.S(p) for p in I.builder_params]}")
    out.append(f"def builderVarKw : Bool := {'true' if I.builder_varkw else 'false'}")
    out.append(f"def maskBuilderRequired : List Sym := {[I.S(p) for p in I.mask_required]}")
    out.append("/-- model config class -> (parameters of the model's `__init__`, those without default, accepts **kwargs) -/")
    out.append("def modelInits : List ((PStr × PStr) × (List Sym × List Sym × Bool)) := [\n  " + ",\n  ".join(
        f"(({packed(m)}, {packed(n)}), ({[I.S(p) for p in ps]}, {[I.S(p) for p in req]}, {'true' if kw else 'false'}))"
        for (m, n), (ps, req, kw) in sorted(I.model_inits.items())) + "]\n")
    out.append("/-- class-level defaults that are dataclass instances or mutable literals (ValueError at import on Python >= 3.11) -/")
    out.append("def instanceDefaults : List Str := [" + ", ".join(cps(s) for s in I.instance_defaults) + "]")
    out.append("/-- `str`-typed fields whose default is an Enum member: OmegaConf stores the text `Cls.NAME`, which no dispatch recognises -/")
    out.append("def strFieldEnumDefaults : List Str := [" + ", ".join(cps(s) for s in sorted(set(I.str_enum_defaults))) + "]")
    out.append("/-- config classes with annotated fields but no `@dataclass` decorator -/")
    out.append("def undecoratedConfigs : List Str := [" + ", ".join(cps(s) for s in I.undecorated) + "]")
    out.append("/-- modules / signatures / YAML files that could not be imported, read or parsed on the running Python -/")
    out.append("def importFailures : List Str := [" + ", ".join(cps(w) for w, _ in I.failures) + "]")
    out.append("def parseFailures : List Str := [" + ", ".join(cps(w) for w, _ in I.parse_failures) + "]")
    out.append("/-- field types the schema language cannot express (treated as `Any`) -/")
    out.append("def unsupportedTypes : List Str := [" + ", ".join(cps(w) for w in I.unsupported_types) + "]\n")

    out.append("/-! registered names (beyond what the shipped files mention) -/")
    out.append("def registeredModels : List (Sym × Bool) := [" + ", ".join(
        f"({I.S(n)}, {'true' if mri else 'false'})" for n, mri in I.registered_models) + "]")
    out.append(chunked("registeredEngines", "List (PStr × PStr)", [f"({packed(m)}, {packed(n)})" for m, n in I.registered_engines], 12))
    out.append(f"def registeredDatasets : List Sym := {[I.S(n) for n in I.registered_datasets]}")
    out.append(f"def datasetBaseClasses : List Sym := {[I.S(n) for n in I.dataset_bases]}")
    out.append(f"def registeredMaskFuncs : List Sym := {[I.S(n) for n in I.registered_masks]}")
    out.append(f"def transformsTypes : List Sym := {[I.S(n) for n in I.transforms_types]}")
    out.append(f"def referencedFunctionals : List Sym := {[I.S(n) for n in I.referenced_functionals]}")
    out.append(f"def referencedLosses : List Sym := {[I.S(n) for n in I.referenced_losses]}")
    out.append(f"def permissibleLosses : List Sym := {[I.S(n) for n in I.permissible_losses]}")
    out.append(f"def kTransformsType : Sym := {I.S('transforms_type')}")
    out.append("/-- source files covered by the scan for instance / mutable defaults and undecorated config classes -/")
    out.append("def scannedSources : List Str := [" + ", ".join(cps(x) for x in I.scanned_sources) + "]\n")

    def ty_or_any(mod, name):
        c = I.schema_classes.get((mod, name))
        return emitted.get(c, "Ty.any") if c is not None else "Ty.any"

    k = lambda s: I.S(s)  # noqa: E731
    out.append(f"""def tables : Tables where
  symbols := symbols
  modules := modules
  schemas := schemas
  defaultConfig := {ty_or_any('direct.config.defaults', 'DefaultConfig')}
  training := {ty_or_any('direct.config.defaults', 'TrainingConfig')}
  validation := {ty_or_any('direct.config.defaults', 'ValidationConfig')}
  inference := {ty_or_any('direct.config.defaults', 'InferenceConfig')}
  builderParams := builderParams
  builderVarKw := builderVarKw
  maskBuilderRequired := maskBuilderRequired
  kModel := {k('model')}
  kAdditionalModels := {k('additional_models')}
  kModels := {k('models')}
  kTraining := {k('training')}
  kValidation := {k('validation')}
  kInference := {k('inference')}
  kDatasets := {k('datasets')}
  kDataset := {k('dataset')}
  kName := {k('name')}
  kModelName := {k('model_name')}
  kEngineName := {k('engine_name')}
  kTransforms := {k('transforms')}
  kMasking := {k('masking')}
  kPhysics := {k('physics')}
  kForward := {k('forward_operator')}
  kBackward := {k('backward_operator')}
""")
    out.append(f"def transformSchema : Ty := {ty_or_any('direct.data.datasets_config', 'TransformsConfig')}")

    out.append(f"/-- the {len(cfg_entries)} shipped configuration files: (path, tree) -/")
    out.append("def configs : List (Sym × Val) := [\n  " + ",\n  ".join(cfg_entries) + "]\n")
    out.append(phase3_text)
    status.update(phase3_status)
    status["schemas"] = f"introspected: {len(emitted)} dataclasses"
    status["configs"] = f"parsed: {len(cfg_entries)} YAML files, {len(pool.defs)} distinct containers"
    status["modules"] = f"imported: {len(I.modules)}"
    status["symbols"] = f"interned: {len(I.symbols)}"
    if I.failures:
        status["imports"] = "FAILED: " + "; ".join(w for w, _ in I.failures)[:400]
    if I.unsupported_types:
        status["unsupported_types"] = "; ".join(I.unsupported_types)[:400]
    return "\n".join(out), status


def _extra():
    try:
        return emit(introspect())
    except Untranslatable:
        raise
    except BaseException as e:  # noqa: BLE001 — never crash the run: an empty table makes the obligations fail instead
        tb = "".join(traceback.format_exception(type(e), e, e.__traceback__))[-1500:]
        return ("open DirectVerif.Config\n/-- generator failed -/\ndef generatorFailed : Bool := true\n", {"generator": "FAILED: " + tb})


EXTRA["C20"] = _extra


# =================================================================================================
# AST kernels: string arithmetic of the name look-ups, statement order of the merge, dict_flatten, removed keys
class StrTr:
    """Python string expressions -> Lean terms over `Str = List Nat` (code points) / `List Str`.

    Understood: names (bound parameters / earlier locals), string constants, f-strings without format specs, `+`,
    `.lower()`, `.split(".")`, `".".join(xs)`, `xs[0]`, `xs[-1]`, `xs[:-1]`, `[e.lower() for e in xs]`, and
    `A if A else B` where `A` is the *optional* bound expression (None / "" are falsy)."""

    def __init__(self, binds: dict[str, str], optional: dict[str, str] | None = None, consts: dict[str, str] | None = None):
        self.binds = dict(binds)          # source text -> Lean term of type Str
        self.optional = dict(optional or {})   # source text -> Lean term of type Option Str
        self.consts = dict(consts or {})  # module-level NAME = "text" constants
        self.locals: dict[str, tuple[str, str]] = {}   # python local -> (lean term, "str" | "list")

    def expr(self, node: ast.AST) -> tuple[str, str]:
        text = ast.unparse(node)
        if text in self.binds:
            return self.binds[text], "str"
        if isinstance(node, ast.Name):
            if node.id in self.locals:
                return self.locals[node.id]
            if node.id in self.consts:
                return f"({cps(self.consts[node.id])} : Config.Str)", "str"
            raise Untranslatable(f"unbound name `{node.id}`")
        if isinstance(node, ast.Constant) and isinstance(node.value, str):
            return f"({cps(node.value)} : Config.Str)", "str"
        if isinstance(node, ast.JoinedStr):
            parts = []
            for v in node.values:
                if isinstance(v, ast.Constant):
                    parts.append(f"({cps(v.value)} : Config.Str)")
                elif isinstance(v, ast.FormattedValue) and v.conversion == -1 and v.format_spec is None:
                    t, ty = self.expr(v.value)
                    if ty != "str":
                        raise Untranslatable(f"non-string in f-string: `{ast.unparse(v.value)}`")
                    parts.append(t)
                else:
                    raise Untranslatable("f-string with conversion / format spec")
            return "(" + " ++ ".join(parts) + ")" if parts else "([] : Config.Str)", "str"
        if isinstance(node, ast.BinOp) and isinstance(node.op, ast.Add):
            a, ta = self.expr(node.left)
            b, tb = self.expr(node.right)
            if ta != "str" or tb != "str":
                raise Untranslatable("`+` on non-strings")
            return f"({a} ++ {b})", "str"
        if isinstance(node, ast.Call) and isinstance(node.func, ast.Attribute):
            meth = node.func.attr
            if meth == "lower" and not node.args:
                a, ta = self.expr(node.func.value)
                if ta != "str":
                    raise Untranslatable("`.lower()` on a non-string")
                return f"(Config.lower {a})", "str"
            if meth == "split" and len(node.args) == 1 and isinstance(node.args[0], ast.Constant) and node.args[0].value == ".":
                a, ta = self.expr(node.func.value)
                if ta != "str":
                    raise Untranslatable("`.split` on a non-string")
                return f"(Config.splitDot {a})", "list"
            if meth == "join" and isinstance(node.func.value, ast.Constant) and node.func.value.value == "." and len(node.args) == 1:
                a, ta = self.expr(node.args[0])
                if ta != "list":
                    raise Untranslatable("`join` of a non-list")
                return f"(Config.joinDot {a})", "str"
            raise Untranslatable(f"unsupported call `{text}`")
        if isinstance(node, ast.Subscript):
            a, ta = self.expr(node.value)
            if ta != "list":
                raise Untranslatable(f"subscript of a non-list `{text}`")
            sl = ast.unparse(node.slice).replace(" ", "")
            if sl == "0":
                return f"(({a}).headD [])", "str"
            if sl == "-1":
                return f"(({a}).getLast?.getD [])", "str"
            if sl == ":-1":
                return f"(({a}).dropLast)", "list"
            raise Untranslatable(f"unsupported subscript `{text}`")
        if isinstance(node, (ast.ListComp, ast.GeneratorExp)) and len(node.generators) == 1 and not node.generators[0].ifs \
                and isinstance(node.generators[0].target, ast.Name):
            g = node.generators[0]
            xs, tx = self.expr(g.iter)
            if tx != "list":
                raise Untranslatable("comprehension over a non-list")
            saved = self.locals.get(g.target.id)
            self.locals[g.target.id] = ("x__", "str")
            try:
                e, te = self.expr(node.elt)
            finally:
                if saved is None:
                    self.locals.pop(g.target.id, None)
                else:
                    self.locals[g.target.id] = saved
            if te != "str":
                raise Untranslatable("comprehension element is not a string")
            return f"(({xs}).map fun x__ => {e})", "list"
        if isinstance(node, ast.BoolOp) and isinstance(node.op, ast.Or) and len(node.values) == 2 \
                and ast.unparse(node.values[0]) in self.optional:
            # `A or B` with A the optional value: the same decision as `A if A else B`
            b, tb = self.expr(node.values[1])
            if tb != "str":
                raise Untranslatable("right operand of `or` is not a string")
            return f"(match {self.optional[ast.unparse(node.values[0])]} with | some e__ => e__ | none => {b})", "str"
        if isinstance(node, ast.IfExp):
            ttext = ast.unparse(node.test)
            if ttext in self.optional and ast.unparse(node.body) == ttext:
                b, tb = self.expr(node.orelse)
                if tb != "str":
                    raise Untranslatable("else branch is not a string")
                return f"(match {self.optional[ttext]} with | some e__ => e__ | none => {b})", "str"
        raise Untranslatable(f"unsupported expression `{text}`")

    def _unpack(self, target, value):
        """`*init, last = xs`, `first, *rest = xs`, `first, *mid, last = xs`: split / join arithmetic on the list `xs`"""
        xs, tx = self.expr(value)
        elts = target.elts
        names = [e.value.id if isinstance(e, ast.Starred) and isinstance(e.value, ast.Name) else
                 (e.id if isinstance(e, ast.Name) else None) for e in elts]
        stars = [i for i, e in enumerate(elts) if isinstance(e, ast.Starred)]
        if tx != "list" or None in names or len(stars) != 1:
            for n in names:
                if n:
                    self.locals.pop(n, None)
            raise Untranslatable("unsupported unpacking")
        i = stars[0]
        before, after = names[:i], names[i + 1:]
        if len(before) > 1 or len(after) > 1:
            for n in names:
                self.locals.pop(n, None)
            raise Untranslatable("unpacking with more than one fixed name on a side")
        core = xs
        if before:
            self.locals[before[0]] = (f"(({xs}).headD [])", "str")
            core = f"(({core}).drop 1)"
        if after:
            self.locals[after[0]] = (f"(({xs}).getLast?.getD [])", "str")
            core = f"(({core}).dropLast)"
        self.locals[names[i]] = (core, "list")

    def run(self, stmts):
        """straight-line assignments / `+=` to names; everything else is skipped"""
        for st in stmts:
            try:
                if isinstance(st, ast.Assign) and len(st.targets) == 1 and isinstance(st.targets[0], (ast.Tuple, ast.List)) \
                        and isinstance(st.value, (ast.Tuple, ast.List)) and len(st.value.elts) == len(st.targets[0].elts) \
                        and all(isinstance(t, ast.Name) for t in st.targets[0].elts):
                    vals = [self.expr(v) for v in st.value.elts]      # a, b = x, y: right-hand sides first
                    for t, v in zip(st.targets[0].elts, vals):
                        self.locals[t.id] = v
                elif isinstance(st, ast.Assign) and len(st.targets) == 1 and isinstance(st.targets[0], (ast.Tuple, ast.List)):
                    self._unpack(st.targets[0], st.value)
                elif isinstance(st, ast.Assign) and len(st.targets) == 1 and isinstance(st.targets[0], ast.Name):
                    self.locals[st.targets[0].id] = self.expr(st.value)
                elif isinstance(st, ast.AugAssign) and isinstance(st.op, ast.Add) and isinstance(st.target, ast.Name):
                    cur = self.binds.get(st.target.id) or self.locals.get(st.target.id, (None,))[0]
                    if cur is None:
                        raise Untranslatable(f"`+=` on unbound `{st.target.id}`")
                    r, tr_ = self.expr(st.value)
                    self.binds.pop(st.target.id, None)
                    self.locals[st.target.id] = (f"({cur} ++ {r})", "str")
            except Untranslatable:
                if isinstance(st, (ast.Assign, ast.AugAssign)):
                    tgt = st.targets[0] if isinstance(st, ast.Assign) else st.target
                    if isinstance(tgt, ast.Name):
                        self.locals.pop(tgt.id, None)     # unknown from here on


def _walk_stmts(body):
    for st in body:
        yield st
        for attr in ("body", "orelse", "finalbody"):
            yield from _walk_stmts(getattr(st, attr, []) or [])
        for h in getattr(st, "handlers", []) or []:
            yield from _walk_stmts(h.body)


_TREES: dict[str, ast.Module] = {}


def _file_tree(rel: str) -> ast.Module:
    if rel not in _TREES:
        import warnings

        with warnings.catch_warnings():
            warnings.simplefilter("ignore")
            _TREES[rel] = ast.parse((REPO / rel).read_text())
    return _TREES[rel]


def module_string_constants(tree: ast.Module) -> dict[str, str]:
    """module-level `NAME = "text"` bindings that are assigned exactly once"""
    seen: dict[str, list] = {}
    for st in tree.body:
        if isinstance(st, ast.Assign) and len(st.targets) == 1 and isinstance(st.targets[0], ast.Name):
            seen.setdefault(st.targets[0].id, []).append(st.value)
        elif isinstance(st, ast.AnnAssign) and isinstance(st.target, ast.Name) and st.value is not None:
            seen.setdefault(st.target.id, []).append(st.value)
    return {n: v[0].value for n, v in seen.items() if len(v) == 1 and isinstance(v[0], ast.Constant) and isinstance(v[0].value, str)}


def resolver_helpers(tree: ast.Module, callee: str = "str_to_class") -> dict[str, tuple[int, int, list[str]]]:
    """module-level functions that (possibly through each other) hand two of their own parameters to `callee(module, name)`:
    name -> (index of the module parameter, index of the name parameter, parameter names).  What reaches `str_to_class` is the
    semantics; the helper it travels through is not."""
    fns = {st.name: st for st in tree.body if isinstance(st, ast.FunctionDef)}
    out: dict[str, tuple[int, int, list[str]]] = {}
    changed = True
    while changed:
        changed = False
        for name, fn in fns.items():
            if name in out:
                continue
            ps = [a.arg for a in fn.args.args]
            for node in ast.walk(fn):
                if not isinstance(node, ast.Call):
                    continue
                cname = ast.unparse(node.func).split(".")[-1]
                args = _call_args(node, cname, callee, out)
                if args is None:
                    continue
                m, a = args
                if isinstance(m, ast.Name) and isinstance(a, ast.Name) and m.id in ps and a.id in ps \
                        and not _reassigned(fn, {m.id, a.id}):
                    out[name] = (ps.index(m.id), ps.index(a.id), ps)
                    changed = True
                    break
    return out


def _reassigned(fn: ast.FunctionDef, names: set[str]) -> bool:
    for n in ast.walk(fn):
        if isinstance(n, (ast.Assign, ast.AugAssign, ast.AnnAssign)):
            tgts = n.targets if isinstance(n, ast.Assign) else [n.target]
            for t in tgts:
                for x in ast.walk(t):
                    if isinstance(x, ast.Name) and x.id in names:
                        return True
    return False


def _call_args(node: ast.Call, cname: str, callee: str, helpers: dict):
    """(module expression, name expression) when `node` is a call of `callee` or of a resolver helper, else None"""
    if cname == callee and len(node.args) == 2:
        return node.args[0], node.args[1]
    if cname in helpers:
        mi, ai, ps = helpers[cname]
        bound: dict[str, ast.AST] = {}
        for i, a in enumerate(node.args):
            if i < len(ps):
                bound[ps[i]] = a
        for k in node.keywords:
            if k.arg:
                bound[k.arg] = k.value
        if ps[mi] in bound and ps[ai] in bound:
            return bound[ps[mi]], bound[ps[ai]]
    return None


def _str_to_class_target(params: list[str], binds: dict[str, str], optional: dict[str, str] | None = None,
                         callee: str = "str_to_class"):
    """kernel = the (module, attribute) pair handed to the first `str_to_class(...)` call of the function"""

    def build(k: Kernel, fn: ast.FunctionDef) -> str:
        try:
            helpers = resolver_helpers(_file_tree(k.file), callee)
            consts = module_string_constants(_file_tree(k.file))
        except (OSError, SyntaxError):
            helpers, consts = {}, {}
        tr = StrTr(binds, optional, consts)
        call = None
        flat = list(_walk_stmts(fn.body))
        for i, st in enumerate(flat):
            for node in ast.walk(st) if not isinstance(st, (ast.If, ast.For, ast.Try, ast.With, ast.While)) else []:
                if isinstance(node, ast.Call):
                    got = _call_args(node, ast.unparse(node.func).split(".")[-1], callee, helpers)
                    if got is not None:
                        call = got
                        break
            if call is not None:
                break
            tr.run([st])
        if call is None:
            raise Untranslatable(f"`{callee}(module, name)` not found")
        m, tm = tr.expr(call[0])
        a, ta = tr.expr(call[1])
        if tm != "str" or ta != "str":
            raise Untranslatable("arguments are not strings")
        lam = " ".join(params)
        return f"def {k.name} : {k.ret_type} := fun {lam} =>\n  ({m},\n   {a})\n"

    return build


def _metrics_target(k: Kernel, fn: ast.FunctionDef) -> str:
    """`self._build_function_class(metrics_list, "<module>", "metric")`: every listed name is looked up in <module>"""
    for node in ast.walk(fn):
        if isinstance(node, ast.Call) and ast.unparse(node.func).endswith("_build_function_class") and len(node.args) == 3 \
                and isinstance(node.args[1], ast.Constant) and isinstance(node.args[1].value, str):
            return (f"def {k.name} : {k.ret_type} := fun fn =>\n"
                    f"  (({cps(node.args[1].value)} : Config.Str), fn)\n")
    raise Untranslatable("`self._build_function_class(list, module, postfix)` not found")


def _merge_steps(k: Kernel, fn: ast.FunctionDef) -> str:
    """ordered (code, depth) table of the statements of `setup_common_environment` the model depends on.
    codes: 1 load file, 2 structured(DefaultConfig), 3 load_models_into_environment_config, 4 cfg.model =, 5 cfg.additional_models =,
    6/7/8 cfg.training/validation/inference = <Config class>, 9 the key loop, 10 skip-list `continue`, 11 falsy section `continue`,
    12 datasets.append(load_dataset_config), 13 dataset = load_dataset_config, 14 cfg[key] = merge(cfg[key], file[key]),
    15 build_operators, 16 initialize_models_from_config, 17 setup_engine"""
    steps: list[tuple[int, int]] = []
    skip: list[str] = []
    sections: list[str] = []
    try:
        module = _file_tree(k.file)
    except (OSError, SyntaxError):
        module = ast.Module(body=[], type_ignores=[])
    helpers = {st.name: st for st in module.body if isinstance(st, ast.FunctionDef) and st.name != fn.name}
    consts: dict[str, list[str]] = {}
    for st in module.body:
        if isinstance(st, ast.Assign) and len(st.targets) == 1 and isinstance(st.targets[0], ast.Name) \
                and isinstance(st.value, (ast.Tuple, ast.List)) and all(isinstance(e, ast.Constant) and isinstance(e.value, str)
                                                                       for e in st.value.elts):
            consts[st.targets[0].id] = [e.value for e in st.value.elts]
    KNOWN_STEPS = {"load_models_into_environment_config", "build_operators", "initialize_models_from_config", "setup_engine",
                   "load_dataset_config", "extract_names", "setup_logging", "check_is_valid_url", "read_text_from_url"}

    def key_list(node) -> list[str] | None:
        """a literal list / tuple of strings, a module-level constant holding one, or a `+` of those"""
        if isinstance(node, (ast.List, ast.Tuple)) and all(isinstance(e, ast.Constant) for e in node.elts):
            return [e.value for e in node.elts]
        if isinstance(node, ast.Name) and node.id in consts:
            return list(consts[node.id])
        if isinstance(node, ast.BinOp) and isinstance(node.op, ast.Add):
            a, b = key_list(node.left), key_list(node.right)
            return None if a is None or b is None else a + b
        return None

    def membership(test, loop_var) -> list[str] | None:
        if isinstance(test, ast.BoolOp) and isinstance(test.op, ast.Or):
            parts = [membership(v, loop_var) for v in test.values]
            return None if any(p is None for p in parts) else [x for p in parts for x in p]
        if loop_var and isinstance(test, ast.Compare) and len(test.ops) == 1 and isinstance(test.ops[0], ast.In) \
                and isinstance(test.left, ast.Name) and test.left.id == loop_var:
            return key_list(test.comparators[0])
        return None

    class _Rename(ast.NodeTransformer):
        def __init__(self, m):
            self.m = m

        def visit_Name(self, node):
            return ast.copy_location(ast.Name(id=self.m.get(node.id, node.id), ctx=node.ctx), node)

    def inlined(st: ast.stmt, stack: tuple) -> list[ast.stmt] | None:
        """body of the private helper a statement calls (`f(...)` / `x = f(...)` / `return f(...)`), parameters renamed to
        the argument names — the helper's statements take the place of the call"""
        call = None
        if isinstance(st, ast.Expr) and isinstance(st.value, ast.Call):
            call = st.value
        elif isinstance(st, (ast.Assign, ast.Return)) and isinstance(st.value, ast.Call):
            call = st.value
        if call is None or not isinstance(call.func, ast.Name):
            return None
        name = call.func.id
        if name not in helpers or name in KNOWN_STEPS or name in stack:
            return None
        h = helpers[name]
        ps = [a.arg for a in h.args.args]
        m = {}
        for i, a in enumerate(call.args):
            if i < len(ps) and isinstance(a, ast.Name):
                m[ps[i]] = a.id
        for kw in call.keywords:
            if kw.arg and isinstance(kw.value, ast.Name):
                m[kw.arg] = kw.value.id
        import copy

        return [_Rename(m).visit(copy.deepcopy(s)) for s in h.body]

    def classify(st: ast.stmt, depth: int, loop_var: str | None, stack: tuple = ()):
        body = inlined(st, stack)
        if body is not None:
            name = st.value.func.id
            for s2 in body:
                classify(s2, depth, loop_var, stack + (name,))
            return
        src = ast.unparse(st).replace(" ", "")
        if isinstance(st, ast.For) and "cfg_from_external_source" in ast.unparse(st.iter):
            steps.append((9, depth))
            lv = ast.unparse(st.target)
            for s2 in st.body:
                classify(s2, depth + 1, lv, stack)
            return
        if isinstance(st, ast.If):
            test = ast.unparse(st.test).replace(" ", "")
            only_continue = len(st.body) >= 1 and isinstance(st.body[-1], ast.Continue)
            keys = membership(st.test, loop_var)
            if keys is not None and only_continue and depth == 1:
                steps.append((10, depth))
                skip.extend(keys)
                return
            if keys is not None and depth == 1:
                sections.extend(keys)
            if loop_var and test.startswith("notcfg_from_external_source[") and only_continue:
                steps.append((11, depth))
                return
            for s2 in st.body + st.orelse:
                classify(s2, depth + 1, loop_var, stack)
            return
        if isinstance(st, (ast.With, ast.Try)):
            for s2 in st.body:
                classify(s2, depth, loop_var, stack)
            return
        if isinstance(st, ast.For):
            for s2 in st.body:
                classify(s2, depth + 1, loop_var, stack)
            return
        if "OmegaConf.load(" in src and src.startswith("cfg_from_external_source="):
            steps.append((1, depth))
        elif src.startswith("cfg=OmegaConf.structured(DefaultConfig)"):
            steps.append((2, depth))
        elif "load_models_into_environment_config(cfg_from_external_source)" in src:
            steps.append((3, depth))
        elif src == "cfg.model=models_config.model":
            steps.append((4, depth))
        elif src == "cfg.additional_models=models_config":
            steps.append((5, depth))
        elif src == "cfg.training=TrainingConfig":
            steps.append((6, depth))
        elif src == "cfg.validation=ValidationConfig":
            steps.append((7, depth))
        elif src == "cfg.inference=InferenceConfig":
            steps.append((8, depth))
        elif ".datasets.append(load_dataset_config(" in src:
            steps.append((12, depth))
        elif ".dataset=load_dataset_config(" in src:
            steps.append((13, depth))
        elif loop_var and src == f"cfg[{loop_var}]=OmegaConf.merge(cfg[{loop_var}],cfg_from_file_new[{loop_var}])":
            steps.append((14, depth))
        elif "build_operators(cfg.physics)" in src:
            steps.append((15, depth))
        elif "initialize_models_from_config(" in src:
            steps.append((16, depth))
        elif "setup_engine(" in src:
            steps.append((17, depth))

    for st in fn.body:
        classify(st, 0, None)
    if not any(c == 9 for c, _ in steps):
        raise Untranslatable("key loop `for key in cfg_from_external_source` not found")
    return (f"def {k.name} : List (Nat × Nat) := {[list(x) for x in steps]}\n".replace("[[", "[(").replace("]]", ")]")
            .replace("], [", "), (") +
            f"/-- keys the loop skips / the typed sections it treats specially -/\n"
            f"def mergeSkippedKeys : List (List Nat) := [" + ", ".join(cps(x) for x in skip) + "]\n"
            f"def mergeSectionKeys : List (List Nat) := [" + ", ".join(cps(x) for x in sections) + "]\n")


# when the function can no longer be read, the companion tables of the kernel must exist as well (the model's own values)
_MERGE_FALLBACK = ("([(1, 1), (2, 0), (3, 0), (4, 0), (5, 0), (6, 0), (7, 0), (8, 0), (9, 0), (10, 1), (11, 2), (12, 4), (13, 3), "
                   "(14, 1), (15, 0), (16, 0), (17, 0)] : List (Nat × Nat))\n"
                   "def mergeSkippedKeys : List (List Nat) := [" + ", ".join(cps(x) for x in ("models", "additional_models")) + "]\n"
                   "def mergeSectionKeys : List (List Nat) := [" + ", ".join(cps(x) for x in ("training", "validation", "inference")) + "]\n")


def _dict_flatten_shape(k: Kernel, fn: ast.FunctionDef) -> str:
    """[recurses into dict values, skips the intermediate key (continue), stores leaves under their own key, value classes]"""
    loop = None
    for st in fn.body:
        if isinstance(st, ast.For) and ast.unparse(st.iter).replace(" ", "") == "in_dict.items()":
            loop = st
    if loop is None or ast.unparse(loop.target).replace(" ", "").strip("()") != "k,v":
        raise Untranslatable("`for k, v in in_dict.items()` not found")
    rec = cont = leaf = 0
    classes: list[str] = []
    for st in loop.body:
        if isinstance(st, ast.If) and "isinstance(v" in ast.unparse(st.test).replace(" ", ""):
            call = st.test
            if isinstance(call, ast.Call) and len(call.args) == 2:
                c = call.args[1]
                classes = [ast.unparse(e) for e in (c.elts if isinstance(c, ast.Tuple) else [c])]
            body = [ast.unparse(x).replace(" ", "") for x in st.body]
            rec = int(any(b.startswith("dict_flatten(in_dict=v,dict_out=dict_out)") or b.startswith("dict_flatten(v,dict_out)")
                          for b in body))
            cont = int(isinstance(st.body[-1], ast.Continue))
        elif ast.unparse(st).replace(" ", "") == "dict_out[k]=v":
            leaf = 1
    ok_classes = int(sorted(classes) == ["DictConfig", "dict"])
    return f"def {k.name} : List Nat := [{rec}, {cont}, {leaf}, {ok_classes}]\n"


# ---- which keys `build_transforms_from_environment` removes before flattening -----------------------------------------
def _removed_keys(k: Kernel, fn: ast.FunctionDef, need_masking_call: bool = True) -> str:
    src = ast.unparse(fn)
    if need_masking_call and "build_masking_function(**masking)" not in src.replace(" ", ""):
        raise Untranslatable("`build_masking_function(**masking)` not found")
    keys = None
    flat = False
    for node in ast.walk(fn):
        if isinstance(node, ast.Call) and ast.unparse(node.func).endswith("remove_keys") and len(node.args) == 2:
            a = node.args[1]
            if isinstance(a, ast.Constant) and isinstance(a.value, str):
                keys = [a.value]
            elif isinstance(a, (ast.List, ast.Tuple)) and all(isinstance(e, ast.Constant) for e in a.elts):
                keys = [e.value for e in a.elts]
        if isinstance(node, ast.Call) and ast.unparse(node.func).endswith("dict_flatten"):
            flat = True
    if keys is None or not flat:
        raise Untranslatable("`dict_flatten(... remove_keys(<cfg>.transforms, <keys>))` not found")
    return f"def {k.name} : List (List Nat) := [" + ", ".join(cps(s) for s in keys) + "]\n"


def _removed_keys_inference(k: Kernel, fn: ast.FunctionDef) -> str:
    return _removed_keys(k, fn, need_masking_call=False)


ENV = "direct/environment.py"
register("C20", [
    Kernel("removedTransformKeys", "direct/train.py", "build_transforms_from_environment", [],
           "([[109, 97, 115, 107, 105, 110, 103]] : List (List Nat))", _removed_keys, ret_type="List (List Nat)",
           imports=CONFIG_IMPORT),
    Kernel("removedInferenceTransformKeys", "direct/inference.py", "build_inference_transforms", [],
           "([[109, 97, 115, 107, 105, 110, 103]] : List (List Nat))", _removed_keys_inference, ret_type="List (List Nat)"),
    Kernel("loadModelTarget", ENV, "load_model_from_name", [], "Config.modelTarget",
           _str_to_class_target(["model_name"], {"model_name": "model_name"}), ret_type="Config.Str → Config.Str × Config.Str"),
    Kernel("loadModelConfigTarget", ENV, "load_model_config_from_name", [], "Config.modelConfigTarget",
           _str_to_class_target(["model_name"], {"model_name": "model_name"}), ret_type="Config.Str → Config.Str × Config.Str"),
    Kernel("setupEngineTarget", ENV, "setup_engine", [], "Config.engineTarget",
           _str_to_class_target(["model_name", "engine_name"], {"cfg.model.model_name": "model_name"},
                                {"cfg.model.engine_name": "engine_name"}),
           ret_type="Config.Str → Option Config.Str → Config.Str × Config.Str"),
    Kernel("loadDatasetConfigTarget", ENV, "load_dataset_config", [], "Config.datasetConfigTarget",
           _str_to_class_target(["dataset_name"], {"dataset_name": "dataset_name"}), ret_type="Config.Str → Config.Str × Config.Str"),
    Kernel("buildOperatorsTarget", ENV, "build_operators", [], "Config.operatorTarget",
           _str_to_class_target(["op"], {"cfg.forward_operator": "op"}), ret_type="Config.Str → Config.Str × Config.Str"),
    Kernel("buildMaskingFunctionTarget", "direct/common/subsample.py", "build_masking_function", [], "Config.maskFuncTarget",
           _str_to_class_target(["name"], {"name": "name"}), ret_type="Config.Str → Config.Str × Config.Str"),
    Kernel("buildDatasetTarget", "direct/data/datasets.py", "build_dataset", [], "Config.datasetClassTarget",
           _str_to_class_target(["name"], {"name": "name"}), ret_type="Config.Str → Config.Str × Config.Str"),
    Kernel("buildMetricsTarget", "direct/engine.py", "Engine.build_metrics", [], "Config.functionalTarget",
           _metrics_target,
           ret_type="Config.Str → Config.Str × Config.Str"),
    Kernel("mergeSteps", ENV, "setup_common_environment", [], _MERGE_FALLBACK, _merge_steps, ret_type="List (Nat × Nat)"),
    Kernel("dictFlattenShape", "direct/utils/__init__.py", "dict_flatten", [], "([1, 1, 1, 1] : List Nat)", _dict_flatten_shape,
           ret_type="List Nat"),
])


def _phase3(info: Info, mods: dict):
    c20_guards.collect(info, mods, REPO)
