"""Translation recipes for C06 (ACS region): `center_mask_func` pad and slice, `zero_pad_to_center`
start/stop, the `num_low_freqs` glue of Random / Equispaced / Magic, `centered_disk_mask` and the CIRCUS
disc predicate."""
from __future__ import annotations

import ast

from ..gen import EXTRA, REPO, Kernel, Untranslatable, all_stmts, assign_value, find_assign, register, straightline
from ..pyexpr import emit_def, parse_file, translate_block
from .c04 import F, MG, Tr, if_assign
from .c05 import GENERATORS as C05_GENERATORS, PLUMBING_EXPECTED, SUB, TableBuilder, plumbing, temp_seed_shape

RD = ("DirectVerif.Model.MaskGeom", "DirectVerif.Model.C06Round")


class RTr(Tr):
    """Tr + the binary64 glue of the ACS width, exactly: a *float leaf* (`center_fraction`, `acceleration`) is bound to
    a pair of Lean Int terms (numerator, denominator of its exact value).  `int(round(i * x))`, `int(round(i / x))`,
    `int(i * x)`, `int(x)`, `round(…)` become calls of `C06Round.roundFl / truncFl / roundHalfEven / truncQ`;
    comparisons of a float leaf with a literal become integer comparisons."""

    # Python type of the object bound to a float leaf, as a code (parameter `ty` of the kernel): 0 int, 1 bool, 2 float,
    # 3 np.int64, 4 np.int32, 5 np.float64 (a subclass of float), 6 np.float32, 7 0-d integer ndarray, 8 0-d float ndarray,
    # 9 torch scalar tensor.  `isinstance(x, T)` becomes membership of `ty` in the codes of T: a branch decided on the
    # TYPE of a value is thereby a different Lean term from one decided on the VALUE.
    TYPE_CODES = {"int": [0, 1], "bool": [1], "float": [2, 5], "np.integer": [3, 4], "numpy.integer": [3, 4], "np.int64": [3], "np.int32": [4],
                  "np.floating": [5, 6], "numpy.floating": [5, 6], "np.float64": [5], "np.float32": [6],
                  "numbers.Integral": [0, 1, 3, 4], "Integral": [0, 1, 3, 4], "numbers.Real": [0, 1, 2, 3, 4, 5, 6],
                  "Real": [0, 1, 2, 3, 4, 5, 6], "numbers.Number": [0, 1, 2, 3, 4, 5, 6], "Number": [0, 1, 2, 3, 4, 5, 6],
                  "np.number": [3, 4, 5, 6], "np.generic": [3, 4, 5, 6], "np.ndarray": [7, 8], "torch.Tensor": [9]}

    def __init__(self, binds, bool_binds=None, floats=None, types=None):
        super().__init__(binds, bool_binds)
        self.floats = dict(floats or {})
        self.types = dict(types or {})

    def _isinstance(self, node):
        """`isinstance(<typed leaf>, T)` / `type(<leaf>) is T` / `type(<leaf>) == T` -> membership test on the type code"""
        leaf = tys = None
        exact = False
        if isinstance(node, ast.Call) and isinstance(node.func, ast.Name) and node.func.id == "isinstance" and len(node.args) == 2:
            leaf, tys = node.args
        elif isinstance(node, ast.Compare) and len(node.ops) == 1 and isinstance(node.ops[0], (ast.Is, ast.Eq)) \
                and isinstance(node.left, ast.Call) and ast.unparse(node.left.func) == "type" and len(node.left.args) == 1:
            leaf, tys, exact = node.left.args[0], node.comparators[0], True
        if leaf is None or ast.unparse(leaf) not in self.types:
            return None
        names = [ast.unparse(e) for e in tys.elts] if isinstance(tys, ast.Tuple) else [ast.unparse(tys)]
        codes: set[int] = set()
        for n in names:
            if n not in self.TYPE_CODES:
                raise Untranslatable(f"isinstance against `{n}`")
            codes |= set(self.TYPE_CODES[n]) if not exact else {self.TYPE_CODES[n][0]}
        return f"(decide ({self.types[ast.unparse(leaf)]} ∈ ([{', '.join(map(str, sorted(codes)))}] : List Int)))"

    def _is_float(self, node) -> bool:
        return ast.unparse(node) in self.floats

    def fexact(self, node):
        """(num, den, rounded) — Lean Nat terms of the exact rational value of a float expression made of ONE
        operation on an int and a float leaf (its binary64 rounding is applied by the caller when `rounded`)"""
        if self._is_float(node):
            n, d = self.floats[ast.unparse(node)]
            return f"{n}.toNat", f"{d}.toNat", False
        if isinstance(node, ast.BinOp) and isinstance(node.op, (ast.Mult, ast.Div)):
            lf, rf = self._is_float(node.left), self._is_float(node.right)
            if isinstance(node.op, ast.Mult) and lf != rf:
                i, x = (node.right, node.left) if lf else (node.left, node.right)
                n, d = self.floats[ast.unparse(x)]
                return f"({self.int(i)}).toNat * {n}.toNat", f"{d}.toNat", True
            if isinstance(node.op, ast.Div) and rf and not lf:
                n, d = self.floats[ast.unparse(node.right)]
                return f"({self.int(node.left)}).toNat * {d}.toNat", f"{n}.toNat", True
            if isinstance(node.op, ast.Div) and not lf and not rf:
                return f"({self.int(node.left)}).toNat", f"({self.int(node.right)}).toNat", True
        raise Untranslatable(f"float expression `{ast.unparse(node)}`")

    def int(self, node):
        if self._is_float(node):                      # a float used where an int is expected (`num_low_freqs = center_fraction`)
            n, d = self.floats[ast.unparse(node)]
            return f"((C06Round.truncQ {n}.toNat {d}.toNat : Nat) : Int)"
        if isinstance(node, ast.Call) and isinstance(node.func, ast.Name) and len(node.args) == 1 and not node.keywords \
                and ast.unparse(node) not in self.binds:
            f, a = node.func.id, node.args[0]
            inner_round = (isinstance(a, ast.Call) and isinstance(a.func, ast.Name) and a.func.id == "round"
                           and len(a.args) == 1 and not a.keywords)
            try:
                if f == "round" or (f == "int" and inner_round):
                    n, d, r = self.fexact(a.args[0] if (f == "int" and inner_round) else a)
                    return f"((C06Round.{'roundFl' if r else 'roundHalfEven'} ({n}) ({d}) : Nat) : Int)"
                if f == "int":
                    n, d, r = self.fexact(a)
                    return f"((C06Round.{'truncFl' if r else 'truncQ'} ({n}) ({d}) : Nat) : Int)"
            except Untranslatable:
                pass
        return super().int(node)

    def _frac(self, node):
        """(num, den) Lean Int terms of a float leaf or an integer-valued literal, else None"""
        if self._is_float(node):
            return self.floats[ast.unparse(node)]
        if isinstance(node, ast.Constant) and isinstance(node.value, (int, float)) and not isinstance(node.value, bool) \
                and float(node.value) == int(node.value):
            return f"({int(node.value)} : Int)", "(1 : Int)"
        return None

    def bool(self, node):
        t = self._isinstance(node) if ast.unparse(node) not in self.bool_binds else None
        if t is not None:
            return t
        # (chained) comparisons between float leaves and integer-valued literals: cross-multiplied (denominators > 0)
        if isinstance(node, ast.Compare) and ast.unparse(node) not in self.bool_binds:
            ops = [node.left] + list(node.comparators)
            fr = [self._frac(o) for o in ops]
            if all(f is not None for f in fr) and any(self._is_float(o) for o in ops) \
                    and all(type(op) in self._CMP for op in node.ops):
                parts = []
                for (an, ad), (bn, bd), op in zip(fr, fr[1:], node.ops):
                    sym = self._CMP[type(op)]
                    lhs = an if bd == "(1 : Int)" else f"{an} * {bd}"
                    rhs = bn if ad == "(1 : Int)" else f"{bn} * {ad}"
                    parts.append(f"({lhs} {sym} {rhs})" if sym in ("==", "!=") else f"(decide ({lhs} {sym} {rhs}))")
                return "(" + " && ".join(parts) + ")"
        return super().bool(node)


_CF = {"center_fraction": ("cf_num", "cf_den")}
_ACC = {"acceleration": ("acc_num", "acc_den")}


def num_low_if_exact():
    """`if <test on center_fraction>: num_low_freqs = A else: num_low_freqs = B`, float glue translated"""

    def build(k, fn):
        tr = RTr({"num_cols": "num_cols"}, None, _CF, {"center_fraction": "ty"})
        for st in all_stmts(fn):
            if isinstance(st, ast.If) and st.orelse and len(st.body) == 1 and len(st.orelse) == 1:
                a, b = st.body[0], st.orelse[0]
                if all(isinstance(s, ast.Assign) and ast.unparse(s.targets[0]) == "num_low_freqs" for s in (a, b)):
                    return emit_def(k.name, k.params, [], f"(if {tr.bool(st.test)} then {tr.int(a.value)} else {tr.int(b.value)})")
        raise Untranslatable("if/else assignment of num_low_freqs not found")

    return build


def ctor_guard():
    """`if not all(<test on center_fraction> for center_fraction in center_fractions): raise ValueError` of a
    constructor: the per-element acceptance test"""

    def build(k, fn):
        tr = RTr({}, {"isinstance(center_fraction, int)": "(is_int != 0)"}, _CF)
        for st in all_stmts(fn):
            if not (isinstance(st, ast.If) and st.body and isinstance(st.body[0], ast.Raise) and not st.orelse):
                continue
            t = st.test
            if isinstance(t, ast.UnaryOp) and isinstance(t.op, ast.Not) and isinstance(t.operand, ast.Call) \
                    and ast.unparse(t.operand.func) == "all" and len(t.operand.args) == 1 \
                    and isinstance(t.operand.args[0], ast.GeneratorExp):
                g = t.operand.args[0]
                if len(g.generators) == 1 and not g.generators[0].ifs and ast.unparse(g.generators[0].target) == "center_fraction" \
                        and ast.unparse(g.generators[0].iter) == "center_fractions":
                    return emit_def(k.name, k.params, [], tr.bool(g.elt), "Bool")
        raise Untranslatable("`if not all(… for center_fraction in center_fractions): raise` not found")

    return build


def assign_exact(target: str, floats: dict, nth: int = 0):
    """right-hand side of the nth assignment to `target`, float glue translated"""

    def build(k, fn):
        tr = RTr({"num_cols": "num_cols"}, None, floats, {"center_fraction": "ty"} if "center_fraction" in floats else {"acceleration": "ty"})
        return emit_def(k.name, k.params, [], tr.int(find_assign(fn, target, nth).value))

    return build


def slice_bound(binds, target_base: str, which: str):
    """lower / upper bound of `target_base[lo:hi] = …`"""

    def build(k, fn):
        tr = Tr(binds)
        lets, _ = translate_block(fn.body, tr, [])
        for st in all_stmts(fn):
            if (isinstance(st, ast.Assign) and len(st.targets) == 1 and isinstance(st.targets[0], ast.Subscript)
                    and ast.unparse(st.targets[0].value) == target_base and isinstance(st.targets[0].slice, ast.Slice)):
                sl = st.targets[0].slice
                if sl.step is not None or sl.lower is None or sl.upper is None:
                    raise Untranslatable("slice with step / open bound")
                if ast.unparse(st.value) != "True":
                    raise Untranslatable("slice is not set to True")
                return emit_def(k.name, k.params, lets, tr.int(sl.lower if which == "lo" else sl.upper))
        raise Untranslatable(f"`{target_base}[lo:hi] = True` not found")

    return build


def zero_pad_slice(which: int):
    """`slice(start, stop) for target_dim, current_dim in zip(target_shape, current_shape)`"""

    def build(k, fn):
        for n in ast.walk(fn):
            if isinstance(n, ast.GeneratorExp) and isinstance(n.elt, ast.Call) and ast.unparse(n.elt.func) == "slice":
                if len(n.generators) != 1 or len(n.elt.args) != 2:
                    raise Untranslatable("unexpected slice generator")
                g = n.generators[0]
                if (ast.unparse(g.target).replace(" ", "") not in ("target_dim,current_dim", "(target_dim,current_dim)")
                        or ast.unparse(g.iter).replace(" ", "") != "zip(target_shape,current_shape)" or g.ifs):
                    raise Untranslatable(f"unexpected generator `{ast.unparse(g.target)} in {ast.unparse(g.iter)}`")
                tr = Tr({"target_dim": "target_dim", "current_dim": "current_dim"})
                return emit_def(k.name, k.params, [], tr.int(n.elt.args[which]))
        raise Untranslatable("slice generator not found")

    return build


def bool_assign(binds, target: str, scope=None):
    """boolean right-hand side of the assignment to `target` (locals of the straight-line prefix in scope)"""

    def build(k, fn):
        tr = Tr(binds)
        lets, _ = translate_block(fn.body, tr, [])
        for st in all_stmts(fn):
            if isinstance(st, ast.Assign) and len(st.targets) == 1 and ast.unparse(st.targets[0]) == target:
                return emit_def(k.name, k.params, lets, tr.bool(st.value), "Bool")
        raise Untranslatable(f"assignment to `{target}` not found")

    return build


def num_low_if(binds, bool_binds):
    """`if <test>: num_low_freqs = A else: num_low_freqs = B` with float leaves bound"""

    def build(k, fn):
        tr = Tr(binds, bool_binds)
        for st in all_stmts(fn):
            if isinstance(st, ast.If) and st.orelse and len(st.body) == 1 and len(st.orelse) == 1:
                a, b = st.body[0], st.orelse[0]
                if all(isinstance(s, ast.Assign) and ast.unparse(s.targets[0]) == "num_low_freqs" for s in (a, b)):
                    return emit_def(k.name, k.params, [], f"(if {tr.bool(st.test)} then {tr.int(a.value)} else {tr.int(b.value)})")
        raise Untranslatable("if/else assignment of num_low_freqs not found")

    return build


_cm = {"num_cols": "num_cols", "num_low_freqs": "num_low_freqs"}
_disk = {"shape[0]": "rows", "shape[1]": "cols", "X": "x", "Y": "y", "radius": "radius"}
_rounded = "int(round(num_cols * center_fraction))"

register("C06", [
    Kernel("center_mask_pad", F, "CartesianVerticalMaskFunc.center_mask_func", ["num_cols", "num_low_freqs"],
           "MaskGeom.centerPad", straightline(_cm, "pad"), imports=MG),
    Kernel("center_mask_lo", F, "CartesianVerticalMaskFunc.center_mask_func", ["num_cols", "num_low_freqs"],
           "MaskGeom.centerPad", slice_bound(_cm, "mask", "lo"), imports=MG),
    Kernel("center_mask_hi", F, "CartesianVerticalMaskFunc.center_mask_func", ["num_cols", "num_low_freqs"],
           "(fun n l => MaskGeom.centerPad n l + l)", slice_bound(_cm, "mask", "hi"), imports=MG),
    Kernel("zero_pad_start", F, "KtBaseMaskFunc.zero_pad_to_center", ["target_dim", "current_dim"],
           "MaskGeom.zeroPadStart", zero_pad_slice(0), imports=MG),
    Kernel("zero_pad_stop", F, "KtBaseMaskFunc.zero_pad_to_center", ["target_dim", "current_dim"],
           "(fun t c => MaskGeom.zeroPadStart t c + c)", zero_pad_slice(1), imports=MG),
    Kernel("num_low_random", F, "RandomMaskFunc.mask_func", ["num_cols", "cf_num", "cf_den", "ty"],
           "(fun n a b _ => C06Round.numLowFraction n a b)", num_low_if_exact(), imports=RD),
    Kernel("num_low_equispaced", F, "EquispacedMaskFunc.mask_func", ["num_cols", "cf_num", "cf_den", "ty"],
           "(fun n a b _ => C06Round.numLowFraction n a b)", num_low_if_exact(), imports=RD),
    Kernel("num_low_magic", F, "MagicMaskFunc.mask_func", ["num_cols", "cf_num", "cf_den", "ty"],
           "(fun n a b _ => C06Round.numLowMagicRaw n a b)", num_low_if_exact(), imports=RD),
    Kernel("magic_target", F, "MagicMaskFunc.mask_func", ["num_cols", "acc_num", "acc_den", "ty"],
           "(fun n a b _ => ((C06Round.roundQuot n.toNat a.toNat b.toNat : Nat) : Int))",
           assign_exact("target_cols_to_sample", _ACC), imports=RD),
    Kernel("num_low_gaussian1d", F, "Gaussian1DMaskFunc.mask_func", ["num_cols", "cf_num", "cf_den", "ty"],
           "(fun n a b _ => ((C06Round.roundMul n.toNat a.toNat b.toNat : Nat) : Int))",
           assign_exact("num_low_freqs", _CF), imports=RD),
    Kernel("num_low_ktuniform", F, "KtUniformMaskFunc.mask_func", ["num_cols", "cf_num", "cf_den", "ty"],
           "(fun n a b _ => ((C06Round.roundMul n.toNat a.toNat b.toNat : Nat) : Int))",
           assign_exact("num_low_freqs", _CF), imports=RD),
    Kernel("num_low_ktgaussian1d", F, "KtGaussian1DMaskFunc.mask_func", ["num_cols", "cf_num", "cf_den", "ty"],
           "(fun n a b _ => ((C06Round.roundMul n.toNat a.toNat b.toNat : Nat) : Int))",
           assign_exact("num_low_freqs", _CF), imports=RD),
    *[Kernel(f"ctor_accepts_{nm.lower()}", F, f"{nm}MaskFunc.__init__", ["cf_num", "cf_den", "is_int"],
             "(fun a b i => C06Round.fractionAccepted a b i)" if nm.startswith("FastMRI") else "(fun a b i => C06Round.countAccepted a b i)",
             ctor_guard(), ret_type="Bool", imports=RD)
      for nm in ("FastMRIRandom", "FastMRIEquispaced", "FastMRIMagic", "CartesianRandom", "CartesianEquispaced", "CartesianMagic")],
    Kernel("magic_cap", F, "MagicMaskFunc.mask_func", ["l", "target"], "MaskGeom.magicCap",
           assign_value({"num_low_freqs": "l", "target_cols_to_sample": "target"}, "num_low_freqs", nth=2), imports=MG),
    Kernel("magic_adjusted_target", F, "MagicMaskFunc.mask_func", ["l", "target"], "(fun l target => target - l)",
           assign_value({"num_low_freqs": "l", "target_cols_to_sample": "target"}, "adjusted_target_cols_to_sample"),
           imports=MG),
    Kernel("disk_pred", F, "centered_disk_mask", ["rows", "cols", "radius", "x", "y"],
           "(fun rows cols radius x y => decide (MaskGeom.sq (x - rows / 2) + MaskGeom.sq (y - cols / 2) < MaskGeom.sq radius))",
           bool_assign(_disk, "mask"), ret_type="Bool", imports=MG),
    Kernel("circus_disk_pred", F, "CIRCUSMaskFunc.circular_centered_mask", ["cx", "cy", "thr", "x", "y"],
           "(fun cx cy thr x y => decide (MaskGeom.sq (x - cx) + MaskGeom.sq (y - cy) ≤ thr))",
           bool_assign({"Y": "x", "X": "y", "center[0]": "cx", "center[1]": "cy", "radius ** 2": "thr"}, "disk"),
           ret_type="Bool", imports=MG),
])


# --------------------------------------------------------------------------------------------------
# structural tables: how the seed reaches the random stream, what an object remembers, what `__call__` does
_CACHE_DECOS = ("cache", "lru_cache", "cached_property", "memoize", "memoized", "cached")
_MUTATORS = TableBuilder._MUTATORS


class StateScan(TableBuilder):
    """C05's walker (instance-state writes in `mask_func` and every helper it reaches), additionally remembering the
    functions reached so that class-level / module-level state and memoising decorators can be looked for in them"""

    def __init__(self, tree: ast.Module):
        super().__init__(tree)
        self.reached: dict[str, tuple] = {}
        self.module_names = set()
        for st in tree.body:
            tg = st.targets if isinstance(st, ast.Assign) else [st.target] if isinstance(st, (ast.AnnAssign, ast.AugAssign)) else []
            for t in tg:
                for n in ast.walk(t):
                    if isinstance(n, ast.Name):
                        self.module_names.add(n.id)

    def walk_fn(self, fn, owner, cls, in_priv_scope, param_prov, lead):
        qual = f"{owner}.{fn.name}" if owner else fn.name
        self.reached.setdefault(qual, (fn, self._gen["name"]))
        super().walk_fn(fn, owner, cls, in_priv_scope, param_prov, lead)

    def entry(self, gen: str, method: str):
        """walk `<gen>MaskFunc.<method>` (resolved through the bases) like a `mask_func`"""
        cls = gen + "MaskFunc"
        owner, fn = self.resolve(cls, method)
        if fn is None:
            raise Untranslatable(f"{cls}.{method} not found")
        self._gen = {"name": gen, "sites": [], "lead": [], "acs_line": -1, "scope_ok": False, "owner": owner}
        self._visited = set()
        self.walk_fn(fn, owner, cls, in_priv_scope=False, param_prov={}, lead=False)
        return owner, fn

    def shared_state(self) -> list[dict]:
        """class-level / module-level state touched, `global` / `nonlocal`, memoising decorators and mutable default
        arguments, in every function reached"""
        out = []
        shared = self.module_names | set(self.classes)

        def base_of(n):
            while isinstance(n, (ast.Attribute, ast.Subscript)):
                n = n.value
            return n

        def is_shared_base(b, top) -> bool:
            if isinstance(b, ast.Name):
                if b.id == "cls":
                    return True
                # a bare module-level name can only be *mutated* (attribute / item store), never rebound without `global`
                return b.id in shared and top is not b
            if isinstance(b, ast.Call) and ast.unparse(b) in ("type(self)", "self.__class__"):
                return True
            return False

        for qual, (fn, gen) in self.reached.items():
            def rec(lineno, text):
                r = {"gen": gen, "func": qual, "lineno": lineno, "text": text.replace('"', "'")[:50]}
                if not any(x["func"] == qual and x["lineno"] == lineno and x["text"] == r["text"] for x in out):
                    out.append(r)

            for d in fn.decorator_list:
                name = ast.unparse(d.func if isinstance(d, ast.Call) else d).split(".")[-1]
                if name in _CACHE_DECOS:
                    rec(d.lineno, "@" + ast.unparse(d))
            for a, dflt in zip(reversed(fn.args.args + fn.args.kwonlyargs), reversed(fn.args.defaults + fn.args.kw_defaults)):
                if isinstance(dflt, (ast.Dict, ast.List, ast.Set)) or (
                        isinstance(dflt, ast.Call) and ast.unparse(dflt.func) in ("dict", "list", "set", "defaultdict", "OrderedDict")):
                    rec(fn.lineno, f"mutable default {a.arg}={ast.unparse(dflt)}")
            # local aliases of instance state: `m = self.memo`, `m = vars(self).setdefault(...)`, `d = self.__dict__`, …
            def self_rooted(e) -> bool:
                if isinstance(e, ast.Call):
                    f = e.func
                    if isinstance(f, ast.Name) and f.id in ("vars", "getattr") and e.args and ast.unparse(e.args[0]) == "self":
                        return True
                    if isinstance(f, ast.Attribute) and f.attr in ("setdefault", "get", "__getitem__"):
                        return self_rooted(f.value)
                    return False
                b = e
                while isinstance(b, (ast.Attribute, ast.Subscript)):
                    b = b.value
                if isinstance(b, ast.Call):
                    return self_rooted(b)
                if isinstance(b, ast.Name):
                    return (b.id == "self" and e is not b and not ast.unparse(e).startswith("self.rng")) or b.id in alias
                return False

            alias: set[str] = set()
            for _ in range(2):
                for n in ast.walk(fn):
                    if isinstance(n, ast.Assign) and len(n.targets) == 1 and isinstance(n.targets[0], ast.Name) and self_rooted(n.value):
                        alias.add(n.targets[0].id)
            for n in ast.walk(fn):
                if isinstance(n, (ast.Attribute, ast.Subscript)) and isinstance(getattr(n, "ctx", None), (ast.Store, ast.Del)):
                    b = base_of(n)
                    if (isinstance(b, ast.Name) and b.id in alias) or (isinstance(b, ast.Call) and self_rooted(b)):
                        rec(n.lineno, "via alias: " + ast.unparse(n))
                if isinstance(n, ast.Call) and isinstance(n.func, ast.Attribute) and n.func.attr in _MUTATORS:
                    b = base_of(n.func.value)
                    if (isinstance(b, ast.Name) and b.id in alias) or (isinstance(b, ast.Call) and self_rooted(b)):
                        rec(n.lineno, "via alias: " + ast.unparse(n))
            for n in ast.walk(fn):
                if isinstance(n, (ast.Global, ast.Nonlocal)):
                    rec(n.lineno, ("global " if isinstance(n, ast.Global) else "nonlocal ") + ", ".join(n.names))
                if isinstance(n, (ast.Attribute, ast.Subscript)) and isinstance(getattr(n, "ctx", None), (ast.Store, ast.Del)):
                    b = base_of(n)
                    if is_shared_base(b, n) or ".__class__." in ast.unparse(n) or ast.unparse(n).startswith("self.__class__"):
                        rec(n.lineno, ast.unparse(n))
                if isinstance(n, ast.Call) and isinstance(n.func, ast.Attribute) and n.func.attr in _MUTATORS:
                    b = base_of(n.func.value)
                    txt = ast.unparse(n.func.value)
                    if (isinstance(b, ast.Name) and (b.id in shared or b.id == "cls")) or txt.startswith(("type(self)", "self.__class__")):
                        rec(n.lineno, ast.unparse(n))
        return out


def _temp_seed_args(tree: ast.Module) -> list[str]:
    """the argument lists of every `<rng>.seed(…)` call inside `temp_seed`, parameters renamed `$0` (stream), `$1` (seed)"""
    fn = next((f for f in tree.body if isinstance(f, ast.FunctionDef) and f.name == "temp_seed"), None)
    if fn is None:
        return ["?missing"]
    params = [a.arg for a in fn.args.args]
    out = []

    class Ren(ast.NodeTransformer):
        def visit_Name(self, n):
            return ast.copy_location(ast.Name(id=f"${params.index(n.id)}", ctx=n.ctx), n) if n.id in params else n

    rebound = [n for n in ast.walk(fn) if isinstance(n, ast.Name) and isinstance(n.ctx, (ast.Store, ast.Del)) and n.id in params]
    for n in ast.walk(fn):
        if isinstance(n, ast.Call) and isinstance(n.func, ast.Attribute) and n.func.attr == "seed":
            args = [ast.unparse(Ren().visit(ast.parse(ast.unparse(a), mode="eval").body)) for a in n.args]
            args += [f"{k.arg}={ast.unparse(Ren().visit(ast.parse(ast.unparse(k.value), mode='eval').body))}" for k in n.keywords]
            out.append(", ".join(args))
    if rebound:
        out.append("?parameter rebound: " + ", ".join(sorted({n.id for n in rebound})))
    return out


_FORWARD = "self.mask_func(shape, *args, **kwargs)"


def _call_plan(fn: ast.FunctionDef) -> list[str]:
    body = [st for st in fn.body if not (isinstance(st, ast.Expr) and isinstance(st.value, ast.Constant))]
    toks, i = [], 0
    while i < len(body):
        st = body[i]
        if isinstance(st, ast.If) and not st.orelse and st.body and all(isinstance(s, ast.Raise) for s in st.body):
            toks.append("guard")
        elif isinstance(st, ast.Return) and st.value is not None and ast.unparse(st.value) == _FORWARD:
            toks.append("forward")
        elif (isinstance(st, ast.Assign) and len(st.targets) == 1 and isinstance(st.targets[0], ast.Name)
              and ast.unparse(st.value) == _FORWARD and i + 1 < len(body) and isinstance(body[i + 1], ast.Return)
              and ast.unparse(body[i + 1].value) == st.targets[0].id):
            toks.append("forward")
            i += 1
        else:
            toks.append("?" + type(st).__name__ + f"@{st.lineno}")
        i += 1
    return toks


def seed_tables() -> dict:
    tree = parse_file(REPO / SUB)
    sc = StateScan(tree)
    rows, plans = [], {}
    for g in C05_GENERATORS:
        sc.generator(g)                       # mask_func + helpers: RNG sites, `with temp_seed(self.rng, seed)`, self-writes
        gi = sc.gens[-1]
        owner, fn = sc.resolve(g + "MaskFunc", "mask_func")
        rebound = any(isinstance(n, ast.Name) and n.id == "seed" and isinstance(n.ctx, (ast.Store, ast.Del)) for n in ast.walk(fn))
        withs = [n for n in ast.walk(fn) if isinstance(n, ast.With) and any(sc._temp_seed_item(i) for i in n.items)]
        chooses = [n for n in ast.walk(fn) if isinstance(n, ast.Call) and ast.unparse(n.func) == "self.choose_acceleration"]
        inside = (len(withs) == 1 and len(chooses) == 1 and gi["acs_line"] > 0 and chooses[0].lineno < gi["acs_line"]
                  and any(c is chooses[0] for c in ast.walk(withs[0])))
        rows.append((g, bool(gi["scope_ok"]), bool(rebound), bool(inside)))
    for g in C05_GENERATORS:
        owner, fn = sc.entry(g, "__call__")   # `__call__` (+ whatever it reaches) as a second entry point
        plans.setdefault(owner, _call_plan(fn))
    writes = list(sc.self_writes)
    for w in sc.shared_state():
        if w not in writes:
            writes.append(w)
    return {"grid_dtypes": _grid_dtypes(tree), "poisson_order": _poisson_order(tree), "plumbing": plumbing() + _ctor_stores(tree),
            "temp_seed": temp_seed_shape(tree), "temp_seed_args": _temp_seed_args(tree), "writes": writes,
            "plans": sorted(plans.items()), "rows": rows, "reached": sorted(sc.reached)}


def _poisson_order(tree: ast.Module) -> list[str]:
    """order of the three steps inside the bisection loop of `VariableDensityPoissonMaskFunc.poisson`:
    `raster` (`_poisson(…)`), `crop` (`if self.crop_corner: mask *= r < 1`), `disc` (`mask = mask | centered_disk_mask(…)`)"""
    cls = next((c for c in tree.body if isinstance(c, ast.ClassDef) and c.name == "VariableDensityPoissonMaskFunc"), None)
    fn = next((f for f in (cls.body if cls else []) if isinstance(f, ast.FunctionDef) and f.name == "poisson"), None)
    if fn is None:
        return ["?missing"]
    loops = [n for n in ast.walk(fn) if isinstance(n, ast.While)]
    if len(loops) != 1:
        return [f"?{len(loops)} loops"]
    toks = []
    for st in loops[0].body:
        txt = ast.unparse(st).replace(" ", "")
        if isinstance(st, ast.Expr) and isinstance(st.value, ast.Call) and ast.unparse(st.value.func) == "_poisson":
            toks.append("raster")
        elif isinstance(st, ast.If) and ast.unparse(st.test) == "self.crop_corner" and not st.orelse and len(st.body) == 1 \
                and ast.unparse(st.body[0]).replace(" ", "") in ("mask*=r<1", "mask=mask*(r<1)", "mask=mask&(r<1)", "mask&=r<1"):
            toks.append("crop")
        elif "crop_corner" in txt:
            toks.append("?crop:" + txt[:40])
        elif "centered_disk_mask" in txt:
            toks.append("disc" if txt.startswith(("mask=mask|centered_disk_mask(", "mask|=centered_disk_mask(", "mask=centered_disk_mask(")) and
                        txt.count("mask") <= 4 and "&" not in txt and "*" not in txt else "?disc:" + txt[:40])
    return toks


def _ctor_stores(tree: ast.Module) -> list[tuple[str, bool]]:
    """`BaseMaskFunc.__init__` keeps the configured sequences as they are given (no conversion that could change a
    value, its type or the pairing of centre fractions and accelerations)"""
    cls = next((c for c in tree.body if isinstance(c, ast.ClassDef) and c.name == "BaseMaskFunc"), None)
    fn = next((f for f in (cls.body if cls else []) if isinstance(f, ast.FunctionDef) and f.name == "__init__"), None)
    rows = []
    for attr in ("center_fractions", "accelerations"):
        stores = [st for st in ast.walk(fn) if isinstance(st, (ast.Assign, ast.AnnAssign, ast.AugAssign))
                  and any(ast.unparse(t) == f"self.{attr}" for t in (st.targets if isinstance(st, ast.Assign) else [st.target]))] if fn else []
        rows.append((f"BaseMaskFunc.__init__: self.{attr} = {attr} (once, unchanged)",
                     len(stores) == 1 and isinstance(stores[0], ast.Assign) and ast.unparse(stores[0].value) == attr))
    return rows


_GRID_FUNCS = ["centered_disk_mask", "CIRCUSMaskFunc.circular_centered_mask", "CartesianVerticalMaskFunc.center_mask_func",
               "KtBaseMaskFunc.zero_pad_to_center", "VariableDensityPoissonMaskFunc.poisson"]
_GRID_CTORS = {"indices", "arange", "ogrid", "mgrid", "meshgrid", "linspace", "zeros", "ones", "empty", "full", "tensor", "asarray", "array",
               "as_tensor", "from_numpy"}
_CAST_METHODS = {"astype", "to", "type", "view"}
_TORCH_CASTS = {"short": "torch.int16", "int": "torch.int32", "byte": "torch.uint8", "char": "torch.int8", "half": "torch.float16",
                "long": "torch.int64", "double": "torch.float64", "float": "torch.float32", "bool": "torch.bool"}
_DTYPE_WORDS = ("int", "float", "bool", "double", "long", "short", "byte", "half", "complex", "uintp", "intp", "intc", "ubyte")


def _looks_like_dtype(txt: str) -> bool:
    t = txt.strip("'\"").lower().split(".")[-1].lstrip("<>=|")
    return any(w in t for w in _DTYPE_WORDS) or (len(t) == 2 and t[0] in "iuf" and t[1].isdigit())


def _dtype_class(txt: str) -> str:
    """`default` | `wide-int` (64-bit signed) | `narrow-int` (fewer bits or unsigned: index arithmetic wraps) | `bool` |
    `float` | `narrow-float` (float16) | `inherit` (`x.dtype`) | `unknown`"""
    import re

    if txt == "default":
        return "default"
    if txt.endswith(".dtype"):
        return "inherit"
    t = txt.strip("'\"").lower().split(".")[-1].lstrip("<>=|")
    if re.fullmatch(r"uint\d*|int(8|16|32)|short|ushort|ubyte|byte|intc|uintc|uintp|char|[iu][124]|u8|ulong|ulonglong", t):
        return "narrow-int"
    if re.fullmatch(r"int|int64|intp|int_|long|longlong|i8", t):
        return "wide-int"
    if re.fullmatch(r"bool|bool_|\?", t):
        return "bool"
    if re.fullmatch(r"float16|half|f2|bfloat16", t):
        return "narrow-float"
    if re.fullmatch(r"float\d*|double|single|f4|f8|longdouble", t):
        return "float"
    return "unknown"


def _grid_dtypes(tree: ast.Module) -> list[tuple[str, str, str]]:
    """the ACS geometry helpers compute squared distances / slice bounds on index grids: every index-grid constructor
    (`np.indices`, `np.ogrid[...]`, `np.arange`, …) and every explicit dtype / cast in those helpers, as
    (helper, expression, dtype) — `default` when no dtype is given (numpy / torch then use 64-bit signed integers)"""
    from ..pyexpr import find_function

    rows = []
    for q in _GRID_FUNCS:
        try:
            fn = find_function(tree, q)
        except Untranslatable:
            rows.append((q, "?function not found", "?"))
            continue
        for n in ast.walk(fn):
            if isinstance(n, ast.Subscript) and ast.unparse(n.value).split(".")[-1] in ("ogrid", "mgrid"):
                rows.append((q, ast.unparse(n)[:60], "default"))
            if not isinstance(n, ast.Call):
                continue
            fname = ast.unparse(n.func).split(".")[-1]
            kw = next((k for k in n.keywords if k.arg == "dtype"), None)
            if kw is not None:
                rows.append((q, ast.unparse(n)[:60], ast.unparse(kw.value)))
            elif isinstance(n.func, ast.Attribute) and fname in _CAST_METHODS and n.args and _looks_like_dtype(ast.unparse(n.args[0])):
                rows.append((q, ast.unparse(n)[:60], ast.unparse(n.args[0])))
            elif isinstance(n.func, ast.Attribute) and fname in _TORCH_CASTS and not n.args and not n.keywords:
                rows.append((q, ast.unparse(n)[:60], _TORCH_CASTS[fname]))
            elif _looks_like_dtype(ast.unparse(n.func)) and ast.unparse(n.func).split(".")[0] in ("np", "numpy", "torch") and n.args:
                rows.append((q, ast.unparse(n)[:60], ast.unparse(n.func)))          # np.uint16(x)
            elif fname in ("indices", "arange", "meshgrid", "linspace") and ast.unparse(n.func).split(".")[0] in ("np", "numpy", "torch"):
                rows.append((q, ast.unparse(n)[:60], "default"))
    return rows


def _b(x) -> str:
    return "true" if x else "false"


def _q(s: str) -> str:
    return '"' + s.replace("\\", "\\\\").replace('"', "'") + '"'


def _seed_extra():
    try:
        t = seed_tables()
    except (Untranslatable, SyntaxError, OSError, StopIteration, AttributeError, TypeError) as e:
        text = (f"/-- SKIPPED ({e}) — last-known-good tables, the bridge is vacuous -/\n"
                'def tempSeed : List String := ["get_state", "seed", "try", "yield", "finally", "set_state"]\n'
                'def tempSeedArgs : List String := ["$1"]\n'
                "def stateWrites : List (String × String × String) := []\n"
                'def callPlans : List (String × List String) := [("BaseMaskFunc", ["guard", "guard", "forward"])]\n'
                "def seedParams : List (String × Bool × Bool × Bool) :=\n  ["
                + ", ".join(f'("{g}", true, false, true)' for g in C05_GENERATORS) + "]\n"
                "def gridDtypes : List (String × String × String) := []\n"
                'def poissonOrder : List String := ["raster", "crop", "disc"]\n'
                "def callSitePlumbing : List (String × Bool) := [" + ", ".join(f"({_q(x)}, true)" for x in PLUMBING_EXPECTED + ["ctor a", "ctor b"]) + "]\n")
        return text, {"seed_pass_through": f"skipped: {e}"}
    L = ["/-- statement skeleton of `temp_seed` (`seed` only when `rng.seed` gets exactly the seed parameter) -/",
         "def tempSeed : List String := [" + ", ".join(_q(x) for x in t["temp_seed"]) + "]\n",
         "/-- arguments of every `<stream>.seed(…)` call in `temp_seed` (`$0` stream, `$1` seed) -/",
         "def tempSeedArgs : List String := [" + ", ".join(_q(x) for x in t["temp_seed_args"]) + "]\n",
         f"/-- instance / class / module state written, memoising decorators, mutable defaults in the {len(t['reached'])} functions\n"
         "reachable from `mask_func` or `__call__` of the 14 generators: (generator, where, what) — must be empty -/",
         "def stateWrites : List (String × String × String) := ["]
    for i, w in enumerate(t["writes"]):
        sep = "," if i + 1 < len(t["writes"]) else ""
        L.append(f'  ({_q(w["gen"])}, {_q(w["func"] + ":" + str(w["lineno"]))}, {_q(w["text"])}){sep}')
    L.append("]\n")
    L.append("/-- `__call__` of every class the 14 generators inherit it from: `guard`* then one `forward` -/")
    L.append("def callPlans : List (String × List String) := ["
             + ", ".join(f"({_q(o)}, [" + ", ".join(_q(x) for x in p) + "])" for o, p in t["plans"]) + "]\n")
    L.append("/-- per generator: (name, one `with temp_seed(self.rng, seed)` over the parameter, `seed` rebound in `mask_func`,\n"
             "`choose_acceleration` called once, inside the block, before the `return_acs` return) -/")
    L.append("def seedParams : List (String × Bool × Bool × Bool) := [")
    for i, (g, a, b, c) in enumerate(t["rows"]):
        sep = "," if i + 1 < len(t["rows"]) else ""
        L.append(f"  ({_q(g)}, {_b(a)}, {_b(b)}, {_b(c)}){sep}")
    L.append("]\n")
    L.append("/-- index-grid constructors and explicit dtypes / casts in the ACS geometry helpers: (helper, expression, dtype class) -/")
    L.append("def gridDtypes : List (String × String × String) := [")
    for i, (a, b, c) in enumerate(t["grid_dtypes"]):
        L.append(f"  ({_q(a)}, {_q(b + '  [dtype ' + c + ']')}, {_q(_dtype_class(c))})" + ("," if i + 1 < len(t["grid_dtypes"]) else ""))
    L.append("]\n")
    L.append("/-- steps of the bisection loop of `VariableDensityPoissonMaskFunc.poisson`, in source order -/")
    L.append("def poissonOrder : List String := [" + ", ".join(_q(x) for x in t["poisson_order"]) + "]\n")
    L.append("/-- the producers of (mask, ACS) pairs outside subsample.py (`CreateSamplingMask.__call__`) and `integerize_seed`: (fact, holds) -/")
    L.append("def callSitePlumbing : List (String × Bool) := [")
    for i, (txt, ok) in enumerate(t["plumbing"]):
        L.append(f"  ({_q(txt)}, {_b(ok)})" + ("," if i + 1 < len(t["plumbing"]) else ""))
    L.append("]\n")
    return "\n".join(L), {"grid_index_dtypes": "translated", "call_site_plumbing": "translated", "poisson_crop_before_disc": "translated", "seed_pass_through": "translated", "state_writes(instance/class/module/memo decorators)": "translated",
                          "call_plan": "translated", "seed_param_and_choice_order": "translated"}


EXTRA["C06"] = _seed_extra
