"""Translation recipes for C06 (ACS region): `center_mask_func` pad and slice, `zero_pad_to_center`
start/stop, the `num_low_freqs` glue of Random / Equispaced / Magic, `centered_disk_mask` and the CIRCUS
disc predicate."""
from __future__ import annotations

import ast

from ..gen import Kernel, Untranslatable, all_stmts, assign_value, register, straightline
from ..pyexpr import emit_def, translate_block
from .c04 import F, MG, Tr, if_assign


def slice_bound(binds, target_base: str, which: str):
    """lower / upper bound of `target_base[lo:hi] = …`"""

    def build(k, fn):
        tr = Tr(binds)
        lets, _ = translate_block(fn.body, tr, [])
        for st in all_stmts(fn):
            if (isinstance(st, ast.Assign) and len(st.targets) == 1 and isinstance(st.targets[0], ast.Subscript)
                    and ast.unparse(st.targets[0].value) == target_base and isinstance(st.targets[0].slice, ast.Slice)):
                sl = st.targets[0].slice
                if sl.step is not None or sl.lower is None or sl.upper is None:
                    raise Untranslatable("slice with step / open bound")
                if ast.unparse(st.value) != "True":
                    raise Untranslatable("slice is not set to True")
                return emit_def(k.name, k.params, lets, tr.int(sl.lower if which == "lo" else sl.upper))
        raise Untranslatable(f"`{target_base}[lo:hi] = True` not found")

    return build


def zero_pad_slice(which: int):
    """`slice(start, stop) for target_dim, current_dim in zip(target_shape, current_shape)`"""

    def build(k, fn):
        for n in ast.walk(fn):
            if isinstance(n, ast.GeneratorExp) and isinstance(n.elt, ast.Call) and ast.unparse(n.elt.func) == "slice":
                if len(n.generators) != 1 or len(n.elt.args) != 2:
                    raise Untranslatable("unexpected slice generator")
                g = n.generators[0]
                if (ast.unparse(g.target).replace(" ", "") not in ("target_dim,current_dim", "(target_dim,current_dim)")
                        or ast.unparse(g.iter).replace(" ", "") != "zip(target_shape,current_shape)" or g.ifs):
                    raise Untranslatable(f"unexpected generator `{ast.unparse(g.target)} in {ast.unparse(g.iter)}`")
                tr = Tr({"target_dim": "target_dim", "current_dim": "current_dim"})
                return emit_def(k.name, k.params, [], tr.int(n.elt.args[which]))
        raise Untranslatable("slice generator not found")

    return build


def bool_assign(binds, target: str, scope=None):
    """boolean right-hand side of the assignment to `target` (locals of the straight-line prefix in scope)"""

    def build(k, fn):
        tr = Tr(binds)
        lets, _ = translate_block(fn.body, tr, [])
        for st in all_stmts(fn):
            if isinstance(st, ast.Assign) and len(st.targets) == 1 and ast.unparse(st.targets[0]) == target:
                return emit_def(k.name, k.params, lets, tr.bool(st.value), "Bool")
        raise Untranslatable(f"assignment to `{target}` not found")

    return build


def num_low_if(binds, bool_binds):
    """`if <test>: num_low_freqs = A else: num_low_freqs = B` with float leaves bound"""

    def build(k, fn):
        tr = Tr(binds, bool_binds)
        for st in all_stmts(fn):
            if isinstance(st, ast.If) and st.orelse and len(st.body) == 1 and len(st.orelse) == 1:
                a, b = st.body[0], st.orelse[0]
                if all(isinstance(s, ast.Assign) and ast.unparse(s.targets[0]) == "num_low_freqs" for s in (a, b)):
                    return emit_def(k.name, k.params, [], f"(if {tr.bool(st.test)} then {tr.int(a.value)} else {tr.int(b.value)})")
        raise Untranslatable("if/else assignment of num_low_freqs not found")

    return build


_cm = {"num_cols": "num_cols", "num_low_freqs": "num_low_freqs"}
_disk = {"shape[0]": "rows", "shape[1]": "cols", "X": "x", "Y": "y", "radius": "radius"}
_rounded = "int(round(num_cols * center_fraction))"

register("C06", [
    Kernel("center_mask_pad", F, "CartesianVerticalMaskFunc.center_mask_func", ["num_cols", "num_low_freqs"],
           "MaskGeom.centerPad", straightline(_cm, "pad"), imports=MG),
    Kernel("center_mask_lo", F, "CartesianVerticalMaskFunc.center_mask_func", ["num_cols", "num_low_freqs"],
           "MaskGeom.centerPad", slice_bound(_cm, "mask", "lo"), imports=MG),
    Kernel("center_mask_hi", F, "CartesianVerticalMaskFunc.center_mask_func", ["num_cols", "num_low_freqs"],
           "(fun n l => MaskGeom.centerPad n l + l)", slice_bound(_cm, "mask", "hi"), imports=MG),
    Kernel("zero_pad_start", F, "KtBaseMaskFunc.zero_pad_to_center", ["target_dim", "current_dim"],
           "MaskGeom.zeroPadStart", zero_pad_slice(0), imports=MG),
    Kernel("zero_pad_stop", F, "KtBaseMaskFunc.zero_pad_to_center", ["target_dim", "current_dim"],
           "(fun t c => MaskGeom.zeroPadStart t c + c)", zero_pad_slice(1), imports=MG),
    Kernel("num_low_random", F, "RandomMaskFunc.mask_func", ["is_fraction", "rounded", "count"],
           "(fun f r c => MaskGeom.numLowFreqs (f != 0) r c)",
           num_low_if({_rounded: "rounded", "int(center_fraction)": "count"}, {"center_fraction < 1.0": "(is_fraction != 0)"}),
           imports=MG),
    Kernel("num_low_equispaced", F, "EquispacedMaskFunc.mask_func", ["is_fraction", "rounded", "count"],
           "(fun f r c => MaskGeom.numLowFreqs (f != 0) r c)",
           num_low_if({_rounded: "rounded", "int(center_fraction)": "count"}, {"center_fraction < 1.0": "(is_fraction != 0)"}),
           imports=MG),
    Kernel("num_low_magic", F, "MagicMaskFunc.mask_func", ["is_count", "rounded", "count"],
           "(fun f r c => MaskGeom.numLowFreqs (f == 0) r c)",
           num_low_if({_rounded: "rounded", "center_fraction": "count"}, {"center_fraction > 1": "(is_count != 0)"}),
           imports=MG),
    Kernel("magic_cap", F, "MagicMaskFunc.mask_func", ["l", "target"], "MaskGeom.magicCap",
           assign_value({"num_low_freqs": "l", "target_cols_to_sample": "target"}, "num_low_freqs", nth=2), imports=MG),
    Kernel("magic_adjusted_target", F, "MagicMaskFunc.mask_func", ["l", "target"], "(fun l target => target - l)",
           assign_value({"num_low_freqs": "l", "target_cols_to_sample": "target"}, "adjusted_target_cols_to_sample"),
           imports=MG),
    Kernel("disk_pred", F, "centered_disk_mask", ["rows", "cols", "radius", "x", "y"],
           "(fun rows cols radius x y => decide (MaskGeom.sq (x - rows / 2) + MaskGeom.sq (y - cols / 2) < MaskGeom.sq radius))",
           bool_assign(_disk, "mask"), ret_type="Bool", imports=MG),
    Kernel("circus_disk_pred", F, "CIRCUSMaskFunc.circular_centered_mask", ["cx", "cy", "thr", "x", "y"],
           "(fun cx cy thr x y => decide (MaskGeom.sq (x - cx) + MaskGeom.sq (y - cy) ≤ thr))",
           bool_assign({"Y": "x", "X": "y", "center[0]": "cx", "center[1]": "cy", "radius ** 2": "thr"}, "disk"),
           ret_type="Bool", imports=MG),
])
