"""Helpers that make the C09 recipes follow behaviour-preserving refactorings:

* `inlined(tree, qualname)`: a copy of a function in which calls of private helpers of the same class (`self._helper(...)`)
  or module (`_helper(...)`) are replaced by the helper's body (single `return` at the end), with parameter bindings;
* `resolve(expr, block, i)`: data-flow substitution of local names by their defining expressions (only when nothing the
  definition mentions is re-assigned in between), so that `n = sqrt(..); n = n.unsqueeze(..); f(x, n)` and
  `f(x, sqrt(..).unsqueeze(..))` are read alike;
* taint analysis for the effects table (is the target of a store / in-place call an *input* of the function?).
"""
from __future__ import annotations

import ast
import copy

from ..gen import Untranslatable

MAX_DEPTH = 4


def _class_of(tree: ast.Module, qual: str):
    if "." not in qual:
        return None
    cname = qual.split(".")[0]
    for n in tree.body:
        if isinstance(n, ast.ClassDef) and n.name == cname:
            return n
    return None


def _names_in(node) -> set:
    return {n.id for n in ast.walk(node) if isinstance(n, ast.Name)}


def _assigned_names(stmts) -> set:
    out = set()
    for st in stmts:
        for n in ast.walk(st):
            if isinstance(n, ast.Name) and isinstance(n.ctx, (ast.Store, ast.Del)):
                out.add(n.id)
            elif isinstance(n, ast.arg):
                out.add(n.arg)
    return out


def _body_wo_doc(fn):
    body = list(fn.body)
    if body and isinstance(body[0], ast.Expr) and isinstance(getattr(body[0], "value", None), ast.Constant) \
            and isinstance(body[0].value.value, str):
        body = body[1:]
    return body


def _inlinable(helper: ast.FunctionDef) -> bool:
    if not isinstance(helper, ast.FunctionDef) or helper.decorator_list or helper.args.vararg or helper.args.kwarg:
        return False
    if not (helper.name.startswith("_") and not helper.name.startswith("__")):
        return False
    body = _body_wo_doc(helper)
    if not body or not isinstance(body[-1], ast.Return) or body[-1].value is None:
        return False
    rets = [n for st in body for n in ast.walk(st) if isinstance(n, ast.Return)]
    if len(rets) != 1:
        return False
    return not any(isinstance(n, (ast.Yield, ast.YieldFrom, ast.Global, ast.Nonlocal)) for st in body for n in ast.walk(st))


class _Rename(ast.NodeTransformer):
    def __init__(self, mapping: dict):
        self.mapping = mapping

    def visit_Name(self, node):
        rep = self.mapping.get(node.id)
        if rep is None:
            return node
        if isinstance(rep, str):
            return ast.copy_location(ast.Name(id=rep, ctx=node.ctx), node)
        return copy.deepcopy(rep) if isinstance(node.ctx, ast.Load) else node


class _Inliner:
    def __init__(self, tree: ast.Module, cls, caller_names: set):
        self.methods = {n.name: n for n in (cls.body if cls else []) if isinstance(n, ast.FunctionDef)}
        self.functions = {n.name: n for n in tree.body if isinstance(n, ast.FunctionDef)}
        self.used = set(caller_names)
        self.count = 0

    def helper_for(self, call: ast.Call):
        f = call.func
        if isinstance(f, ast.Attribute) and isinstance(f.value, ast.Name) and f.value.id == "self" and f.attr in self.methods:
            h = self.methods[f.attr]
            return (h, True) if _inlinable(h) else (None, False)
        if isinstance(f, ast.Name) and f.id in self.functions:
            h = self.functions[f.id]
            return (h, False) if _inlinable(h) else (None, False)
        return None, False

    def expand(self, call: ast.Call, helper, is_method, depth):
        """-> (prelude statements, replacement expression) or None"""
        params = [a.arg for a in helper.args.args]
        if is_method:
            params = params[1:]
        if any(isinstance(a, ast.Starred) for a in call.args) or any(k.arg is None for k in call.keywords):
            return None
        bound = {}
        for p, a in zip(params, call.args):
            bound[p] = a
        for k in call.keywords:
            if k.arg not in params or k.arg in bound:
                return None
            bound[k.arg] = k.value
        defaults = helper.args.defaults
        for p, d in zip(params[len(params) - len(defaults):], defaults):
            bound.setdefault(p, d)
        if set(bound) != set(params) or len(call.args) > len(params):
            return None
        body = copy.deepcopy(_body_wo_doc(helper))
        assigned = _assigned_names(body)
        mapping, prelude = {}, []
        for p in params:
            a = bound[p]
            if isinstance(a, ast.Name) and p not in assigned:
                mapping[p] = a.id                                   # parameter is just another name of the argument
            elif isinstance(a, ast.Constant) and p not in assigned:
                mapping[p] = a
            else:
                new = p if p not in self.used else f"{p}__{helper.name.strip('_')}{self.count}"
                self.used.add(new)
                mapping[p] = new
                prelude.append(ast.Assign(targets=[ast.Name(id=new, ctx=ast.Store())], value=copy.deepcopy(a), lineno=call.lineno))
        for loc in sorted(assigned - set(params)):
            new = loc if loc not in self.used else f"{loc}__{helper.name.strip('_')}{self.count}"
            self.used.add(new)
            if new != loc:
                mapping[loc] = new
        self.count += 1
        body = [_Rename(mapping).visit(st) for st in body]
        ret = body.pop()
        stmts = prelude + body
        for st in stmts:
            ast.fix_missing_locations(st)
        stmts = self.block(stmts, depth + 1)
        pre2, expr = self.expr(ret.value, depth + 1)
        return stmts + pre2, expr

    def expr(self, node, depth):
        """inline helper calls inside an expression -> (prelude, new expression)"""
        prelude = []
        outer = self

        class T(ast.NodeTransformer):
            def visit_Call(self, call):
                self.generic_visit(call)
                if depth >= MAX_DEPTH:
                    return call
                helper, is_method = outer.helper_for(call)
                if helper is None:
                    return call
                r = outer.expand(call, helper, is_method, depth)
                if r is None:
                    return call
                prelude.extend(r[0])
                return r[1]

            def visit_Lambda(self, n):
                return n

            def visit_ListComp(self, n):
                return n

            def visit_GeneratorExp(self, n):
                return n

        new = T().visit(copy.deepcopy(node))
        return prelude, new

    def block(self, stmts, depth):
        out = []
        for st in stmts:
            if isinstance(st, (ast.If, ast.While)):
                pre, test = self.expr(st.test, depth)
                out.extend(pre)
                st = copy.copy(st)
                st.test, st.body, st.orelse = test, self.block(st.body, depth), self.block(st.orelse, depth)
                out.append(st)
            elif isinstance(st, (ast.For, ast.With, ast.Try)):
                st = copy.copy(st)
                for field in ("body", "orelse", "finalbody"):
                    if getattr(st, field, None):
                        setattr(st, field, self.block(getattr(st, field), depth))
                out.append(st)
            elif isinstance(st, (ast.Assign, ast.AugAssign, ast.AnnAssign, ast.Return, ast.Expr)) and getattr(st, "value", None) is not None:
                pre, val = self.expr(st.value, depth)
                out.extend(pre)
                st = copy.copy(st)
                st.value = val
                out.append(st)
            else:
                out.append(st)
        return out


def inlined(tree: ast.Module, qual: str) -> ast.FunctionDef:
    from ..pyexpr import find_function
    fn = find_function(tree, qual)
    cls = _class_of(tree, qual)
    inl = _Inliner(tree, cls, _names_in(fn) | _assigned_names([fn]))
    new = copy.copy(fn)
    new.body = inl.block(list(fn.body), 0)
    ast.fix_missing_locations(new)
    return new


# ---- data-flow substitution ------------------------------------------------------------------------
def _stores(st) -> set:
    """names (re)bound or mutated by a statement, nested blocks included"""
    out = set()
    for n in ast.walk(st):
        if isinstance(n, ast.Name) and isinstance(n.ctx, (ast.Store, ast.Del)):
            out.add(n.id)
        elif isinstance(n, (ast.Subscript, ast.Attribute)) and isinstance(n.ctx, ast.Store):
            base = n
            while isinstance(base, (ast.Subscript, ast.Attribute)):
                base = base.value
            if isinstance(base, ast.Name):
                out.add(base.id)
        elif isinstance(n, ast.AugAssign):
            out |= _names_in(n.target)
        elif isinstance(n, ast.Call) and isinstance(n.func, ast.Attribute) and n.func.attr.endswith("_") and not n.func.attr.endswith("__"):
            out |= _names_in(n.func.value)
    return out


def _defs_at(block, i):
    """{name: (j, value)} of the closest preceding simple assignments in `block` before statement i"""
    defs = {}
    for j in range(i):
        st = block[j]
        if isinstance(st, ast.Assign) and len(st.targets) == 1:
            t, v = st.targets[0], st.value
            if isinstance(t, ast.Name):
                defs[t.id] = (j, v)
                continue
            if isinstance(t, ast.Tuple) and isinstance(v, ast.Tuple) and len(t.elts) == len(v.elts) and all(isinstance(e, ast.Name) for e in t.elts):
                for e, vv in zip(t.elts, v.elts):
                    defs[e.id] = (j, vv)
                continue
        for name in _stores(st):                       # any other write kills the definition
            defs.pop(name, None)
    return defs


def resolve(expr, block, i):
    """substitute local names in `expr` (used by statement block[i]) by their definitions in `block`, flow-aware: a
    definition is used only if nothing it (transitively) mentions is re-assigned or mutated between it and the use"""
    defs = _defs_at(block, i)

    class S(ast.NodeTransformer):
        def visit_Name(self, node):
            if not isinstance(node.ctx, ast.Load) or node.id not in defs:
                return node
            j, val = defs[node.id]
            val2 = resolve(val, block, j)                    # the definition, resolved at its own position
            free = _names_in(val) | _names_in(val2) | {node.id}
            for k in range(j + 1, i):
                if _stores(block[k]) & free:
                    return node                              # stale: something it mentions changed in between
            return val2

    return S().visit(copy.deepcopy(expr))


# ---- taint ---------------------------------------------------------------------------------------------
VIEW_METHODS = {"view", "reshape", "permute", "squeeze", "unsqueeze", "select", "narrow", "transpose", "detach", "expand", "expand_as",
                "contiguous", "to", "float", "type_as", "flatten", "unflatten", "movedim", "swapaxes", "view_as", "real", "imag", "T"}


def tainted_names(fn: ast.FunctionDef) -> set:
    """parameters and locals that may alias (be a view of) a parameter — flow-insensitive"""
    taint = {a.arg for a in fn.args.args + fn.args.kwonlyargs}

    def is_view(e) -> bool:
        if isinstance(e, ast.Name):
            return e.id in taint
        if isinstance(e, (ast.Attribute, ast.Subscript, ast.Starred)):
            return is_view(e.value)
        if isinstance(e, ast.IfExp):
            return is_view(e.body) or is_view(e.orelse)
        if isinstance(e, ast.Call) and isinstance(e.func, ast.Attribute) and e.func.attr in VIEW_METHODS:
            return is_view(e.func.value)
        return False

    for _ in range(6):
        before = len(taint)
        for n in ast.walk(fn):
            if isinstance(n, ast.Assign):
                for t in n.targets:
                    if isinstance(t, ast.Name) and is_view(n.value):
                        taint.add(t.id)
                    elif isinstance(t, ast.Tuple) and isinstance(n.value, ast.Tuple) and len(t.elts) == len(n.value.elts):
                        for e, v in zip(t.elts, n.value.elts):
                            if isinstance(e, ast.Name) and is_view(v):
                                taint.add(e.id)
            elif isinstance(n, (ast.For, ast.comprehension)) and isinstance(n.target, ast.Name) and is_view(n.iter):
                taint.add(n.target.id)
        if len(taint) == before:
            break
    return taint


def root_name(e):
    while isinstance(e, (ast.Attribute, ast.Subscript, ast.Starred)) or (
            isinstance(e, ast.Call) and isinstance(e.func, ast.Attribute) and e.func.attr in VIEW_METHODS):
        e = e.func.value if isinstance(e, ast.Call) else e.value
    return e.id if isinstance(e, ast.Name) else None


def require(cond, msg):
    if not cond:
        raise Untranslatable(msg)
