"""C07 — budget expressions of the mask generators, translated from /repo's current source.

Rational arithmetic: the expressions are emitted over Lean's core `Rat` (exact; `/` is field division),
`round` / `np.round` / `np.around` as `MaskBudget.roundHalfEven`.  Nothing is scaled to integers.
Also emitted: the ACS pad of `center_mask_func` (integer kernel), the `np.arange` arguments of the
equispaced grid, the loop condition / acceptance test of the Gaussian `.pyx` kernels (as text), and
the break / raise skeleton of the variable-density Poisson bisection.
"""
from __future__ import annotations

import ast
import re

from ..gen import EXTRA, REPO, Kernel, Untranslatable, all_stmts, assign_value, find_assign, register, straightline
from ..pyexpr import ExprTr, emit_def, find_function, parse_file

SUB = "direct/common/subsample.py"
GAUSS_PYX = "direct/common/_gaussian.pyx"
MB = ("DirectVerif.Model.MaskBudget", "DirectVerif.Model.C07Bisect", "DirectVerif.Model.C07Circus")

MM = ("DirectVerif.Model.C07Magic",)
MAGIC = "MagicMaskFunc.mask_func"


def if_assign(binds, target):
    """value of `target` after `if c: target = a … else: target = b …`"""

    def build(k, fn):
        tr = ExprTr(binds)
        for st in all_stmts(fn):
            if isinstance(st, ast.If) and st.orelse:
                def val(body):
                    for s in body:
                        if isinstance(s, ast.Assign) and len(s.targets) == 1 and ast.unparse(s.targets[0]) == target:
                            return s.value
                    return None
                a, b = val(st.body), val(st.orelse)
                if a is not None and b is not None:
                    return emit_def(k.name, k.params, [], f"(if {tr.bool(st.test)} then {tr.int(a)} else {tr.int(b)})")
        raise Untranslatable(f"if/else assignment of `{target}` not found")

    return build


register("C07", [
    Kernel("acs_pad", SUB, "CartesianVerticalMaskFunc.center_mask_func", ["num_cols", "num_low_freqs"],
           "MaskBudget.acsPad", straightline({"num_cols": "num_cols", "num_low_freqs": "num_low_freqs"}, "pad"), imports=MB),
    # Magic: the integer part of the arithmetic (the rounded quotients are in EXTRA, over Rat)
    Kernel("magic_low", SUB, MAGIC, ["l", "target"], "MaskBudget.magicLow",
           assign_value({"num_low_freqs": "l", "target_cols_to_sample": "target"}, "num_low_freqs", nth=2), imports=MM),
    Kernel("magic_rest", SUB, MAGIC, ["target", "l"], "MaskBudget.magicRest",
           assign_value({"num_low_freqs": "l", "target_cols_to_sample": "target"}, "adjusted_target_cols_to_sample"), imports=MM),
    Kernel("magic_off_pos", SUB, MAGIC, ["offset"], "MaskBudget.magicOffPos", if_assign({"offset": "offset"}, "offset_pos"), imports=MM),
    Kernel("magic_off_neg", SUB, MAGIC, ["offset"], "MaskBudget.magicOffNeg", if_assign({"offset": "offset"}, "offset_neg"), imports=MM),
    Kernel("magic_poslen", SUB, MAGIC, ["num_cols"], "MaskBudget.magicPosLen", assign_value({"num_cols": "num_cols"}, "poslen"), imports=MM),
    Kernel("magic_neglen", SUB, MAGIC, ["num_cols"], "MaskBudget.magicNegLen", assign_value({"num_cols": "num_cols"}, "neglen"), imports=MM),
])


class RatTr:
    """expressions over Rat; `binds` maps source text of leaves to Lean parameter names"""

    ROUND = {"round", "np.round", "np.around", "numpy.round", "numpy.around"}

    def __init__(self, binds: dict[str, str], floor_int: bool = False):
        self.binds = binds
        self.floor_int = floor_int

    def rat(self, node: ast.AST) -> str:
        text = ast.unparse(node)
        if text in self.binds:
            return self.binds[text]
        if isinstance(node, ast.Constant):
            v = node.value
            if isinstance(v, bool) or not isinstance(v, (int, float)) or float(v) != int(v):
                raise Untranslatable(f"constant {v!r}")
            return f"({int(v)} : Rat)"
        if isinstance(node, ast.UnaryOp) and isinstance(node.op, ast.USub):
            return f"(-{self.rat(node.operand)})"
        if isinstance(node, ast.BinOp):
            op = {ast.Add: "+", ast.Sub: "-", ast.Mult: "*", ast.Div: "/"}.get(type(node.op))
            if op is None:
                raise Untranslatable(f"operator {type(node.op).__name__}")
            return f"({self.rat(node.left)} {op} {self.rat(node.right)})"
        if isinstance(node, ast.Call):
            return f"(({self.int(node)} : Int) : Rat)"
        raise Untranslatable(f"expression `{text}`")

    def int(self, node: ast.AST) -> str:
        """integer-valued: int(round(x)) / round(x) / int(np.round(x))"""
        if isinstance(node, ast.Call):
            f = ast.unparse(node.func)
            if f == "int" and len(node.args) == 1 and not node.keywords:
                try:
                    return self.int(node.args[0])
                except Untranslatable:
                    if not self.floor_int:
                        raise
                    # `int(x)` of a positive quotient: truncation = floor
                    return f"(Rat.floor {self.rat(node.args[0])})"
            if f in self.ROUND and len(node.args) == 1 and not node.keywords:
                return f"(MaskBudget.roundHalfEven {self.rat(node.args[0])})"
        raise Untranslatable(f"integer expression `{ast.unparse(node)}`")


def _method(tree, qual):
    return find_function(tree, qual)


def _emit(name, params, ret, body):
    ps = " ".join(f"({p} : Rat)" for p in params)
    return f"def {name} {ps} : {ret} :=\n  {body}\n"


LINE = {"num_cols": "N", "acceleration": "R", "num_low_freqs": "L"}

FALLBACK = {
    "random_prob": (["N", "R", "L"], "Rat", "MaskBudget.randomProb N R L"),
    "equispaced_adjusted_accel": (["N", "R", "L"], "Rat", "MaskBudget.adjAccel N R L"),
    "equispaced_offset_bound": (["a"], "Int", "MaskBudget.offsetBound a"),
    "equispaced_arange_start": (["off", "N", "a"], "Rat", "off"),
    "equispaced_arange_stop": (["off", "N", "a"], "Rat", "N - 1"),
    "equispaced_arange_step": (["off", "N", "a"], "Rat", "a"),
    "gaussian1d_request": (["N", "R", "L"], "Int", "MaskBudget.gaussianRequest (N / R) (L.floor)"),
    "gaussian2d_request": (["rows", "cols", "R", "L"], "Int", "MaskBudget.gaussianRequest (rows * cols / R) (L.floor)"),
    "circus_M_radial": (["prod", "a", "maxd", "mind"], "Int", "MaskBudget.circusM prod a maxd mind"),
    "circus_M_spiral": (["prod", "a", "maxd", "mind"], "Int", "MaskBudget.circusM prod a maxd mind"),
    "circus_adjusted_accel": (["rows", "cols", "R", "L"], "Rat", "MaskBudget.adjAccel (rows * cols) R L"),
    "magic_target": (["N", "R"], "Int", "MaskBudget.roundHalfEven (N / R)"),
    "magic_adjusted": (["N", "rest"], "Int", "if rest > 0 then MaskBudget.roundHalfEven (N / rest) else 0"),
}


def _build(tree) -> dict[str, tuple[list[str], str, str]]:
    out = {}

    def attempt(name, fn):
        try:
            out[name] = fn()
        except Untranslatable as e:
            out[name] = e

    rnd = lambda: _method(tree, "RandomMaskFunc.mask_func")  # noqa: E731
    equ = lambda: _method(tree, "EquispacedMaskFunc.mask_func")  # noqa: E731
    attempt("random_prob", lambda: (["N", "R", "L"], "Rat", RatTr(LINE).rat(find_assign(rnd(), "prob").value)))
    attempt("equispaced_adjusted_accel",
            lambda: (["N", "R", "L"], "Rat", RatTr(LINE).rat(find_assign(equ(), "adjusted_accel").value)))

    def offset_bound():
        st = find_assign(equ(), "offset")
        c = st.value
        if not (isinstance(c, ast.Call) and ast.unparse(c.func) == "self.rng.randint" and len(c.args) == 2
                and ast.unparse(c.args[0]) == "0" and not c.keywords):
            raise Untranslatable(f"offset draw `{ast.unparse(c)}`")
        return ["a"], "Int", RatTr({"adjusted_accel": "a"}).int(c.args[1])

    attempt("equispaced_offset_bound", offset_bound)

    def arange(i):
        def f():
            st = find_assign(equ(), "accel_samples", 0)
            c = st.value
            if not (isinstance(c, ast.Call) and ast.unparse(c.func) in ("np.arange", "numpy.arange") and len(c.args) == 3
                    and not c.keywords):
                raise Untranslatable(f"grid `{ast.unparse(c)}`")
            # the second assignment must be np.around(...).astype(np.uint) and the mask assignment must use it
            st2 = find_assign(equ(), "accel_samples", 1)
            t2 = ast.unparse(st2.value).replace(" ", "")
            if t2 not in ("np.around(accel_samples).astype(np.uint)", "np.round(accel_samples).astype(np.uint)"):
                raise Untranslatable(f"rounding `{t2}`")
            return ["off", "N", "a"], "Rat", RatTr({"offset": "off", "num_cols": "N", "adjusted_accel": "a"}).rat(c.args[i])
        return f

    for i, nm in enumerate(("start", "stop", "step")):
        attempt(f"equispaced_arange_{nm}", arange(i))

    def g1():
        fn = _method(tree, "Gaussian1DMaskFunc.mask_func")
        return ["N", "R", "L"], "Int", RatTr(LINE).int(find_assign(fn, "nonzero_count").value)

    attempt("gaussian1d_request", g1)

    def g2():
        fn = _method(tree, "Gaussian2DMaskFunc.mask_func")
        b = {"num_cols": "cols", "num_rows": "rows", "acceleration": "R"}
        # the centre-region count of the frame the kernel fills, however the frame is spelled: `<local>.sum()` / `<local>[i].sum()`
        for n in ast.walk(fn):
            if (isinstance(n, ast.Call) and isinstance(n.func, ast.Attribute) and n.func.attr == "sum" and not n.args
                    and not n.keywords and _view_base(n.func.value) is not None):
                b[ast.unparse(n)] = "L"
        # every request reaching the kernel: the local `nonzero_count` (every assignment to it) or an inline expression
        calls = [n for n in ast.walk(fn) if isinstance(n, ast.Call) and ast.unparse(n.func) == "gaussian_mask_2d"]
        if not calls:
            raise Untranslatable("no kernel call")
        firsts = set()
        for st in all_stmts(fn):
            if isinstance(st, ast.Assign) and ast.unparse(st.targets[0]) == "nonzero_count":
                firsts.add(RatTr(b).int(st.value))
        for c in calls:
            if not c.args:
                raise Untranslatable("kernel call without positional request")
            if not (isinstance(c.args[0], ast.Name) and c.args[0].id == "nonzero_count"):
                firsts.add(RatTr(b).int(c.args[0]))
        if len(firsts) != 1:
            raise Untranslatable("requests of the kernel calls differ")
        return ["rows", "cols", "R", "L"], "Int", firsts.pop()

    attempt("gaussian2d_request", g2)

    cb = {"np.prod(shape)": "prod", "acceleration": "a", "max_dim": "maxd", "min_dim": "mind"}
    for nm, meth in (("circus_M_radial", "CIRCUSMaskFunc.circus_radial_mask"), ("circus_M_spiral", "CIRCUSMaskFunc.circus_spiral_mask")):
        attempt(nm, lambda meth=meth: (["prod", "a", "maxd", "mind"], "Int",
                                       RatTr(cb, floor_int=True).int(find_assign(_method(tree, meth), "M").value)))
    attempt("circus_adjusted_accel",
            lambda: (["rows", "cols", "R", "L"], "Rat",
                     RatTr({"num_rows": "rows", "num_cols": "cols", "acceleration": "R", "num_low_freqs": "L"}).rat(
                         find_assign(_method(tree, "CIRCUSMaskFunc.mask_func"), "adjusted_accel").value)))

    mag = lambda: _method(tree, MAGIC)  # noqa: E731
    attempt("magic_target", lambda: (["N", "R"], "Int",
                                     RatTr({"num_cols": "N", "acceleration": "R"}).int(find_assign(mag(), "target_cols_to_sample").value)))

    def magic_adjusted():
        fn = mag()
        d0 = find_assign(fn, "adjusted_acceleration", 0)
        if not (isinstance(d0.value, ast.Constant) and d0.value.value == 0 and not isinstance(d0.value.value, bool)):
            raise Untranslatable(f"default `{ast.unparse(d0)}`")
        for st in all_stmts(fn):
            if (isinstance(st, ast.If) and not st.orelse and len(st.body) == 1 and isinstance(st.body[0], ast.Assign)
                    and ast.unparse(st.body[0].targets[0]) == "adjusted_acceleration"):
                t = st.test
                if not (isinstance(t, ast.Compare) and len(t.ops) == 1 and isinstance(t.ops[0], ast.Gt)
                        and ast.unparse(t.left) == "adjusted_target_cols_to_sample" and ast.unparse(t.comparators[0]) == "0"):
                    raise Untranslatable(f"guard `{ast.unparse(t)}`")
                body = RatTr({"num_cols": "N", "adjusted_target_cols_to_sample": "rest"}).int(st.body[0].value)
                return ["N", "rest"], "Int", f"if rest > (0 : Rat) then {body} else (0 : Int)"
        raise Untranslatable("guarded assignment of `adjusted_acceleration` not found")

    attempt("magic_adjusted", magic_adjusted)
    return out


MAGIC_PLAN_EXPECTED = [
    "offset=self.rng.randint(0,high=adjusted_acceleration)",
    "mask_positive[offset_pos::adjusted_acceleration]=True",
    "mask_negative[offset_neg::adjusted_acceleration]=True",
    "mask_negative=np.flip(mask_negative)",
    "mask.append(np.fft.fftshift(np.concatenate((mask_positive,mask_negative))))",
    "mask[i]=np.logical_or(mask[i],acs_mask[i])",
]


def magic_plan(tree) -> tuple[list[str], str]:
    """the statements of the frame loop of `MagicMaskFunc.mask_func` that draw, stride, flip, shift and unite
    (everything except the integer locals translated as kernels and the `np.zeros` initialisations)"""
    try:
        fn = _method(tree, MAGIC)
    except Untranslatable as e:
        return MAGIC_PLAN_EXPECTED, f"skipped: {e}"
    loops = [st for st in all_stmts(fn) if isinstance(st, ast.For)]
    if len(loops) != 1:
        return MAGIC_PLAN_EXPECTED, "skipped: frame loop not found"
    norm = lambda n: ast.unparse(n).replace(" ", "")  # noqa: E731
    ints = {"offset_pos", "offset_neg", "poslen", "neglen"}
    toks = []

    def walk(stmts):
        for st in stmts:
            if isinstance(st, ast.If):
                walk(st.body)
                walk(st.orelse)
                continue
            if isinstance(st, ast.Assign) and len(st.targets) == 1:
                tgt = norm(st.targets[0])
                if tgt in ints:
                    continue
                if isinstance(st.value, ast.Call) and norm(st.value.func) in ("np.zeros", "numpy.zeros"):
                    continue
            toks.append(norm(st))

    walk(loops[0].body)
    return toks, "translated"


def _pyx_loop() -> tuple[list[str], str]:
    try:
        src = (REPO / GAUSS_PYX).read_text()
    except OSError as e:
        return [], f"skipped: {e}"
    rows = []
    for name in ("gaussian_mask_1d", "gaussian_mask_2d"):
        m = re.search(r"^def\s+" + name + r"\s*\(.*?\)\s*:\s*$(.*?)(?=^def\s|^cdef\s|\Z)", src, re.S | re.M)
        if not m:
            return [], f"skipped: {name} not found"
        body = [ln.split("#", 1)[0].rstrip() for ln in m.group(1).split("\n")]
        body = [ln for ln in body if ln.strip()]
        init = next((ln.strip() for ln in body if re.match(r"\s*count\s*=", ln)), "?")
        cond = next((ln.strip() for ln in body if ln.strip().startswith("while ")), "?")
        acc = next((ln.strip() for ln in body if ln.strip().startswith("if ")), "?")
        after = [ln.strip() for ln in body[body.index(next(l for l in body if l.strip() == acc)) + 1:]] if acc != "?" else []
        rows.append((name, init, cond, acc, " ; ".join(after)))
    return rows, "translated"


POISSON_KEEP = {"mask", "slope", "slope_min", "slope_max", "actual_acceleration", "acceleration", "r", "num_rows", "num_cols",
                "seed", "radius_x", "radius_y", "center_fraction", "self", "np"}


class _Subst(ast.NodeTransformer):
    def __init__(self, env):
        self.env = env

    def visit_Name(self, node):
        if isinstance(node.ctx, ast.Load) and node.id in self.env:
            return ast.copy_location(self.env[node.id], node)
        return node


def _stores(node) -> set:
    return {n.id for n in ast.walk(node) if isinstance(n, ast.Name) and isinstance(n.ctx, (ast.Store, ast.Del))}


def poisson_env(fn) -> dict:
    """single-assignment locals of `poisson` that merely name a sub-expression (hoisted loop invariants, named tests):
    name -> defining expression with earlier such locals already substituted.  A local defined before the loop is only
    resolved when nothing it reads is assigned inside the loop; a local defined inside the loop only when nothing it reads
    is assigned later in the same iteration before... (checked at the use: see `_resolved`)."""
    loops = [st for st in fn.body if isinstance(st, ast.While)]
    loop_stores = _stores(loops[0]) if len(loops) == 1 else set()
    counts: dict = {}
    for st in all_stmts(fn):
        for n in _stores(st) if not isinstance(st, (ast.While, ast.For, ast.If, ast.With, ast.Try)) else set():
            counts[n] = counts.get(n, 0) + 1
    env: dict = {}
    in_loop = {id(s_) for s_ in ast.walk(loops[0])} if len(loops) == 1 else set()
    for st in all_stmts(fn):
        if not (isinstance(st, ast.Assign) and len(st.targets) == 1 and isinstance(st.targets[0], ast.Name)):
            continue
        name = st.targets[0].id
        if name in POISSON_KEEP or counts.get(name, 0) != 1:
            continue
        val = _Subst(env).visit(ast.parse(ast.unparse(st.value), mode="eval").body)
        free = {n.id for n in ast.walk(val) if isinstance(n, ast.Name)}
        if name in free:
            continue
        if id(st) not in in_loop and free & loop_stores:
            continue          # not loop invariant: hoisting it would change behaviour — leave the name, the tables then differ
        if id(st) in in_loop:
            # named inside the iteration: what it reads must not be assigned again later in the loop body
            later = set()
            for s2 in loops[0].body:
                if s2.lineno > st.lineno:
                    later |= _stores(s2)
            if free & (later - {"slope_min", "slope_max"}):
                continue
        env[name] = val
    return env


def _resolved(node, env) -> str:
    return ast.unparse(_Subst(env).visit(ast.parse(ast.unparse(node), mode="eval").body)).replace(" ", "")


def _or_parts(test):
    return list(test.values) if isinstance(test, ast.BoolOp) and isinstance(test.op, ast.Or) else [test]


def _poisson_skeleton(tree) -> tuple[list[str], str]:
    try:
        fn = _method(tree, "VariableDensityPoissonMaskFunc.poisson")
    except Untranslatable as e:
        return [], f"skipped: {e}"
    env = poisson_env(fn)
    toks = []
    norm = lambda n: _resolved(n, env)  # noqa: E731
    for st in fn.body:
        if isinstance(st, ast.While):
            toks.append("while:" + norm(st.test))
            for s in st.body:
                if isinstance(s, ast.If) and len(s.body) == 1 and isinstance(s.body[0], ast.Break) and not s.orelse:
                    # `if a: break` + `if b: break`  ==  `if a or b: break` (tests evaluated in the same order)
                    resolved = _Subst(env).visit(ast.parse(ast.unparse(s.test), mode="eval").body)
                    for part in _or_parts(resolved):
                        toks.append("break_if:" + ast.unparse(part).replace(" ", ""))
                elif isinstance(s, ast.If):
                    toks.append("if:" + norm(s.test))
                elif isinstance(s, ast.Assign) and ast.unparse(s.targets[0]) == "actual_acceleration":
                    toks.append("actual:" + norm(s.value))
        elif isinstance(st, ast.If) and st.body and isinstance(st.body[0], ast.Raise):
            toks.append("raise_if:" + norm(st.test))
        elif isinstance(st, ast.Return):
            toks.append("return:" + norm(st.value))
    return toks, "translated"


UPDATE_EXPECTED = [("actual_acceleration<acceleration", "slope_min=slope"), ("else", "slope_max=slope")]
INIT_EXPECTED = [("self.slopesisnotNone", "slope_min,slope_max=self.slopes"),
                 ("else", "slope_min,slope_max=(0,max(num_rows,num_cols))")]
OPTIONS_EXPECTED = [
    ("crop_corner", "if:self.crop_corner|mask*=r<1|before:actual_acceleration"),
    ("max_attempts", "_poisson(num_rows,num_cols,self.max_attempts,mask,radius_x,radius_y,seed)"),
    ("tol", "abs(actual_acceleration-acceleration)<self.tol"), ("tol", "abs(actual_acceleration-acceleration)>=self.tol"),
]


def _target_text(t) -> str:
    return ",".join(ast.unparse(e).replace(" ", "") for e in t.elts) if isinstance(t, ast.Tuple) else ast.unparse(t).replace(" ", "")


def _tuple_text(t: str) -> str:
    """`a,b` and `(a,b)` on the right-hand side of a tuple assignment are the same thing"""
    try:
        node = ast.parse(t, mode="eval").body
    except SyntaxError:
        return t
    return "(" + ",".join(ast.unparse(e).replace(" ", "") for e in node.elts) + ")" if isinstance(node, ast.Tuple) else t


def poisson_interval(tree):
    """(midpoint expression over Rat, update table, initial-interval table, option-use table) of `poisson`"""
    fn = _method(tree, "VariableDensityPoissonMaskFunc.poisson")
    env = poisson_env(fn)

    def norm(n):
        if isinstance(n, ast.stmt):
            # statements: resolve the expression parts, keep the targets
            if isinstance(n, ast.Assign):
                return ",".join(_target_text(t) for t in n.targets) + "=" + _tuple_text(_resolved(n.value, env))
            if isinstance(n, ast.AugAssign):
                return ast.unparse(n.target).replace(" ", "") + {ast.Mult: "*=", ast.Add: "+=", ast.BitAnd: "&=", ast.BitOr: "|="}.get(
                    type(n.op), "?=") + _resolved(n.value, env)
            return ast.unparse(n).replace(" ", "")
        return _resolved(n, env)

    loops = [st for st in fn.body if isinstance(st, ast.While)]
    if len(loops) != 1:
        raise Untranslatable("bisection loop not found")
    loop = loops[0]
    # midpoint
    mids = [st for st in loop.body if isinstance(st, ast.Assign) and norm(st.targets[0]) == "slope"]
    if len(mids) != 1 or loop.body[0] is not mids[0]:
        raise Untranslatable("`slope = …` is not the first statement of the loop")
    mid = RatTr({"slope_min": "lo", "slope_max": "hi"}).rat(mids[0].value)
    # update
    upd = None
    for st in loop.body:
        if isinstance(st, ast.If) and st.orelse and len(st.body) == 1 and len(st.orelse) == 1 \
                and isinstance(st.body[0], ast.Assign) and isinstance(st.orelse[0], ast.Assign):
            upd = [(norm(st.test), norm(st.body[0])), ("else", norm(st.orelse[0]))]
    if upd is None or loop.body[-1].__class__ is not ast.If or norm(loop.body[-1].test) != upd[0][0]:
        raise Untranslatable("interval update is not the last statement of the loop")
    # nothing else assigns the interval inside the loop
    for st in loop.body[:-1]:
        for n in ast.walk(st):
            if isinstance(n, ast.Name) and isinstance(n.ctx, ast.Store) and n.id in ("slope_min", "slope_max"):
                raise Untranslatable("interval assigned outside the update")
    # initial interval
    init = None
    for st in fn.body:
        if isinstance(st, ast.If) and st.orelse and any(
                isinstance(n, ast.Name) and isinstance(n.ctx, ast.Store) and n.id == "slope_min" for n in ast.walk(st)):
            if len(st.body) == 1 and len(st.orelse) == 1:
                init = [(norm(st.test), norm(st.body[0])), ("else", norm(st.orelse[0]))]
        elif (isinstance(st, ast.Assign) and isinstance(st.value, ast.IfExp) and "slope_min" in _stores(st)):
            # `lo, hi = A if c else B`  ==  `if c: lo, hi = A  else: lo, hi = B` (one decision tree)
            tg = ",".join(_target_text(t) for t in st.targets)
            init = [(norm(st.value.test), tg + "=" + _tuple_text(norm(st.value.body))),
                    ("else", tg + "=" + _tuple_text(norm(st.value.orelse)))]
    if init is None:
        raise Untranslatable("initial interval not found")
    # options
    opts = []
    for n in ast.walk(fn):
        if isinstance(n, ast.Compare) and "self.tol" in norm(n):
            opts.append(("tol", norm(n)))
    for n in ast.walk(fn):
        if isinstance(n, ast.Call) and norm(n.func) == "_poisson":
            opts.append(("max_attempts", norm(n)))
    idx_actual = [i for i, st in enumerate(loop.body) if isinstance(st, ast.Assign) and norm(st.targets[0]) == "actual_acceleration"]
    for i, st in enumerate(loop.body):
        if isinstance(st, ast.If) and "self.crop_corner" in norm(st.test):
            where = "before" if idx_actual and i < idx_actual[0] else "after"
            opts.append(("crop_corner", "if:" + norm(st.test) + "|" + ";".join(norm(b) for b in st.body) + f"|{where}:actual_acceleration"))
    return mid, upd, init, sorted(opts)


KERNEL_ARG = {"gaussian_mask_1d": 4, "gaussian_mask_2d": 6, "_poisson": 3}    # position of the array the kernel writes
ALLOC = {"np.zeros", "np.ones", "np.empty", "np.zeros_like", "np.ones_like", "np.empty_like", "numpy.zeros"}
COPY_METHODS = {"astype", "copy", "repeat"}
VIEW_METHODS = {"reshape", "squeeze", "view", "ravel"}
KERNEL_ARRAYS_EXPECTED = [
    ("VariableDensityPoissonMaskFunc.poisson:_poisson", "mask", ["alloc"]),
    ("Gaussian1DMaskFunc.mask_func:gaussian_mask_1d", "mask[i]", ["copy", "copy"]),
    ("Gaussian1DMaskFunc.mask_func:gaussian_mask_1d", "mask", ["copy", "copy", "view"]),
    ("Gaussian2DMaskFunc.mask_func:gaussian_mask_2d", "mask[i]", ["fresh-call", "copy"]),
    ("Gaussian2DMaskFunc.mask_func:gaussian_mask_2d", "mask", ["fresh-call", "copy", "view"]),
]


def _decorators(tree):
    rows = []

    def walk(node, prefix):
        for ch in ast.iter_child_nodes(node):
            if isinstance(ch, (ast.FunctionDef, ast.AsyncFunctionDef)):
                for d in ch.decorator_list:
                    t = ast.unparse(d).replace(" ", "")
                    if "cache" in t.lower() or "memo" in t.lower():
                        rows.append((prefix + ch.name, t))
                walk(ch, prefix + ch.name + ".")
            elif isinstance(ch, ast.ClassDef):
                walk(ch, prefix + ch.name + ".")

    walk(tree, "")
    return rows


def _mutable_defaults(tree):
    rows = []

    def walk(node, prefix):
        for ch in ast.iter_child_nodes(node):
            if isinstance(ch, (ast.FunctionDef, ast.AsyncFunctionDef)):
                a = ch.args
                names = [x.arg for x in a.posonlyargs + a.args]
                for nm, d in list(zip(names[len(names) - len(a.defaults):], a.defaults)) + [
                        (k.arg, d) for k, d in zip(a.kwonlyargs, a.kw_defaults) if d is not None]:
                    if isinstance(d, (ast.List, ast.Dict, ast.Set, ast.ListComp, ast.DictComp, ast.SetComp, ast.Call)):
                        rows.append((prefix + ch.name, nm, ast.unparse(d).replace(" ", "")[:60]))
                walk(ch, prefix + ch.name + ".")
            elif isinstance(ch, ast.ClassDef):
                walk(ch, prefix + ch.name + ".")

    walk(tree, "")
    return rows


def _module_state(tree):
    """module-level (and class-level) names bound to mutable containers or to objects created at import"""
    rows = []

    def scan(body, prefix):
        for st in body:
            tgts = []
            if isinstance(st, ast.Assign):
                tgts, val = st.targets, st.value
            elif isinstance(st, ast.AnnAssign) and st.value is not None:
                tgts, val = [st.target], st.value
            for t in tgts:
                nm = ast.unparse(t)
                if nm.startswith("__") and nm.endswith("__"):
                    continue
                txt = ast.unparse(val).replace(" ", "")
                if isinstance(val, (ast.List, ast.Dict, ast.Set, ast.ListComp, ast.DictComp, ast.SetComp)):
                    rows.append((prefix + nm, txt[:60]))
                elif isinstance(val, ast.Call) and ast.unparse(val.func) not in ("logging.getLogger",):
                    # calls that build immutable values are fine; anything array- or container-like is state
                    if any(k in txt for k in ("np.zeros", "np.ones", "np.array", "dict(", "list(", "set(", "defaultdict", "OrderedDict", "{}", "[]")):
                        rows.append((prefix + nm, txt[:60]))
            if isinstance(st, ast.ClassDef) and st.name != "CalgaryCampinasMaskFunc":   # outside the property's generator list
                scan(st.body, prefix + st.name + ".")

    scan(tree.body, "")
    return rows


def _fresh_module_function(tree, name, depth=0) -> bool:
    """a module-level function that is not memoised and whose every `return` hands out a new array"""
    if depth > 3:
        return False
    for ch in tree.body:
        if isinstance(ch, ast.FunctionDef) and ch.name == name:
            if ch.decorator_list:
                return False
            rets = [n for n in ast.walk(ch) if isinstance(n, ast.Return)]
            return bool(rets) and all(r.value is not None and _value_kind(tree, r.value, None, depth + 1) in ("alloc", "copy", "fresh-call")
                                      for r in rets)
    return False


def _value_kind(tree, val, root, depth=0) -> str:
    if isinstance(val, ast.Call):
        f = ast.unparse(val.func).replace(" ", "")
        if f in ALLOC:
            return "alloc"
        if isinstance(val.func, ast.Attribute):
            if val.func.attr in COPY_METHODS:
                return "copy"
            if val.func.attr in VIEW_METHODS:
                base = val.func.value
                while isinstance(base, (ast.Subscript, ast.Attribute, ast.Call)):
                    base = base.value if not isinstance(base, ast.Call) else base.func
                return "view" if isinstance(base, ast.Name) and base.id == root else "other:" + f
        if isinstance(val.func, ast.Name):
            return "fresh-call" if _fresh_module_function(tree, val.func.id, depth) else "cached-or-unknown-call:" + f
        return "other:" + f
    if isinstance(val, ast.BinOp):
        return "copy"          # elementwise arithmetic on arrays allocates its result
    return "other:" + ast.unparse(val).replace(" ", "")[:40]


def _view_base(expr):
    """name of the local an expression is a view of (`x`, `x[i]`, `x[np.newaxis]`, `x.reshape(..)`, `a if c else b` with
    both branches views of the same local), else None"""
    if isinstance(expr, ast.Name):
        return expr.id
    if isinstance(expr, ast.Subscript):
        return _view_base(expr.value)
    if isinstance(expr, ast.IfExp):
        a, b = _view_base(expr.body), _view_base(expr.orelse)
        return a if a is not None and a == b else None
    if isinstance(expr, ast.Call) and isinstance(expr.func, ast.Attribute) and expr.func.attr in VIEW_METHODS:
        return _view_base(expr.func.value)
    return None


def _resolve_local(ch, name, before_line):
    """follow loop variables (`for frame in frames`) and single-assignment view aliases (`frames = mask if c else mask[None]`)
    back to the local that owns the memory; returns (root name, hops) or (None, reason)"""
    hops = 0
    for _ in range(6):
        loops = [st for st in all_stmts(ch) if isinstance(st, ast.For) and isinstance(st.target, ast.Name)
                 and st.target.id == name and st.lineno < before_line]
        assigns = [st for st in all_stmts(ch) if st.lineno < before_line and isinstance(st, ast.Assign)
                   and any(isinstance(t, ast.Name) and t.id == name for t in st.targets)]
        if loops and not assigns:
            base = _view_base(loops[-1].iter)
            if base is None:
                return None, "loop-over:" + ast.unparse(loops[-1].iter).replace(" ", "")[:30]
            name, hops = base, hops + 1
            continue
        if len(assigns) == 1 and not loops:
            base = _view_base(assigns[0].value)
            if base is not None and base != name:
                name, hops = base, hops + 1
                continue
        return name, hops
    return None, "alias-chain"


def kernel_arrays(tree):
    """for every call of an in-place Cython kernel: where the memory it writes was bound — the array argument is followed
    through loop variables and view aliases to the local that owns it, then every assignment to that local that lexically
    precedes the call in the same function is classified"""
    rows = []

    def visit(node, prefix):
        for ch in ast.iter_child_nodes(node):
            if isinstance(ch, ast.ClassDef):
                visit(ch, prefix + ch.name + ".")
            elif isinstance(ch, ast.FunctionDef):
                seen: dict = {}
                calls = sorted((n for n in ast.walk(ch) if isinstance(n, ast.Call) and ast.unparse(n.func) in KERNEL_ARG),
                               key=lambda n: (n.lineno, n.col_offset))
                for c in calls:
                    k = ast.unparse(c.func)
                    idx = seen.get(k, 0)
                    seen[k] = idx + 1
                    pos = KERNEL_ARG[k]
                    site = f"{prefix}{ch.name}:{k}"
                    if len(c.args) <= pos:
                        rows.append((site, "?", ["other:argument-form"]))
                        continue
                    arr = c.args[pos]
                    first = _view_base(arr)
                    if first is None:
                        rows.append((site, ast.unparse(arr), ["other:not-a-local"]))
                        continue
                    root, hops = _resolve_local(ch, first, c.lineno)
                    if root is None:
                        rows.append((site, ast.unparse(arr).replace(" ", ""), ["other:" + str(hops)]))
                        continue
                    kinds = []
                    for st in all_stmts(ch):
                        if st.lineno >= c.lineno:
                            continue
                        if isinstance(st, ast.Assign) and any(isinstance(t, ast.Name) and t.id == root for t in st.targets):
                            kinds.append(_value_kind(tree, st.value, root))
                        elif isinstance(st, ast.AugAssign) and isinstance(st.target, ast.Name) and st.target.id == root:
                            kinds.append("view")
                    if root in [a.arg for a in ch.args.args] and not kinds:
                        kinds = ["other:parameter"]
                    rows.append((site, ast.unparse(arr).replace(" ", ""), (kinds or ["other:unbound"]) + ["view"] * hops))
                visit(ch, prefix + ch.name + ".")

    visit(tree, "")
    return rows


CHOOSE_EXPECTED = [
    "if:notself.accelerations",
    "if:notself.uniform_range",
    "choice=self.rng.randint(0,len(self.accelerations))",
    "acceleration=self.accelerations[choice]",
    "if:self.center_fractionsisNone",
    "center_fraction=self.center_fractions[choice]",
    "return:(center_fraction,acceleration)",
    "raise:NotImplementedError",
]


def choose_skeleton(tree) -> tuple[list[str], str]:
    try:
        fn = _method(tree, "BaseMaskFunc.choose_acceleration")
    except Untranslatable as e:
        return CHOOSE_EXPECTED, f"skipped: {e}"
    norm = lambda n: ast.unparse(n).replace(" ", "")  # noqa: E731
    toks = []

    def walk(stmts):
        for st in stmts:
            if isinstance(st, ast.Expr) and isinstance(st.value, ast.Constant):
                continue
            if isinstance(st, ast.If):
                toks.append("if:" + norm(st.test))
                if not (len(st.body) == 1 and isinstance(st.body[0], ast.Return) and norm(st.body[0].value) in ("None", "acceleration")):
                    walk(st.body)
                walk(st.orelse)
            elif isinstance(st, ast.Assign):
                toks.append(norm(st.targets[0]) + "=" + norm(st.value))
            elif isinstance(st, ast.Return):
                toks.append("return:" + (norm(st.value) if st.value is not None else "None"))
            elif isinstance(st, ast.Raise):
                toks.append("raise:" + (norm(st.exc.func) if isinstance(st.exc, ast.Call) else norm(st.exc)))
            else:
                toks.append("?" + type(st).__name__)

    walk(fn.body)
    return toks, "translated"


_INPLACE = {"fill", "put", "itemset", "resize", "sort", "partition", "setfield", "__imul__", "__iand__", "__ior__", "__isub__"}


def _modifies_mask(st: ast.AST) -> bool:
    for n in ast.walk(st):
        if isinstance(n, ast.Name) and n.id == "mask" and isinstance(n.ctx, (ast.Store, ast.Del)):
            return True
        if isinstance(n, (ast.Subscript, ast.Attribute)) and isinstance(n.ctx, ast.Store):
            b = n
            while isinstance(b, (ast.Subscript, ast.Attribute)):
                b = b.value
            if isinstance(b, ast.Name) and b.id == "mask":
                return True
        if isinstance(n, ast.Call):
            if any(kw.arg == "out" and "mask" in ast.unparse(kw.value) for kw in n.keywords):
                return True
            if (isinstance(n.func, ast.Attribute) and isinstance(n.func.value, ast.Name) and n.func.value.id == "mask"
                    and n.func.attr in _INPLACE):
                return True
    return False


def poisson_post(tree=None) -> tuple[list[tuple[str, bool]], str]:
    """statements executed after the last evaluation of `actual_acceleration` (the input of the tolerance test) and
    up to `return …`: (text, modifies `mask`).  The return statement itself counts as modifying unless it returns `mask`."""
    try:
        if tree is None:
            tree = parse_file(REPO / SUB)
        fn = _method(tree, "VariableDensityPoissonMaskFunc.poisson")
    except Untranslatable as e:
        return POST_EXPECTED, f"skipped: {e}"
    loops = [st for st in fn.body if isinstance(st, ast.While)]
    if len(loops) != 1:
        return POST_EXPECTED, "skipped: bisection loop not found"
    loop = loops[0]
    idx = [i for i, s in enumerate(loop.body) if isinstance(s, ast.Assign) and ast.unparse(s.targets[0]) == "actual_acceleration"]
    if len(idx) != 1 or any(isinstance(n, ast.Assign) and ast.unparse(n.targets[0]) == "actual_acceleration"
                            for st in fn.body if st is not loop for n in ast.walk(st)):
        return POST_EXPECTED, "skipped: `actual_acceleration` is not assigned exactly once, inside the loop"
    rows = []
    short = lambda st: " ".join(ast.unparse(st).split())[:70].replace('"', "'")  # noqa: E731
    for st in loop.body[idx[0] + 1:]:
        rows.append(("loop: " + short(st), _modifies_mask(st)))
    after = fn.body[fn.body.index(loop) + 1:]
    for st in after:
        if isinstance(st, ast.Return):
            rows.append(("return " + short(st.value) if st.value is not None else "return", ast.unparse(st.value) != "mask" if st.value is not None else True))
            break
        rows.append((short(st), _modifies_mask(st)))
    else:
        rows.append(("no return", True))
    return rows, "translated"


POST_EXPECTED = [("raise_if", False), ("return mask", False)]
POISSON_EXPECTED = [
    "while:slope_min<slope_max",
    "if:self.crop_corner",
    "actual:num_rows*num_cols/mask.sum()",
    "break_if:abs(actual_acceleration-acceleration)<self.tol",
    "break_if:slopein(slope_min,slope_max)",
    "if:actual_acceleration<acceleration",
    "raise_if:abs(actual_acceleration-acceleration)>=self.tol",
    "return:mask",
]
PYX_EXPECTED = [
    ("gaussian_mask_1d", "count = 0", "while count <= nonzero_count:", "if 0 <= ind < n and mask[ind] != 1:",
     "mask[ind] = 1 ; count = count + 1"),
    ("gaussian_mask_2d", "count = 0", "while count <= nonzero_count:",
     "if 0 <= indx < nrow and 0 <= indy < ncol and mask[indx, indy] != 1:", "mask[indx, indy] = 1 ; count = count + 1"),
]


def _lean_str(s: str) -> str:
    return '"' + s.replace("\\", "\\\\").replace('"', '\\"') + '"'


def _extra():
    status = {}
    chunks = []
    try:
        tree = parse_file(REPO / SUB)
        built = _build(tree)
    except Untranslatable as e:
        built = {k: e for k in FALLBACK}
        tree = None
    import os

    if os.environ.get("VERIF_FORCE_SKIP") == "1":      # self-test: every expression kernel as its hand-written fallback
        built = {k: Untranslatable("forced by VERIF_FORCE_SKIP") for k in FALLBACK}
    for name, (params, ret, fb) in FALLBACK.items():
        r = built.get(name)
        if isinstance(r, tuple):
            status[name] = "translated"
            chunks.append(f"/-- translated from `{SUB}` -/\n" + _emit(name, r[0], r[1], r[2]))
        else:
            status[name] = f"skipped: {r}"
            chunks.append(f"/-- SKIPPED ({r}); stands for the hand-written model, bridge is vacuous -/\n" + _emit(name, params, ret, fb))
    rows, st = _pyx_loop()
    status["gaussian_pyx_loop"] = st
    if st != "translated":
        rows = PYX_EXPECTED
    chunks.append("/-- `.pyx` rejection loops: (kernel, initialisation, loop condition, acceptance test, accepted branch) -/\n"
                  "def gaussianLoops : List (String × String × String × String × String) := [\n"
                  + ",\n".join("  (" + ", ".join(_lean_str(x) for x in r) + ")" for r in rows) + "]\n")
    toks, st = _poisson_skeleton(tree) if tree is not None else ([], "skipped: unparsable")
    status["poisson_bisection_skeleton"] = st
    if st != "translated":
        toks = POISSON_EXPECTED
    chunks.append("/-- break / raise skeleton of `VariableDensityPoissonMaskFunc.poisson` -/\n"
                  "def poissonSkeleton : List String := [\n" + ",\n".join("  " + _lean_str(t) for t in toks) + "]\n")
    ctoks, st = choose_skeleton(tree) if tree is not None else (CHOOSE_EXPECTED, "skipped: unparsable")
    status["choose_acceleration_skeleton"] = st
    chunks.append("/-- skeleton of `BaseMaskFunc.choose_acceleration` -/\n"
                  "def chooseSkeleton : List String := [\n" + ",\n".join("  " + _lean_str(t) for t in ctoks) + "]\n")
    try:
        if tree is None:
            raise Untranslatable("unparsable")
        pmid, pupd, pinit, popts = poisson_interval(tree)
        status["poisson_interval"] = "translated"
    except Untranslatable as e:
        pmid, pupd, pinit, popts = "MaskBudget.exactMid lo hi", UPDATE_EXPECTED, INIT_EXPECTED, OPTIONS_EXPECTED
        status["poisson_interval"] = f"skipped: {e}"
    pairs = lambda rows: "[\n" + ",\n".join(f"  ({_lean_str(a)}, {_lean_str(b)})" for a, b in rows) + "]\n"  # noqa: E731
    chunks.append("/-- `slope = …` of the bisection loop of `poisson`, over Rat -/\n" + _emit("poisson_mid", ["lo", "hi"], "Rat", pmid))
    chunks.append("/-- which end of the interval each branch of the last `if` of the loop moves -/\n"
                  "def poissonUpdate : List (String × String) := " + pairs(pupd))
    chunks.append("/-- initial interval of the bisection -/\ndef poissonInit : List (String × String) := " + pairs(pinit))
    chunks.append("/-- where the constructor options `tol`, `max_attempts`, `crop_corner` are used in `poisson` -/\n"
                  "def poissonOptions : List (String × String) := " + pairs(popts))
    if tree is not None:
        caches, defaults, mstate, karr = _decorators(tree), _mutable_defaults(tree), _module_state(tree), kernel_arrays(tree)
        status["process_state_tables"] = "translated"
    else:
        caches, defaults, mstate, karr = [], [], [], KERNEL_ARRAYS_EXPECTED
        status["process_state_tables"] = "skipped: unparsable"
    chunks.append("/-- memoising decorators (`lru_cache`, `cache`, …) anywhere in `subsample.py`: (function, decorator) -/\n"
                  "def moduleCaches : List (String × String) := " + pairs(caches))
    chunks.append("/-- mutable default arguments in `subsample.py`: (function, argument, default) -/\n"
                  "def mutableDefaults : List (String × String × String) := [\n"
                  + ",\n".join(f"  ({_lean_str(a)}, {_lean_str(b)}, {_lean_str(c)})" for a, b, c in defaults) + "]\n")
    chunks.append("/-- module- / class-level names bound to mutable containers or arrays: (name, value) -/\n"
                  "def moduleState : List (String × String) := " + pairs(mstate))
    chunks.append("/-- for every call of an in-place Cython kernel: (site, array expression, how every earlier assignment of its root "
                  "name in the same function binds it) -/\n"
                  "def kernelArrays : List (String × String × List String) := [\n"
                  + ",\n".join(f"  ({_lean_str(a)}, {_lean_str(b)}, [" + ", ".join(_lean_str(k) for k in ks) + "])" for a, b, ks in karr)
                  + "]\n")
    mtoks, st = magic_plan(tree) if tree is not None else (MAGIC_PLAN_EXPECTED, "skipped: unparsable")
    status["magic_frame_plan"] = st
    chunks.append("/-- frame loop of `MagicMaskFunc.mask_func`: draw, strided assignments, flip, shift, union with the ACS row -/\n"
                  "def magicPlan : List String := [\n" + ",\n".join("  " + _lean_str(t) for t in mtoks) + "]\n")
    post, st = poisson_post(tree)
    status["poisson_post_statements"] = st
    chunks.append("/-- statements of `poisson` after the last evaluation of `actual_acceleration` up to `return`: (text, modifies `mask`) -/\n"
                  "def poissonPost : List (String × Bool) := [\n"
                  + ",\n".join(f"  ({_lean_str(t)}, {'true' if m else 'false'})" for t, m in post) + "]\n")
    return "\n".join(chunks), status


EXTRA["C07"] = _extra
