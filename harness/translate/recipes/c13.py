"""C13 translation recipes: `chunks`, `BatchVolumeSampler`, `ConcatDatasetBatchSampler`, `DistributedSampler`.

Arithmetic kernels become Lean defs over Int (Python semantics); structural facts (does `__iter__` write
or consume anything stored on `self`?  is the end-of-volume iterator rebuilt locally?) become Lean data
checked by `decide` in Bridge/C13.lean."""
from __future__ import annotations

import ast

from ..gen import EXTRA, Kernel, Untranslatable, all_stmts, find_for, register
from ..pyexpr import ExprTr, emit_def, find_function, lean_ident, parse_file, translate_block

U = "direct/utils/__init__.py"
S = "direct/data/samplers.py"
IMP = ("DirectVerif.Model.Sampler", "DirectVerif.Model.C13Machine")


# ---- chunks ------------------------------------------------------------------------------------
def _chunks_parts(fn: ast.FunctionDef):
    """(tr, lets, slice node).  Names of locals do not matter: quotient and remainder are whatever
    `divmod(len(list_to_chunk), number_of_chunks)` (or `//` and `%`) is bound to, the chunk index is the variable of the loop
    over `range(number_of_chunks)`; everything else is translated as integer arithmetic and left to the bridge lemma
    (`∀ n k idx, Gen = Model`, proved by case analysis + ring arithmetic, not by comparing text)."""
    tr = ExprTr({"len(list_to_chunk)": "n", "number_of_chunks": "k"})
    lets = []
    loop = None
    pre = []
    for st in fn.body:
        if isinstance(st, ast.For):
            loop = st
            break
        if (isinstance(st, ast.Assign) and len(st.targets) == 1 and isinstance(st.targets[0], ast.Tuple)
                and len(st.targets[0].elts) == 2 and all(isinstance(e, ast.Name) for e in st.targets[0].elts)
                and ast.unparse(st.value).replace(" ", "") == "divmod(len(list_to_chunk),number_of_chunks)"):
            l, _ = translate_block(pre, tr, [])
            lets += l
            pre = []
            qn, rn = (e.id for e in st.targets[0].elts)
            lets.append(f"let {lean_ident(qn)} : Int := (Int.fdiv n k)")
            lets.append(f"let {lean_ident(rn)} : Int := (Int.fmod n k)")
            tr.locals[qn], tr.locals[rn] = lean_ident(qn), lean_ident(rn)
            continue
        pre.append(st)
    if loop is None:
        raise Untranslatable("no loop over the chunk index")
    l, _ = translate_block(pre, tr, [])
    lets += l
    if not (isinstance(loop.target, ast.Name) and ast.unparse(loop.iter).replace(" ", "") == "range(number_of_chunks)"):
        raise Untranslatable(f"unexpected loop `for {ast.unparse(loop.target)} in {ast.unparse(loop.iter)}`")
    tr.locals.pop(loop.target.id, None)
    tr.binds[loop.target.id] = "idx"
    l, _ = translate_block(loop.body, tr, [])
    lets += l
    sl = None
    for st in loop.body:
        if isinstance(st, ast.Expr) and isinstance(st.value, ast.Yield):
            v = st.value.value
            if (isinstance(v, ast.Subscript) and ast.unparse(v.value) == "list_to_chunk" and isinstance(v.slice, ast.Slice)
                    and v.slice.step is None and v.slice.lower is not None and v.slice.upper is not None):
                sl = v.slice
    if sl is None:
        raise Untranslatable("`yield list_to_chunk[lo:hi]` not found")
    return tr, lets, sl


def _chunks_start(k: Kernel, fn):
    tr, lets, sl = _chunks_parts(fn)
    return emit_def(k.name, k.params, lets, tr.int(sl.lower))


def _chunks_stop(k: Kernel, fn):
    tr, lets, sl = _chunks_parts(fn)
    return emit_def(k.name, k.params, lets, tr.int(sl.upper))


# ---- BatchVolumeSampler ------------------------------------------------------------------------
def _effective_iter(tree) -> ast.FunctionDef:
    """`BatchVolumeSampler.__iter__` with helper extraction undone: when its body is just `yield from helper(args…)` /
    `return helper(args…)` (a module-level generator function or a method of the class) the helper's body is returned with
    its parameters replaced by the call-site arguments (`indices` -> `self.sampler`, …).  Laziness is unchanged by either
    form: nothing of a generator function's body runs before the first `next`."""
    it = find_function(tree, "BatchVolumeSampler.__iter__")
    body = [st for st in it.body if not (isinstance(st, ast.Expr) and isinstance(st.value, ast.Constant))]
    call = None
    if len(body) == 1:
        st = body[0]
        if isinstance(st, ast.Expr) and isinstance(st.value, ast.YieldFrom) and isinstance(st.value.value, ast.Call):
            call = st.value.value
        elif isinstance(st, ast.Return) and isinstance(st.value, ast.Call):
            call = st.value
    if call is None:
        return it
    helper = None
    if isinstance(call.func, ast.Name):
        helper = next((n for n in tree.body if isinstance(n, ast.FunctionDef) and n.name == call.func.id), None)
    elif isinstance(call.func, ast.Attribute) and ast.unparse(call.func.value) in ("self", "BatchVolumeSampler", "type(self)"):
        cls = _class(tree, "BatchVolumeSampler")
        helper = next((n for n in cls.body if isinstance(n, ast.FunctionDef) and n.name == call.func.attr), None)
    if helper is None:
        raise Untranslatable(f"`__iter__` delegates to `{ast.unparse(call.func)}`, which is not a function of this module")
    params = [a.arg for a in helper.args.args if a.arg not in ("self", "cls")]
    env = {}
    for pname, a in zip(params, call.args):
        env[pname] = a
    for kw in call.keywords:
        if kw.arg is None:
            raise Untranslatable("**kwargs in the call of the iteration helper")
        env[kw.arg] = kw.value
    if any(ast.unparse(a) == "self" for a in env.values()):
        raise Untranslatable("the iteration helper receives `self`")
    stored = {n.id for n in ast.walk(helper) if isinstance(n, ast.Name) and isinstance(n.ctx, ast.Store)}
    if stored & set(env):
        raise Untranslatable("the iteration helper rebinds one of its parameters")
    new_body = [_sub(env, st) for st in helper.body]
    fn = ast.FunctionDef(name="__iter__", args=it.args, body=new_body, decorator_list=[], returns=None, type_comment=None,
                         lineno=it.lineno, col_offset=0)
    try:
        fn.type_params = []
    except Exception:  # noqa: BLE001
        pass
    return ast.fix_missing_locations(fn)


def _bvs_iter_shape(tree):
    """(binds, yield-if, advance-if, rebuilt?) of the effective `__iter__`, whatever its locals are called:
    `E = iter(self.end_of_volume); NV = next(E, None); B = []; for I in self.sampler: B.append(I); if c1: yield B; B = [];
    if c2: NV = next(E, NV)` and the trailing `if len(B) > 0: yield B`."""
    fn = _effective_iter(tree)
    body = [st for st in fn.body if not (isinstance(st, ast.Expr) and isinstance(st.value, ast.Constant))]
    loops = [st for st in body if isinstance(st, ast.For)]
    if len(loops) != 1 or not isinstance(loops[0].target, ast.Name):
        raise Untranslatable("expected one `for idx in …` loop in `BatchVolumeSampler.__iter__`")
    loop = loops[0]
    idx = loop.target.id
    if ast.unparse(loop.iter) != "self.sampler":
        raise Untranslatable(f"the loop runs over `{ast.unparse(loop.iter)}`, not over `self.sampler`")
    st0 = loop.body[0]
    if not (isinstance(st0, ast.Expr) and isinstance(st0.value, ast.Call) and isinstance(st0.value.func, ast.Attribute)
            and st0.value.func.attr == "append" and isinstance(st0.value.func.value, ast.Name)
            and len(st0.value.args) == 1 and ast.unparse(st0.value.args[0]) == idx):
        raise Untranslatable("`batch.append(idx)` is not the first statement of the loop")
    b = st0.value.func.value.id
    ifs = [st for st in loop.body if isinstance(st, ast.If)]
    if len(ifs) != 2 or len(loop.body) != 3:
        raise Untranslatable("expected exactly `append; if …: yield; if …: advance` in the loop")
    y, adv = ifs
    if not (len(y.body) == 2 and isinstance(y.body[0], ast.Expr) and ast.unparse(y.body[0]) == f"yield {b}"
            and ast.unparse(y.body[1]) == f"{b} = []" and not y.orelse):
        raise Untranslatable("first `if` is not `yield batch; batch = []`")
    a0 = adv.body[0] if len(adv.body) == 1 else None
    if not (isinstance(a0, ast.Assign) and len(a0.targets) == 1 and isinstance(a0.targets[0], ast.Name)
            and isinstance(a0.value, ast.Call) and ast.unparse(a0.value.func) == "next" and len(a0.value.args) == 2
            and isinstance(a0.value.args[0], ast.Name) and ast.unparse(a0.value.args[1]) == a0.targets[0].id and not adv.orelse):
        raise Untranslatable("second `if` is not `next_value = next(end_of_volume, next_value)`")
    nv, e = a0.targets[0].id, a0.value.args[0].id
    pre = body[:body.index(loop)]
    rebuilt = any(isinstance(st, ast.Assign) and ast.unparse(st.targets[0]) == e
                  and ast.unparse(st.value).replace(" ", "") == "iter(self.end_of_volume)" for st in pre)
    first = any(isinstance(st, ast.Assign) and ast.unparse(st.targets[0]) == nv
                and ast.unparse(st.value).replace(" ", "") == f"next({e},None)" for st in pre)
    fresh_batch = any(isinstance(st, ast.Assign) and ast.unparse(st.targets[0]) == b and ast.unparse(st.value) == "[]" for st in pre)
    last = body[-1]
    tail_ok = (isinstance(last, ast.If) and ast.unparse(last.test).replace(" ", "") == f"len({b})>0"
               and len(last.body) == 1 and ast.unparse(last.body[0]) == f"yield {b}" and not last.orelse)
    binds = {f"len({b})": "lenb", "self.batch_size": "bs", idx: "idx", nv: "nv"}
    return binds, y, adv, (rebuilt and first and fresh_batch and tail_ok), fn


def _bvs_yield(k: Kernel, fn):
    from ..gen import REPO
    binds, y, _, _, _ = _bvs_iter_shape(parse_file(REPO / S))
    return emit_def(k.name, k.params, [], ExprTr(binds).bool(y.test), "Bool")


def _bvs_advance(k: Kernel, fn):
    from ..gen import REPO
    binds, _, adv, _, _ = _bvs_iter_shape(parse_file(REPO / S))
    return emit_def(k.name, k.params, [], ExprTr(binds).bool(adv.test), "Bool")


# `BatchVolumeSampler.__init__` bookkeeping.  Where the code lives (inline loop, list comprehension / `sum(...)`, a private
# helper of the class called from `__init__`) and what the locals are called does not matter: the summand of the batch count
# is the argument of the one `math.ceil(a / b)` in that scope, the end-of-volume entry is the one collected value that reads
# `.stop`; both are translated after inlining locals, with `<range>.start/.stop` of the volume's range and the batch size bound.
import copy


class _Subst(ast.NodeTransformer):
    def __init__(self, env):
        self.env = env

    def visit_Name(self, n):
        if isinstance(n.ctx, ast.Load) and n.id in self.env:
            return copy.deepcopy(self.env[n.id])
        return n

    def visit_Attribute(self, n):
        if isinstance(n.ctx, ast.Load) and ast.unparse(n) in self.env:
            return copy.deepcopy(self.env[ast.unparse(n)])
        return self.generic_visit(n)


def _sub(env, e):
    return ast.fix_missing_locations(_Subst(env).visit(copy.deepcopy(e)))


def _bvs_init_scope(tree):
    """[(function, env)] for `BatchVolumeSampler.__init__` and the helpers of the class it calls; env = helper parameters bound
    to the call-site arguments + locals assigned exactly once (inlined)."""
    cls = _class(tree, "BatchVolumeSampler")
    methods = {f.name: f for f in cls.body if isinstance(f, ast.FunctionDef)}
    if "__init__" not in methods:
        raise Untranslatable("BatchVolumeSampler.__init__ not found")
    scope, seen = [], set()

    def add(fn, env):
        if fn.name in seen:
            return
        seen.add(fn.name)
        counts = {}
        for n in ast.walk(fn):
            if isinstance(n, ast.Name) and isinstance(n.ctx, ast.Store):
                counts[n.id] = counts.get(n.id, 0) + 1
        env = dict(env)
        for n in all_stmts(fn):
            if (isinstance(n, ast.Assign) and len(n.targets) == 1 and isinstance(n.targets[0], ast.Name)
                    and counts.get(n.targets[0].id) == 1):
                env[n.targets[0].id] = _sub(env, n.value)
        scope.append((fn, env))
        for n in ast.walk(fn):
            if isinstance(n, ast.Call) and isinstance(n.func, ast.Attribute) and n.func.attr in methods \
                    and ast.unparse(n.func.value) in ("self", "cls", cls.name, "type(self)"):
                h = methods[n.func.attr]
                params = [a.arg for a in h.args.args if a.arg not in ("self", "cls")]
                henv = {}
                for pname, a in zip(params, n.args):
                    henv[pname] = _sub(env, a)
                for kw in n.keywords:
                    if kw.arg:
                        henv[kw.arg] = _sub(env, kw.value)
                add(h, henv)
    add(methods["__init__"], {})
    return scope


def _range_binds(expr, fn, env):
    """binds for the translator: the one expression V with `V.start` / `V.stop` in `expr` must denote a volume's range."""
    vs = {ast.unparse(n.value) for n in ast.walk(expr) if isinstance(n, ast.Attribute) and n.attr in ("start", "stop")}
    if len(vs) != 1:
        raise Untranslatable(f"expected one range with .start/.stop, found {sorted(vs)}")
    v = vs.pop()
    origin = v
    for n in ast.walk(fn):      # loop / comprehension variable: where does it range over?
        if isinstance(n, (ast.For, ast.comprehension)) and ast.unparse(n.target) == v:
            origin = ast.unparse(_sub(env, n.iter))
    if "volume_indices" not in origin:
        raise Untranslatable(f"`{v}` is not taken from `volume_indices`")
    return {f"{v}.stop": "stop", f"{v}.start": "start", "batch_size": "bs", "self.batch_size": "bs"}


def _bvs_len_term(k: Kernel, fn):
    """the summand of the batch count, `math.ceil(num_indices / batch_size)`.
    `math.ceil(a / b)` (true division in binary64, then ceiling) is emitted as the exact rational ceiling
    `pyCeilTrueDiv a b`; they agree for n < 2**52 (C13.float_ceil_eq, probed by the oracle)."""
    from ..gen import REPO
    found = []
    for f, env in _bvs_init_scope(parse_file(REPO / S)):
        for n in ast.walk(f):
            if (isinstance(n, ast.Call) and ast.unparse(n.func) == "math.ceil" and len(n.args) == 1
                    and isinstance(n.args[0], ast.BinOp) and isinstance(n.args[0].op, ast.Div)):
                found.append((f, env, n.args[0]))
    if len(found) != 1:
        raise Untranslatable(f"expected one `math.ceil(a / b)` in BatchVolumeSampler.__init__ (+ helpers), found {len(found)}")
    f, env, div = found[0]
    num, den = _sub(env, div.left), _sub(env, div.right)
    tr = ExprTr(_range_binds(num, f, env))
    return emit_def(k.name, k.params, [], f"Sampler.pyCeilTrueDiv {tr.int(num)} {tr.int(den)}")


def _bvs_end_value(k: Kernel, fn):
    from ..gen import REPO
    found = []
    for f, env in _bvs_init_scope(parse_file(REPO / S)):
        for n in ast.walk(f):
            e = None
            if isinstance(n, ast.Call) and isinstance(n.func, ast.Attribute) and n.func.attr == "append" and len(n.args) == 1:
                e = n.args[0]
            elif isinstance(n, ast.ListComp):
                e = n.elt
            if e is not None:
                e = _sub(env, e)
                attrs = {a.attr for a in ast.walk(e) if isinstance(a, ast.Attribute) and a.attr in ("start", "stop")}
                if attrs == {"stop"}:
                    found.append((f, env, e))
    if len(found) != 1:
        raise Untranslatable(f"expected one collected `.stop` value in BatchVolumeSampler.__init__ (+ helpers), found {len(found)}")
    f, env, e = found[0]
    return emit_def(k.name, k.params, [], ExprTr(_range_binds(e, f, env)).int(e))


# ---- ConcatDatasetBatchSampler -------------------------------------------------------------------
def _concat_elem(k: Kernel, fn):
    loop = find_for(fn, 0)
    if ast.unparse(loop.target) != "batch_idx" or ast.unparse(loop.iter) != "sampler":
        raise Untranslatable("loop `for batch_idx in sampler` not found")
    st = loop.body[0]
    if not (isinstance(st, ast.Expr) and isinstance(st.value, ast.Call) and ast.unparse(st.value.func) == "batch.append"):
        raise Untranslatable("`batch.append(…)` is not the first statement")
    return emit_def(k.name, k.params, [], ExprTr({"batch_idx": "batch_idx", "sampler_offset": "sampler_offset"}).int(st.value.args[0]))


def _concat_yield(k: Kernel, fn):
    loop = find_for(fn, 0)
    ifs = [st for st in loop.body if isinstance(st, ast.If)]
    if len(ifs) != 1 or len(loop.body) != 2 or ast.unparse(ifs[0].body[0]) != "yield batch":
        raise Untranslatable("expected `append; if …: yield batch; batch = []`")
    return emit_def(k.name, k.params, [], ExprTr({"len(batch)": "lenb", "self.batch_size": "bs"}).bool(ifs[0].test), "Bool")


def _cumsum_parts(fn):
    loop = find_for(fn, 0)
    tr = ExprTr({"len(e)": "e", "s": "s"})
    lets, loc = translate_block(loop.body, tr, ["s"])
    app = None
    # value appended to r, evaluated with the locals in scope at that statement
    tr2 = ExprTr({"len(e)": "e", "s": "s"})
    for st in loop.body:
        if isinstance(st, ast.Expr) and isinstance(st.value, ast.Call) and ast.unparse(st.value.func) == "r.append":
            app = tr2.int(st.value.args[0])
            break
        translate_block([st], tr2, [])
    if app is None:
        raise Untranslatable("`r.append(…)` not found")
    return lets, loc["s"], app


def _cumsum_app(k: Kernel, fn):
    lets, _, app = _cumsum_parts(fn)
    # the lets before the append are re-derived inside `app` through tr2's locals; emit all lets (harmless)
    tr = ExprTr({"len(e)": "e", "s": "s"})
    pre = []
    loop = find_for(fn, 0)
    for st in loop.body:
        if isinstance(st, ast.Expr) and isinstance(st.value, ast.Call) and ast.unparse(st.value.func) == "r.append":
            break
        l, _ = translate_block([st], tr, [])
        pre += l
    return emit_def(k.name, k.params, pre, app)


def _cumsum_next(k: Kernel, fn):
    lets, s, _ = _cumsum_parts(fn)
    return emit_def(k.name, k.params, lets, s)


register("C13", [
    Kernel("chunks_si", U, "chunks", ["n", "k", "idx"], "Sampler.chunkStartI", _chunks_start, imports=IMP),
    Kernel("chunks_stop", U, "chunks", ["n", "k", "idx"], "Sampler.chunkStopI", _chunks_stop, imports=IMP),
    Kernel("bvs_yield_cond", S, "BatchVolumeSampler.__iter__", ["lenb", "bs", "idx", "nv"],
           "(fun lenb bs idx nv => (lenb == bs) || (idx == nv - 1))", _bvs_yield, ret_type="Bool", imports=IMP),
    Kernel("bvs_advance_cond", S, "BatchVolumeSampler.__iter__", ["lenb", "bs", "idx", "nv"],
           "(fun _ _ idx nv => idx == nv - 1)", _bvs_advance, ret_type="Bool", imports=IMP),
    Kernel("bvs_len_term", S, "BatchVolumeSampler.__init__", ["start", "stop", "bs"],
           "(fun start stop bs => Sampler.pyCeilTrueDiv (stop - start) bs)", _bvs_len_term, imports=IMP),
    Kernel("bvs_end_value", S, "BatchVolumeSampler.__init__", ["start", "stop", "bs"], "(fun _ stop _ => stop)",
           _bvs_end_value, imports=IMP),
    Kernel("concat_elem", S, "ConcatDatasetBatchSampler.batch_sampler", ["batch_idx", "sampler_offset"],
           "(fun a b => a + b)", _concat_elem, imports=IMP),
    Kernel("concat_yield_cond", S, "ConcatDatasetBatchSampler.batch_sampler", ["lenb", "bs"], "(fun a b => a == b)",
           _concat_yield, ret_type="Bool", imports=IMP),
    Kernel("cumsum_append", S, "ConcatDatasetBatchSampler.cumsum", ["e", "s"], "(fun e s => e + s)", _cumsum_app, imports=IMP),
    Kernel("cumsum_next", S, "ConcatDatasetBatchSampler.cumsum", ["e", "s"], "(fun e s => s + e)", _cumsum_next, imports=IMP),
])

_MUTATORS = {"append", "extend", "pop", "clear", "remove", "insert", "sort", "reverse", "update", "setdefault",
             "popitem", "add", "discard", "__next__", "send"}


def _self_attr(node) -> str | None:
    """`self.x`, `self.x[...]`, `self.x.y` -> 'x'"""
    while isinstance(node, (ast.Subscript, ast.Attribute)):
        if isinstance(node, ast.Attribute) and isinstance(node.value, ast.Name) and node.value.id == "self":
            return node.attr
        node = node.value
    return None


def self_writes(fn: ast.FunctionDef) -> list[str]:
    """Attributes of `self` that the function assigns, deletes, advances with `next(...)`, or calls a
    mutating method on."""
    out = []
    for n in ast.walk(fn):
        tg = []
        if isinstance(n, ast.Assign):
            tg = n.targets
        elif isinstance(n, (ast.AugAssign, ast.AnnAssign)):
            tg = [n.target]
        elif isinstance(n, ast.Delete):
            tg = n.targets
        elif isinstance(n, (ast.For, ast.comprehension)):
            tg = [n.target]
        elif isinstance(n, ast.NamedExpr):
            tg = [n.target]
        for t in tg:
            for sub in ast.walk(t):
                a = _self_attr(sub)
                if a:
                    out.append(a)
        if isinstance(n, ast.Call):
            if isinstance(n.func, ast.Name) and n.func.id in ("next", "setattr", "delattr") and n.args:
                a = _self_attr(n.args[0]) or ("<self>" if ast.unparse(n.args[0]) == "self" else None)
                if a:
                    out.append(a)
            if isinstance(n.func, ast.Attribute) and n.func.attr in _MUTATORS:
                a = _self_attr(n.func.value)
                if a:
                    out.append(a)
    return sorted(set(out))


def _lean_strs(xs):
    return "[" + ", ".join('"' + x + '"' for x in xs) + "]"


def _c13_extra():
    from ..gen import REPO

    status, parts = {}, []
    # --- structural facts of BatchVolumeSampler.__iter__ (helper extraction followed, names of locals irrelevant)
    try:
        tree = parse_file(REPO / S)
        eff = _effective_iter(tree)
        writes = sorted(set(self_writes(eff)) | set(self_writes(find_function(tree, "BatchVolumeSampler.__iter__"))))
        parts.append("/-- attributes of `self` that `BatchVolumeSampler.__iter__` assigns / advances / mutates -/\n"
                     f"def bvs_iter_self_writes : List String := {_lean_strs(writes)}\n")
        status["bvs_iter_self_writes"] = "translated"
    except Untranslatable as e:
        parts.append(f"/-- SKIPPED ({e}) -/\ndef bvs_iter_self_writes : List String := []\n")
        status["bvs_iter_self_writes"] = f"skipped: {e}"
    try:
        _, _, _, rebuilds, _ = _bvs_iter_shape(parse_file(REPO / S))
        parts.append("/-- `end_of_volume = iter(self.end_of_volume); next_value = next(end_of_volume, None); batch = []` before the\n"
                     "loop over `self.sampler`, trailing `if len(batch) > 0: yield batch` -/\n"
                     f"def bvs_iter_rebuilds : Bool := {'true' if rebuilds else 'false'}\n")
        status["bvs_iter_rebuilds"] = "translated"
    except Untranslatable as e:
        parts.append(f"/-- SKIPPED ({e}) -/\ndef bvs_iter_rebuilds : Bool := true\n")
        status["bvs_iter_rebuilds"] = f"skipped: {e}"
    # --- DistributedSequentialSampler.__iter__/__len__ : plain views of self.indices
    try:
        tree = parse_file(REPO / S)
        it = find_function(tree, "DistributedSequentialSampler.__iter__")
        ln = find_function(tree, "DistributedSequentialSampler.__len__")
        plain = (len(it.body) == 1 and ast.unparse(it.body[0]) == "return iter(self.indices)"
                 and len(ln.body) == 1 and ast.unparse(ln.body[0]) == "return len(self.indices)")
        parts.append(f"/-- `__iter__` = `iter(self.indices)`, `__len__` = `len(self.indices)` -/\n"
                     f"def seq_iter_is_indices : Bool := {'true' if plain else 'false'}\n")
        status["seq_iter_is_indices"] = "translated"
    except Untranslatable as e:
        parts.append(f"/-- SKIPPED ({e}) -/\ndef seq_iter_is_indices : Bool := true\n")
        status["seq_iter_is_indices"] = f"skipped: {e}"
    # --- phase 3: object state across iterators (what the multi-iterator machine Model/C13Machine.lean relies on)
    try:
        tree = parse_file(REPO / S)
        parts.append(_iter_tables(tree))
        for k in ("bvs_iter_self_reads", "bvs_other_method_writes", "bvs_init_iterator_attrs", "seq_method_writes",
                  "bvs_len_is_num_batches", "seq_init_iterator_attrs"):
            status[k] = "translated"
    except Untranslatable as e:
        parts.append(f"/-- SKIPPED ({e}) -/\ndef bvs_iter_self_reads : List String := []\n"
                     "def bvs_other_method_writes : List String := []\ndef bvs_init_iterator_attrs : List String := []\n"
                     "def seq_method_writes : List String := []\ndef bvs_len_is_num_batches : Bool := true\n"
                     "def seq_init_iterator_attrs : List String := []\n")
        for k in ("bvs_iter_self_reads", "bvs_other_method_writes", "bvs_init_iterator_attrs", "seq_method_writes",
                  "bvs_len_is_num_batches", "seq_init_iterator_attrs"):
            status[k] = f"skipped: {e}"
    # --- DistributedSequentialSampler.__init__: limit, then chunk, then select this rank's chunk
    try:
        order = _seq_init_order(find_function(parse_file(REPO / S), "DistributedSequentialSampler.__init__"))
        parts.append("/-- `DistributedSequentialSampler.__init__`: the volume-limit slice, the `chunks` call and the selection of\n"
                     "this rank's chunk, in statement order, with their operands -/\n"
                     f"def seq_init_order : List String := {_lean_strs(order)}\n")
        status["seq_init_order"] = "translated"
    except Untranslatable as e:
        parts.append(f"/-- SKIPPED ({e}) -/\ndef seq_init_order : List String := Sampler.expectedSeqInitOrder\n")
        status["seq_init_order"] = f"skipped: {e}"
    # --- ConcatDatasetBatchSampler offsets
    try:
        fn = find_function(parse_file(REPO / S), "ConcatDatasetBatchSampler.__init__")
        node = None
        for n in ast.walk(fn):
            if isinstance(n, ast.Call) and ast.unparse(n.func) == "self.batch_sampler" and len(n.args) == 2:
                node = n
        if node is None:
            raise Untranslatable("call `self.batch_sampler(sampler, offset)` not found")
        comp = [n for n in ast.walk(fn) if isinstance(n, ast.ListComp) and any(c is node for c in ast.walk(n))]
        if not comp or ast.unparse(comp[0].generators[0].target) not in ("(idx, sampler)", "idx, sampler") \
                or ast.unparse(comp[0].generators[0].iter).replace(" ", "") != "enumerate(self.samplers)":
            raise Untranslatable("`for idx, sampler in enumerate(self.samplers)` not found")

        class Tr(ExprTr):
            def int(self, n):  # noqa: A003
                if (isinstance(n, ast.Subscript) and ast.unparse(n.value) == "self.cumulative_sizes"
                        and not isinstance(n.slice, ast.Slice)):
                    return f"(cum.getD ({super().int(n.slice)}).toNat 0)"
                return super().int(n)

        body = Tr({"idx": "idx"}).int(node.args[1])
        parts.append("/-- translated from `ConcatDatasetBatchSampler.__init__`: the offset handed to `batch_sampler`\n"
                     "(`cum` = `self.cumulative_sizes`; non-negative subscripts only) -/\n"
                     f"def concat_offset (cum : List Int) (idx : Int) : Int :=\n  {body}\n")
        status["concat_offset"] = "translated"
    except Untranslatable as e:
        parts.append(f"/-- SKIPPED ({e}) -/\ndef concat_offset (cum : List Int) (idx : Int) : Int :=\n"
                     "  if idx == 0 then 0 else cum.getD (idx - 1).toNat 0\n")
        status["concat_offset"] = f"skipped: {e}"
    # --- DistributedSampler.__iter__ : islice(self._infinite_indices(), start, None, self._world_size)
    try:
        fn = find_function(parse_file(REPO / S), "DistributedSampler.__iter__")
        tr = ExprTr({"self._rank": "rank", "self._world_size": "world"})
        lets, _ = translate_block(fn.body, tr, [])
        call = None
        for n in ast.walk(fn):
            if isinstance(n, ast.Call) and ast.unparse(n.func) == "itertools.islice":
                call = n
        if call is None or len(call.args) != 4 or ast.unparse(call.args[0]) != "self._infinite_indices()" \
                or ast.unparse(call.args[2]) != "None":
            raise Untranslatable("`itertools.islice(self._infinite_indices(), start, None, step)` not found")
        parts.append("/-- translated from `DistributedSampler.__iter__`: islice start and step -/\n"
                     + emit_def("dist_start", ["rank", "world"], lets, tr.int(call.args[1]))
                     + emit_def("dist_step", ["rank", "world"], lets, tr.int(call.args[3])))
        status["dist_start"] = "translated"
        status["dist_step"] = "translated"
    except Untranslatable as e:
        parts.append(f"/-- SKIPPED ({e}) -/\ndef dist_start (rank world : Int) : Int := rank\n"
                     "def dist_step (rank world : Int) : Int := world\n")
        status["dist_start"] = f"skipped: {e}"
        status["dist_step"] = f"skipped: {e}"
    # --- phase 2 tables: call sites of build_batch_sampler, DistributedSampler structure, concat draw
    E = "direct/engine.py"
    for name, fnc, fb in (("dist_init_seed", lambda: _dist_init(parse_file(REPO / S)), "Sampler.expectedDistInit"),
                          ("batch_sampler_calls", lambda: _bbs_calls(parse_file(REPO / E)), "Sampler.expectedBatchSamplerCalls"),
                          ("dist_structure", lambda: _dist_structure(parse_file(REPO / S)), "Sampler.expectedDistStructure"),
                          ("concat_next", lambda: _concat_next(parse_file(REPO / S)), "Sampler.expectedConcatNextFlow")):
        try:
            parts.append(f"/-- read from the source -/\ndef {name} : List String :=\n  " + _lean_strs_nl(fnc()) + "\n")
            status[name] = "translated"
        except Untranslatable as e:
            parts.append(f"/-- SKIPPED ({e}) -/\ndef {name} : List String := {fb}\n")
            status[name] = f"skipped: {e}"
    return "\n".join(parts), status


def _lean_strs_nl(xs):
    return "[" + ",\n   ".join('"' + x.replace("\\", "\\\\").replace('"', '\\"') + '"' for x in xs) + "]"


def _bbs_calls(tree) -> list[str]:
    out = []
    for cls in ast.walk(tree):
        if isinstance(cls, ast.ClassDef):
            for fn in cls.body:
                if isinstance(fn, ast.FunctionDef):
                    for n in ast.walk(fn):
                        if isinstance(n, ast.Call) and ast.unparse(n.func) == "self.build_batch_sampler":
                            args = [ast.unparse(a) for a in n.args] + [f"{k.arg}={ast.unparse(k.value)}" if k.arg else
                                                                       "**" + ast.unparse(k.value) for k in n.keywords]
                            out.append(f"{fn.name}: ({', '.join(args)})")
    return sorted(out)


def _gen_outline(stmts, ind="") -> list[str]:
    out = []
    for st in stmts:
        if isinstance(st, ast.Assign):
            out.append(f"{ind}{ast.unparse(st.targets[0])}={ast.unparse(st.value)}")
        elif isinstance(st, ast.Expr) and isinstance(st.value, (ast.Yield, ast.YieldFrom, ast.Call)):
            t = ast.unparse(st.value)
            out.append(ind + (t[1:-1] if t.startswith("(yield") and t.endswith(")") else t))
        elif isinstance(st, ast.While):
            out.append(f"{ind}while {ast.unparse(st.test)}")
            out += _gen_outline(st.body, ind + "  ")
        elif isinstance(st, ast.If):
            out.append(f"{ind}if {ast.unparse(st.test)}")
            out += _gen_outline(st.body, ind + "  ")
            if st.orelse:
                out.append(f"{ind}else")
                out += _gen_outline(st.orelse, ind + "  ")
        elif isinstance(st, ast.Return):
            out.append(f"{ind}return {ast.unparse(st.value)}")
        elif isinstance(st, ast.Expr):
            continue
        else:
            out.append(f"{ind}other:{type(st).__name__}")
    return out


def _dist_structure(tree) -> list[str]:
    cls = [n for n in tree.body if isinstance(n, ast.ClassDef) and n.name == "DistributedSampler"]
    if not cls:
        raise Untranslatable("class DistributedSampler not found")
    methods = sorted(f.name for f in cls[0].body if isinstance(f, ast.FunctionDef))
    return ["methods: " + ", ".join(methods)] + _gen_outline(find_function(tree, "DistributedSampler._infinite_indices").body)


def _dist_init(tree) -> list[str]:
    """where seed, rank and world size of `DistributedSampler` come from"""
    init = find_function(tree, "DistributedSampler.__init__")
    keep = []
    for ln in _gen_outline(init.body):
        t = ln.strip()
        if "seed" in t or "_rank" in t or "_world_size" in t:
            keep.append(ln)
    return keep


def _concat_next(tree) -> list[str]:
    """how the member is drawn and advanced: the three attributes `__next__` depends on, and what `__next__` returns with
    its locals inlined (hoisting a sub-expression into a named local changes nothing)"""
    init = find_function(tree, "ConcatDatasetBatchSampler.__init__")
    out = []
    for st in init.body:
        if isinstance(st, ast.Assign) and ast.unparse(st.targets[0]) in ("self.samplers", "self.weights", "self.cumulative_sizes"):
            out.append(f"{ast.unparse(st.targets[0])}={ast.unparse(st.value)}")
    env = {}
    for st in find_function(tree, "ConcatDatasetBatchSampler.__next__").body:
        if isinstance(st, ast.Assign) and len(st.targets) == 1 and isinstance(st.targets[0], ast.Name):
            env[st.targets[0].id] = _sub(env, st.value)
        elif isinstance(st, ast.Return) and st.value is not None:
            out.append("return " + ast.unparse(_sub(env, st.value)))
        elif isinstance(st, ast.Expr) and isinstance(st.value, ast.Constant):
            continue
        else:
            out.append(f"other:{type(st).__name__}")
    return out


_ITER_FUNCS = {"iter", "map", "zip", "filter", "enumerate", "reversed"}


def _is_iterator_expr(v) -> bool:
    """does the expression itself evaluate to a one-shot iterator?  (a generator expression consumed on the spot by
    `sum(...)`, `list(...)`, … does not make the stored value an iterator)"""
    if isinstance(v, ast.GeneratorExp):
        return True
    if isinstance(v, ast.IfExp):
        return _is_iterator_expr(v.body) or _is_iterator_expr(v.orelse)
    if isinstance(v, ast.BoolOp):
        return any(_is_iterator_expr(x) for x in v.values)
    if isinstance(v, ast.NamedExpr):
        return _is_iterator_expr(v.value)
    if isinstance(v, ast.Call):
        f = ast.unparse(v.func)
        return f in _ITER_FUNCS or f.startswith("itertools.")
    return False


def _init_iterator_attrs(init: ast.FunctionDef) -> list[str]:
    """attributes of `self` that `__init__` binds to a one-shot iterator, or advances with `next`"""
    iters = []
    for n in ast.walk(init):
        if isinstance(n, (ast.Assign, ast.AnnAssign)) and n.value is not None:
            tgs = n.targets if isinstance(n, ast.Assign) else [n.target]
            for t in tgs:
                pairs = list(zip(t.elts, n.value.elts)) if (isinstance(t, ast.Tuple) and isinstance(n.value, ast.Tuple)
                                                            and len(t.elts) == len(n.value.elts)) else [(t, n.value)]
                for tt, vv in pairs:
                    a = _self_attr(tt) if isinstance(tt, (ast.Attribute, ast.Subscript)) else None
                    if a and _is_iterator_expr(vv):
                        iters.append(a)
        if isinstance(n, ast.Call) and ast.unparse(n.func) == "next" and n.args and _self_attr(n.args[0]):
            iters.append(_self_attr(n.args[0]))
    return sorted(set(iters))


def self_reads(fn: ast.FunctionDef) -> list[str]:
    out = set()
    for n in ast.walk(fn):
        if isinstance(n, ast.Attribute) and isinstance(n.value, ast.Name) and n.value.id == "self":
            out.add(n.attr)
    return sorted(out)


def _class(tree, name) -> ast.ClassDef:
    for n in tree.body:
        if isinstance(n, ast.ClassDef) and n.name == name:
            return n
    raise Untranslatable(f"class {name} not found")


def _unmangle(attr: str) -> str:
    return attr[len("_BatchVolumeSampler"):] if attr.startswith("_BatchVolumeSampler__") else attr


def _len_returns_init_count(tree) -> bool:
    """Is what `__len__` returns the batch count computed in `__init__` — whatever the attribute is called?
    true: `__len__` is `return self.A` and the `math.ceil` sum of `__init__` (inline, or returned by a helper) flows into
    `self.A`; false: `__len__` returns something else; Untranslatable when the flow cannot be followed."""
    ln = find_function(tree, "BatchVolumeSampler.__len__")
    body = [st for st in ln.body if not (isinstance(st, ast.Expr) and isinstance(st.value, ast.Constant))]
    if not (len(body) == 1 and isinstance(body[0], ast.Return) and body[0].value is not None):
        raise Untranslatable("`__len__` is not a single return")
    a = _self_attr(body[0].value) if isinstance(body[0].value, ast.Attribute) else None
    if a is None or ast.unparse(body[0].value) != f"self.{a}":
        return False
    a = _unmangle(a)
    scope = _bvs_init_scope(tree)
    init, env0 = scope[0]
    helpers = {f.name: (f, env) for f, env in scope[1:]}

    def has_ceil(e):
        return any(isinstance(n, ast.Call) and ast.unparse(n.func) == "math.ceil" for n in ast.walk(e))

    for st in all_stmts(init):
        if isinstance(st, ast.AugAssign) and _unmangle(_self_attr(st.target) or "") == a and has_ceil(_sub(env0, st.value)):
            return True
        if isinstance(st, ast.Assign) and len(st.targets) == 1:
            tg, v = st.targets[0], st.value
            if isinstance(tg, ast.Attribute) and _unmangle(_self_attr(tg) or "") == a and has_ceil(_sub(env0, v)):
                return True
            if isinstance(tg, ast.Tuple) and isinstance(v, ast.Call) and isinstance(v.func, ast.Attribute) \
                    and v.func.attr in helpers:
                pos = [k for k, t in enumerate(tg.elts) if isinstance(t, ast.Attribute) and _unmangle(_self_attr(t) or "") == a]
                h, henv = helpers[v.func.attr]
                rets = [r.value for r in ast.walk(h) if isinstance(r, ast.Return) and r.value is not None]
                if pos and len(rets) == 1 and isinstance(rets[0], ast.Tuple) and len(rets[0].elts) == len(tg.elts) \
                        and has_ceil(_sub(henv, rets[0].elts[pos[0]])):
                    return True
    stored = {_unmangle(x) for f, _ in scope for x in self_writes(f)}
    if a not in stored:
        return False
    raise Untranslatable(f"cannot follow how `self.{a}` is computed in `__init__`")


def _iter_tables(tree) -> str:
    bvs, seq = _class(tree, "BatchVolumeSampler"), _class(tree, "DistributedSequentialSampler")
    it = _effective_iter(tree)
    reads = sorted(set(self_reads(it)) | set(self_reads(find_function(tree, "BatchVolumeSampler.__iter__"))))
    other = []
    for f in bvs.body:
        if isinstance(f, (ast.FunctionDef, ast.AsyncFunctionDef)) and f.name != "__init__":
            other += [f"{f.name}:{a}" for a in self_writes(f)]
    iters = _init_iterator_attrs(find_function(tree, "BatchVolumeSampler.__init__"))
    seq_iters = _init_iterator_attrs(find_function(tree, "DistributedSequentialSampler.__init__"))
    seqw = []
    for f in seq.body:
        if isinstance(f, (ast.FunctionDef, ast.AsyncFunctionDef)) and f.name != "__init__":
            seqw += [f"{f.name}:{a}" for a in self_writes(f)]
    try:
        len_ok = _len_returns_init_count(tree)
    except Untranslatable:
        len_ok = True          # not understood: rests on the correspondence of len()
    return ("/-- attributes of `self` read by `BatchVolumeSampler.__iter__` (the object state of the machine) -/\n"
            f"def bvs_iter_self_reads : List String := {_lean_strs(reads)}\n\n"
            "/-- `method:attr` for every attribute of `self` written / advanced / mutated by a method of\n"
            "`BatchVolumeSampler` other than `__init__` -/\n"
            f"def bvs_other_method_writes : List String := {_lean_strs(sorted(set(other)))}\n\n"
            "/-- attributes that `BatchVolumeSampler.__init__` binds to a one-shot iterator (`iter`, `itertools.*`,\n"
            "generator expression, …) or advances with `next` -/\n"
            f"def bvs_init_iterator_attrs : List String := {_lean_strs(sorted(set(iters)))}\n\n"
            "/-- attributes that `DistributedSequentialSampler.__init__` binds to a one-shot iterator -/\n"
            f"def seq_init_iterator_attrs : List String := {_lean_strs(seq_iters)}\n\n"
            "/-- the same for `DistributedSequentialSampler` (`iter(self.sampler)` must start a new pass each time) -/\n"
            f"def seq_method_writes : List String := {_lean_strs(sorted(set(seqw)))}\n\n"
            "/-- `__len__` returns the count computed in `__init__` -/\n"
            f"def bvs_len_is_num_batches : Bool := {'true' if len_ok else 'false'}\n")


def _seq_init_order(fn: ast.FunctionDef) -> list[str]:
    """Data flow of `DistributedSequentialSampler.__init__`, independent of the names of locals: the communication defaults,
    and the expression `self.volume_indices` is built from, with every local inlined and the conditional volume-limit slice
    written `LIMIT(x, limit)`."""
    env, out = {}, []

    def kill(st):
        for n in ast.walk(st):
            if isinstance(n, ast.Name) and isinstance(n.ctx, ast.Store):
                env[n.id] = ast.Name(id="UNKNOWN", ctx=ast.Load())

    for st in fn.body:
        if isinstance(st, ast.If):
            t = st.test
            if (isinstance(t, ast.Compare) and len(t.ops) == 1 and isinstance(t.ops[0], ast.Is)
                    and ast.unparse(t.comparators[0]) == "None" and len(st.body) == 1 and isinstance(st.body[0], ast.Assign)
                    and ast.unparse(st.body[0].targets[0]) == ast.unparse(t.left) and not st.orelse):
                out.append(f"default: {ast.unparse(t.left)}={ast.unparse(st.body[0].value)}")
                continue
            if (len(st.body) == 1 and not st.orelse and isinstance(st.body[0], ast.Assign)
                    and len(st.body[0].targets) == 1 and isinstance(st.body[0].targets[0], ast.Name)):
                x = st.body[0].targets[0].id
                v = st.body[0].value
                cur = env.get(x, ast.Name(id=x, ctx=ast.Load()))
                if (isinstance(v, ast.Subscript) and isinstance(v.slice, ast.Slice) and v.slice.lower is None
                        and v.slice.step is None and v.slice.upper is not None
                        and ast.unparse(v.slice.upper) == ast.unparse(t) and ast.unparse(_sub(env, v.value)) == ast.unparse(cur)):
                    env[x] = ast.Call(func=ast.Name(id="LIMIT", ctx=ast.Load()), args=[cur, copy.deepcopy(t)], keywords=[])
                    continue
            kill(st)
            continue
        if isinstance(st, ast.Assign) and len(st.targets) == 1 and isinstance(st.targets[0], (ast.Name, ast.Attribute)):
            env[ast.unparse(st.targets[0])] = _sub(env, st.value)
            continue
        if isinstance(st, ast.Expr):
            continue
        kill(st)
    vi = env.get("self.volume_indices")
    if not (isinstance(vi, ast.DictComp) and len(vi.generators) == 1 and not vi.generators[0].ifs
            and isinstance(vi.generators[0].target, ast.Name)):
        raise Untranslatable("`self.volume_indices = {name: … for name in …}` not found in DistributedSequentialSampler.__init__")
    g = vi.generators[0]
    ren = {g.target.id: ast.Name(id="_", ctx=ast.Load())}
    out.append("volume_indices: {" + ast.unparse(_sub(ren, vi.key)) + ": " + ast.unparse(_sub(ren, vi.value)) + " for _ in "
               + ast.unparse(g.iter) + "}")
    return out


EXTRA["C13"] = _c13_extra
