"""C14 translation recipes: the assembly loop of `MRIModelEngine.reconstruct_volumes` and `_process_output`.

Integer kernels: the slice bounds written, the counter update, the yield condition, the filename guard.
Structural facts: the source-order table of the statements that touch the assembly state (what is reset
when the filename changes, where `volume_size` comes from, what is yielded) and the stage order of
`_process_output`; compared with the model's tables in Bridge/C14.lean."""
from __future__ import annotations

import ast

from ..gen import EXTRA, Kernel, Untranslatable, find_for, guard_condition, register
from ..pyexpr import ExprTr, emit_def, find_function, parse_file
from . import c14_loop, c14_norm

M = "direct/nn/mri_models.py"
IMP = ("DirectVerif.Model.Recon", "DirectVerif.Model.C14Loop")
TRACKED = {"curr_volume", "slice_counter", "volume_size", "last_filename", "filename", "output_abs"}

_binds = {"slice_counter": "sc", "OUT.shape[0]": "n", "volume_size": "vs"}


def _loop(fn: ast.FunctionDef) -> ast.For:
    return c14_loop.find_loop(fn)


def _analysis(fn) -> "c14_loop.Loop":
    """semantic reading of the loop (helpers inlined, locals resolved, roles abbreviated: OUT = what is written)"""
    from ..gen import REPO
    return c14_loop.Loop(fn, parse_file(REPO / M))


def _lo(k, fn):
    return emit_def(k.name, k.params, [], ExprTr(_binds).int(_analysis(fn).write_slice()[0]))


def _hi(k, fn):
    return emit_def(k.name, k.params, [], ExprTr(_binds).int(_analysis(fn).write_slice()[1]))


def _counter(k, fn):
    return emit_def(k.name, k.params, [], ExprTr(_binds).int(_analysis(fn).counter_next()))


def _yield_cond(k, fn):
    return emit_def(k.name, k.params, [], ExprTr(_binds).bool(_analysis(fn).yield_cond()), "Bool")


register("C14", [
    Kernel("recon_write_lo", M, "MRIModelEngine.reconstruct_volumes", ["sc", "n", "vs"], "(fun sc _ _ => sc)", _lo, imports=IMP),
    Kernel("recon_write_hi", M, "MRIModelEngine.reconstruct_volumes", ["sc", "n", "vs"], "(fun sc n _ => sc + n)", _hi, imports=IMP),
    Kernel("recon_counter_next", M, "MRIModelEngine.reconstruct_volumes", ["sc", "n", "vs"], "(fun sc n _ => sc + n)",
           _counter, imports=IMP),
    Kernel("recon_yield_cond", M, "MRIModelEngine.reconstruct_volumes", ["sc", "n", "vs"], "(fun sc _ vs => sc == vs)",
           _yield_cond, ret_type="Bool", imports=IMP),
    Kernel("filename_guard", M, "_get_filename_from_batch", ["nset"], "(fun nset => nset != 1)",
           guard_condition({"len(set(filenames))": "nset"}, 0), ret_type="Bool", imports=IMP),
])


def loop_stages(fn: ast.FunctionDef) -> list[str]:
    """semantic facts of the volume part of the loop (c14_loop.Loop.stage_facts)"""
    return _analysis(fn).stage_facts()


def _is_logging(st) -> bool:
    return isinstance(st, ast.Expr) and isinstance(st.value, ast.Call) and \
        ast.unparse(st.value.func).startswith(("logger.", "self.logger.", "torch.cuda.", "logging."))


def process_stages(fn: ast.FunctionDef) -> list[str]:
    """`_process_output` as a decision tree over (scaling factors given?, rank 3/4?, resolution given?): what is returned"""
    from ..gen import REPO
    return c14_norm.decision_tree(fn.body, parse_file(REPO / M), ignore=_is_logging)


# ---- phase 2: outlines of the plumbing functions -----------------------------------------------------
def _exc(r: ast.Raise) -> str:
    e = r.exc
    if isinstance(e, ast.Call):
        e = e.func
    return "raise " + (ast.unparse(e) if e is not None else "")


def outline(stmts, ind="", keep=None) -> list[str]:
    """Source-order outline of assignments / returns / raises / control flow; expression statements
    (logging, docstrings) are ignored.  `keep` restricts plain assignments to the given names."""
    out = []
    for st in stmts:
        if isinstance(st, ast.Assign) and len(st.targets) == 1 and isinstance(st.targets[0], ast.Name):
            if keep is None or st.targets[0].id in keep:
                out.append(f"{ind}{st.targets[0].id}={ast.unparse(st.value)}")
        elif isinstance(st, ast.Assign):
            out.append(f"{ind}{ast.unparse(st.targets[0])}={ast.unparse(st.value)}")
        elif isinstance(st, ast.AugAssign):
            out.append(f"{ind}{ast.unparse(st)}")
        elif isinstance(st, ast.Return):
            out.append(f"{ind}return {ast.unparse(st.value) if st.value else ''}".rstrip())
        elif isinstance(st, ast.Raise):
            out.append(ind + _exc(st))
        elif isinstance(st, ast.If):
            out += _outline_if(st, ind, "if", keep)
        elif isinstance(st, ast.For):
            out.append(f"{ind}for {ast.unparse(st.target)} in {ast.unparse(st.iter)}")
            out += outline(st.body, ind + "  ", keep)
        elif isinstance(st, ast.With):
            out.append(f"{ind}with {', '.join(ast.unparse(i) for i in st.items)}")
            out += outline(st.body, ind + "  ", keep)
        elif isinstance(st, ast.Expr):
            if isinstance(st.value, ast.Call) and not ast.unparse(st.value.func).startswith(("logger.", "self.logger.", "torch.cuda.")) \
                    and not isinstance(st.value, ast.Constant):
                out.append(f"{ind}{ast.unparse(st.value)}")
        else:
            out.append(f"{ind}other:{type(st).__name__}")
    return out


def _outline_if(st: ast.If, ind, kw, keep):
    out = []
    if st.body and all(isinstance(b, ast.Raise) for b in st.body) :
        out.append(f"{ind}{kw} {ast.unparse(st.test)}[{_exc(st.body[0])}]")
    else:
        out.append(f"{ind}{kw} {ast.unparse(st.test)}")
        out += outline(st.body, ind + "  ", keep)
    if st.orelse:
        if len(st.orelse) == 1 and isinstance(st.orelse[0], ast.If):
            out += _outline_if(st.orelse[0], ind, "elif", keep)
        elif all(isinstance(b, ast.Raise) for b in st.orelse):
            out.append(f"{ind}else[{_exc(st.orelse[0])}]")
        else:
            out.append(f"{ind}else")
            out += outline(st.orelse, ind + "  ", keep)
    return out


def predict_facts(tree) -> list[str]:
    """what `Engine.predict` returns, with its temporaries resolved: one nested expression"""
    fn = find_function(tree, "Engine.predict")
    env = c14_norm.local_env(fn.body, fn)
    rets = [st for st in fn.body if isinstance(st, ast.Return)]
    if len(rets) != 1 or rets[0].value is None:
        raise Untranslatable("expected exactly one top-level return in Engine.predict")
    return ["return " + c14_norm.norm_expr(rets[0].value, env, tree)]


def loader_facts(tree) -> list[str]:
    fn = find_function(tree, "Engine.build_loader")
    calls = [n for n in ast.walk(fn) if isinstance(n, ast.Call) and ast.unparse(n.func) == "DataLoader"]
    if len(calls) != 1 or calls[0].args:
        raise Untranslatable("expected exactly one keyword-only `DataLoader(...)` call")
    rets = [n for n in ast.walk(fn) if isinstance(n, ast.Return)]
    env = c14_norm.local_env(fn.body, fn)
    if len(rets) != 1 or c14_norm.norm_expr(rets[0].value, env, tree) != c14_norm.norm_expr(calls[0], env, tree):
        raise Untranslatable("build_loader does not return the DataLoader it builds")
    return sorted(f"{k.arg}={ast.unparse(k.value)}" for k in calls[0].keywords)


def dispatch_facts(tree) -> list[str]:
    return c14_norm.decision_tree(find_function(tree, "Engine.build_batch_sampler").body, tree, ignore=_is_logging)


def resolution_facts(tree) -> list[str]:
    return c14_norm.decision_tree(find_function(tree, "_compute_resolution").body, tree, ignore=_is_logging)


def writer_facts(tree) -> list[str]:
    """`write_output_to_h5`: per tuple of `output` — which file is opened in which mode, what is stored under which key"""
    fn = find_function(tree, "write_output_to_h5")
    out = []
    loops = [st for st in fn.body if isinstance(st, ast.For)]
    if len(loops) != 1:
        raise Untranslatable("expected one loop over `output`")
    loop = loops[0]
    for st in fn.body:
        if st is loop:
            break
        if isinstance(st, ast.If):
            out += [f"before the loop, if {c14_norm.norm_expr(st.test)}: {c14_norm.norm_expr(s.value)}" for s in st.body
                    if isinstance(s, ast.Expr) and not _is_logging(s)]
        elif not isinstance(st, ast.Expr):
            out.append("before the loop: " + ast.unparse(st)[:80])
    # the element of `output` bound per iteration (an `enumerate` counter is only used for logging)
    it, tgt = loop.iter, loop.target
    if isinstance(it, ast.Call) and ast.unparse(it.func) == "enumerate" and isinstance(tgt, ast.Tuple) and len(tgt.elts) == 2:
        it, tgt = it.args[0], tgt.elts[1]
    out.append(f"for {ast.unparse(tgt)} in {ast.unparse(it)}")
    env = {}
    for st in loop.body:
        if _is_logging(st):
            continue
        if isinstance(st, ast.Assign) and len(st.targets) == 1 and isinstance(st.targets[0], ast.Name):
            n = st.targets[0].id
            cnt = c14_norm.assigned_names(fn).get(n, 0)
            if cnt == 1:
                env[n] = st.value                       # a temporary (e.g. the output path): substituted where used
            else:
                out.append(f"  {n}={c14_norm.norm_expr(st.value, env, tree)}")
        elif isinstance(st, ast.If):
            for s in st.body:
                if isinstance(s, ast.Assign):
                    out.append(f"  if {c14_norm.norm_expr(st.test, env, tree)}: "
                               f"{ast.unparse(s.targets[0])}={c14_norm.norm_expr(s.value, env, tree)}")
                elif not _is_logging(s):
                    out.append(f"  if {c14_norm.norm_expr(st.test, env, tree)}: {ast.unparse(s)[:80]}")
            if st.orelse:
                out.append("  else: " + ast.unparse(st.orelse[0])[:80])
        elif isinstance(st, ast.With):
            out.append("  with " + ", ".join(c14_norm.norm_expr(i.context_expr, env, tree) for i in st.items))
            out += ["    " + c14_norm.norm_expr(s.value, env, tree) if isinstance(s, ast.Expr) else "    " + ast.unparse(s)[:80]
                    for s in st.body if not _is_logging(s)]
        elif isinstance(st, (ast.Continue, ast.Break, ast.Return)):
            out.append("  " + type(st).__name__.lower())
        else:
            out.append("  other: " + ast.unparse(st)[:80])
    names = [a.arg for a in fn.args.args]
    defaults = dict(zip(names[len(names) - len(fn.args.defaults):], fn.args.defaults))
    for k in ("output_key", "create_dirs_if_needed", "volume_processing_func"):
        if k in defaults:
            out.append(f"default {k}={ast.unparse(defaults[k])}")
    return out


PLUMBING = (
    ("predict_facts", "direct/engine.py", predict_facts, "Recon.expectedPredictFacts"),
    ("loader_facts", "direct/engine.py", loader_facts, "Recon.expectedLoaderFacts"),
    ("sampler_dispatch", "direct/engine.py", dispatch_facts, "Recon.expectedSamplerDispatch"),
    ("resolution_facts", M, resolution_facts, "Recon.expectedResolutionFacts"),
    ("writer_facts", "direct/utils/writers.py", writer_facts, "Recon.expectedWriterFacts"),
)


def _strs(xs):
    return "[" + ",\n   ".join('"' + x.replace("\\", "\\\\").replace('"', '\\"') + '"' for x in xs) + "]"


def _c14_extra():
    from ..gen import REPO

    status, parts = {}, []
    for name, qual, fnc, fb in (("recon_loop_stages", "MRIModelEngine.reconstruct_volumes", loop_stages, "Recon.expectedLoopStages"),
                                ("process_stages", "_process_output", process_stages, "Recon.expectedProcessStages")):
        try:
            fn = find_function(parse_file(REPO / M), qual)
            parts.append(f"/-- read from `{M}`:`{qual}` -/\ndef {name} : List String :=\n  {_strs(fnc(fn))}\n")
            status[name] = "translated"
        except Untranslatable as e:
            parts.append(f"/-- SKIPPED ({e}) -/\ndef {name} : List String := {fb}\n")
            status[name] = f"skipped: {e}"
    for name, file, fnc, fb in PLUMBING:
        try:
            facts = fnc(parse_file(REPO / file))
            parts.append(f"/-- read from `{file}` -/\ndef {name} : List String :=\n  {_strs(facts)}\n")
            status[name] = "translated"
        except Untranslatable as e:
            parts.append(f"/-- SKIPPED ({e}) -/\ndef {name} : List String := {fb}\n")
            status[name] = f"skipped: {e}"
    return "\n".join(parts), status


EXTRA["C14"] = _c14_extra


# ---- phase 3: what the loop reads, target / loss-list statements, state written, callers ---------------------
def _parents(tree):
    par = {}
    for n in ast.walk(tree):
        for c in ast.iter_child_nodes(n):
            par[c] = n
    return par


def _reads_of(stmts, var="data") -> list[str]:
    """how the dict `var` is used in `stmts`: keys subscripted / `.get`, calls receiving the whole dict"""
    out = set()
    mod = ast.Module(body=list(stmts), type_ignores=[])
    par = _parents(mod)
    for n in ast.walk(mod):
        if not (isinstance(n, ast.Name) and n.id == var):
            continue
        if isinstance(n.ctx, ast.Del):
            continue
        p = par.get(n)
        if isinstance(n.ctx, ast.Store):
            if not isinstance(p, ast.Tuple):         # `for _, data in enumerate(...)` binds it
                out.add(f"rebinds {var}: {ast.unparse(p)[:80]}")
            continue
        if isinstance(p, ast.Subscript) and p.value is n:
            if isinstance(par.get(p), (ast.Assign, ast.AugAssign, ast.Delete)) and isinstance(p.ctx, (ast.Store, ast.Del)):
                out.add(f"writes {var}[{ast.unparse(p.slice)}]")
            else:
                out.add(f"{var}[{ast.unparse(p.slice)}]")
        elif isinstance(p, ast.Attribute) and p.value is n:
            call = par.get(p)
            if p.attr == "get" and isinstance(call, ast.Call) and call.args:
                out.add(f"{var}.get({ast.unparse(call.args[0])})")
            else:
                out.add(f"{var}.{p.attr}")
        elif isinstance(p, ast.Call):
            out.add("call " + ast.unparse(p))
        elif isinstance(p, ast.keyword) and isinstance(par.get(p), ast.Call):
            out.add("call " + ast.unparse(par.get(p)))
        else:
            out.add(f"other use of {var}: {ast.unparse(p)[:80]}")
    return sorted(out)


def loop_reads(tree) -> list[str]:
    """keys of the batch read by the loop body — directly or inside private module-level helpers the batch is handed to
    (followed transitively, whatever they are called) — and the calls that receive the whole batch otherwise"""
    fn = find_function(tree, "MRIModelEngine.reconstruct_volumes")
    out, todo, seen = set(), [(_loop(fn).body, "data")], set()
    while todo:
        stmts, var = todo.pop()
        for r in _reads_of(stmts, var):
            if r.startswith("call "):
                call = ast.parse(r[5:], mode="eval").body
                f = ast.unparse(call.func)
                if "." not in f and f.startswith("_") and f not in seen:
                    try:
                        helper = find_function(tree, f)
                    except Untranslatable:
                        helper = None
                    if helper is not None:
                        # which parameter receives the batch
                        params = [a.arg for a in helper.args.args]
                        pos = [i for i, a in enumerate(call.args) if isinstance(a, ast.Name) and a.id == var]
                        kw = [k.arg for k in call.keywords if isinstance(k.value, ast.Name) and k.value.id == var]
                        names = [params[i] for i in pos if i < len(params)] + kw
                        if len(names) == 1:
                            seen.add(f)
                            todo.append((helper.body, names[0]))
                            continue
                out.add(r.replace(f"({var}", "(data") if var != "data" else r)
            else:
                out.add(r.replace(var, "data", 1) if var != "data" else r)
    return sorted(out)


def target_facts(tree) -> list[str]:
    """semantic facts of the target / loss-list / yield part of the loop (c14_loop.Loop.target_facts)"""
    return c14_loop.Loop(find_function(tree, "MRIModelEngine.reconstruct_volumes"), tree).target_facts()


STATE_FUNCS = (
    (M, "MRIModelEngine.reconstruct_volumes"), (M, "MRIModelEngine.evaluate"), (M, "_process_output"),
    (M, "_compute_resolution"), (M, "_get_filename_from_batch"), ("direct/engine.py", "Engine.predict"),
    ("direct/engine.py", "Engine.build_loader"), ("direct/engine.py", "Engine.build_batch_sampler"),
    ("direct/utils/writers.py", "write_output_to_h5"),
)


def _root(n):
    while isinstance(n, (ast.Attribute, ast.Subscript)):
        n = n.value
    return n.id if isinstance(n, ast.Name) else None


def state_writes_of(fn) -> list[str]:
    """stores that outlive the call: attributes / items of `self`, of parameters' attributes are NOT counted (outputs are
    returned); of names that are neither parameters nor locals (module globals, class attributes); global / nonlocal"""
    params = {a.arg for a in fn.args.args + fn.args.kwonlyargs} | ({fn.args.vararg.arg} if fn.args.vararg else set()) \
        | ({fn.args.kwarg.arg} if fn.args.kwarg else set())
    local = set(params)
    for n in ast.walk(fn):
        if isinstance(n, ast.Name) and isinstance(n.ctx, ast.Store):
            local.add(n.id)
        elif isinstance(n, (ast.FunctionDef, ast.ClassDef)) and n is not fn:
            local.add(n.name)
    out = set()
    for n in ast.walk(fn):
        if isinstance(n, (ast.Global, ast.Nonlocal)):
            out |= {f"global {x}" for x in n.names}
        elif isinstance(n, (ast.Attribute, ast.Subscript)) and isinstance(n.ctx, (ast.Store, ast.Del)):
            r = _root(n)
            if r == "self" or (r is not None and r not in local):
                out.add(ast.unparse(n) if isinstance(n, ast.Attribute) else ast.unparse(n.value) + "[…]")
        elif isinstance(n, ast.Call) and isinstance(n.func, ast.Name) and n.func.id == "setattr" and n.args:
            if _root(n.args[0]) == "self":
                out.add("setattr(self)")
    return sorted(out)


def _helper_calls(fn, tree, cls) -> list[ast.FunctionDef]:
    """private helpers of the same module / class that `fn` calls (`_f(...)`, `self._m(...)`, `Cls._m(...)`)"""
    out = []
    for n in ast.walk(fn):
        if not isinstance(n, ast.Call):
            continue
        f = ast.unparse(n.func)
        base = f.split(".")[-1]
        if not base.startswith("_") or base.startswith("__"):
            continue
        try:
            if "." not in f:
                out.append(find_function(tree, f))
            elif cls and f.split(".")[0] in ("self", "cls", cls):
                out.append(find_function(tree, f"{cls}.{base}"))
        except Untranslatable:
            pass
    return out


def state_writes(_tree=None) -> list[tuple[str, list[str]]]:
    """per function of the reconstruction path: what it (or a private helper it calls, transitively) stores outside locals"""
    from ..gen import REPO

    out = []
    for file, qual in STATE_FUNCS:
        tree = parse_file(REPO / file)
        cls = qual.split(".")[0] if "." in qual else None
        seen, todo, writes = set(), [find_function(tree, qual)], set()
        while todo:
            fn = todo.pop()
            if id(fn) in seen or fn.name == "_do_iteration":        # the model call itself is the model's business
                continue
            seen.add(id(fn))
            writes |= set(state_writes_of(fn))
            todo += _helper_calls(fn, tree, cls)
        out.append((qual, sorted(writes)))
    return out


def _exits(loop) -> str:
    """break / continue / return statements inside a loop body (they would skip volumes or batches)"""
    found = []
    for st in loop.body:
        for n in ast.walk(st):
            if isinstance(n, (ast.Break, ast.Continue, ast.Return)):
                found.append(f"{type(n).__name__.lower()}@+{n.lineno - loop.lineno}")
    return "none" if not found else " ".join(found)


def _call_of(node, suffix):
    for n in ast.walk(node):
        if isinstance(n, ast.Call) and ast.unparse(n.func).endswith(suffix):
            return n
    return None


def caller_facts(_tree=None) -> list[str]:
    """who consumes the generator and how (temporaries resolved, names of locals irrelevant):
    evaluate: the call it iterates, arity of the unpacked tuple, which component keys the metrics, which is appended to the
    losses, no early exit; validation_loop: per dataset `self.evaluate(<loader expression>, loss_fns)` with the loader and
    batch-sampler construction inlined; direct/inference.py: the predict call and the writer call; all call sites."""
    from ..gen import REPO

    out = []
    mt = parse_file(REPO / M)
    rv = find_function(mt, "MRIModelEngine.reconstruct_volumes")
    out.append("reconstruct_volumes: early exits in the loop over the batches: " + _exits(_loop(rv)))
    ev = find_function(mt, "MRIModelEngine.evaluate")
    for st in ast.walk(ev):
        if isinstance(st, ast.For) and "reconstruct_volumes" in ast.unparse(st.iter):
            call = _call_of(st.iter, ".reconstruct_volumes")
            out.append("evaluate: iterates " + c14_norm.norm_expr(call, c14_norm.local_env(ev.body, ev), mt))
            out.append("evaluate: early exits in the loop over the volumes: " + _exits(st))
            # the element bound per iteration (an `enumerate` counter is irrelevant)
            elem = st.target.elts[1] if isinstance(st.iter, ast.Call) and ast.unparse(st.iter.func) == "enumerate" \
                and isinstance(st.target, ast.Tuple) else st.target
            comp = {}
            if isinstance(elem, ast.Tuple):
                comp = {e.id: i for i, e in enumerate(elem.elts) if isinstance(e, ast.Name)}
            for s in st.body:
                if isinstance(s, ast.Assign) and isinstance(s.targets[0], ast.Tuple) and isinstance(s.value, ast.Name) \
                        and isinstance(elem, ast.Name) and s.value.id == elem.id:
                    comp = {e.id: i for i, e in enumerate(s.targets[0].elts) if isinstance(e, ast.Name)}
            out.append(f"evaluate: the yielded tuple has {len(comp)} components")

            def pos(e):
                class R(ast.NodeTransformer):
                    def visit_Name(self, n):
                        return ast.Name(id=f"yielded[{comp[n.id]}]", ctx=n.ctx) if n.id in comp else n
                import copy
                return ast.unparse(R().visit(copy.deepcopy(e)))
            for s in st.body:
                if isinstance(s, ast.Assign) and isinstance(s.targets[0], ast.Subscript) and "metrics" in ast.unparse(s.targets[0].value):
                    out.append(f"evaluate: per-volume metrics keyed by {pos(s.targets[0].slice)}")
                elif isinstance(s, ast.Expr) and isinstance(s.value, ast.Call) and ast.unparse(s.value.func).endswith("losses.append"):
                    out.append(f"evaluate: losses collect {pos(s.value.args[0])}")
    et = parse_file(REPO / "direct/engine.py")
    vl = find_function(et, "Engine.validation_loop")
    for st in ast.walk(vl):
        if isinstance(st, ast.For) and "validation_datasets" in ast.unparse(st.iter):
            out.append("validation_loop: early exits in the loop over the datasets: " + _exits(st))
            env = c14_norm.local_env(st.body, vl)
            env = {k: v for k, v in env.items() if k != ast.unparse(st.target)}
            call = _call_of(ast.Module(body=st.body, type_ignores=[]), "self.evaluate")
            if call is None:
                raise Untranslatable("validation_loop does not call self.evaluate")
            txt = c14_norm.norm_expr(call, env, et).replace(ast.unparse(st.target), "DATASET")
            out.append("validation_loop: per DATASET in validation_datasets: " + txt)
    inf = parse_file(REPO / "direct/inference.py")
    fn = find_function(inf, "inference_on_environment")
    call = _call_of(fn, ".predict")
    out.append("inference_on_environment: " + (c14_norm.norm_expr(call, None, inf) if call is not None else "no predict call"))
    fn = find_function(inf, "setup_inference_save_to_h5")
    for st in ast.walk(fn):
        if isinstance(st, ast.Assign) and ast.unparse(st.targets[0]) == "(batch_size, crop)":
            out.append(f"setup_inference_save_to_h5: (batch_size, crop)={ast.unparse(st.value)}")
    for suffix in ("inference_on_environment", "write_output_to_h5"):
        call = _call_of(fn, suffix)
        out.append("setup_inference_save_to_h5: " + (c14_norm.norm_expr(call, None, inf) if call is not None else f"no {suffix} call"))
    # every call of reconstruct_volumes / write_output_to_h5 / predict in the package
    sites = []
    for p in sorted((REPO / "direct").rglob("*.py")):
        try:
            t = parse_file(p)
        except Exception:  # noqa: BLE001
            continue
        for n in ast.walk(t):
            if isinstance(n, ast.Call):
                f = ast.unparse(n.func)
                if f.endswith(".reconstruct_volumes") or f.endswith("write_output_to_h5") or f.endswith("engine.predict"):
                    sites.append(f"site {p.relative_to(REPO)}: {f}")
    return out + sorted(set(sites))


def _pairs(xs):
    return "[" + ",\n   ".join('("' + a + '", [' + ", ".join('"' + w.replace('"', '\\"') + '"' for w in ws) + "])" for a, ws in xs) + "]"


_prev_extra = EXTRA["C14"]


def _c14_extra3():
    from ..gen import REPO

    text, status = _prev_extra()
    parts = [text]
    for name, fnc, fb, kind in (
        ("recon_loop_reads", lambda: loop_reads(parse_file(REPO / M)), "Recon.expectedLoopReads", "strs"),
        ("recon_target_facts", lambda: target_facts(parse_file(REPO / M)), "Recon.expectedTargetFacts", "strs"),
        ("recon_state_writes", state_writes, "Recon.expectedStateWrites", "pairs"),
        ("recon_caller_facts", caller_facts, "Recon.expectedCallerFacts", "strs"),
    ):
        ty = "List String" if kind == "strs" else "List (String × List String)"
        try:
            v = fnc()
            parts.append(f"/-- read from the source (phase 3) -/\ndef {name} : {ty} :=\n  {_strs(v) if kind == 'strs' else _pairs(v)}\n")
            status[name] = "translated"
        except (Untranslatable, SyntaxError, OSError, AttributeError, IndexError) as e:
            parts.append(f"/-- SKIPPED ({type(e).__name__}: {e}) -/\ndef {name} : {ty} := {fb}\n")
            status[name] = f"skipped: {e}"
    return "\n".join(parts), status


EXTRA["C14"] = _c14_extra3


# ---- phase 4: the 3-D branch of `MRIModelEngine.evaluate` (slice and time axes merged before the metrics) -------------
def _eval3d(tree):
    """(If node of the ndim == 3 branch, {python dim name -> d<i>}, VOL name, TGT name, loop body) of `evaluate`"""
    fn = find_function(tree, "MRIModelEngine.evaluate")
    loop = next(st for st in ast.walk(fn) if isinstance(st, ast.For) and "reconstruct_volumes" in ast.unparse(st.iter))
    unpack = next(st for st in loop.body if isinstance(st, ast.Assign) and isinstance(st.targets[0], ast.Tuple)
                  and isinstance(st.value, ast.Name))
    names = [e.id for e in unpack.targets[0].elts]
    vol, tgt = names[0], names[1]
    br = next(st for st in loop.body if isinstance(st, ast.If) and ast.unparse(st.test) == "self.ndim == 3")
    shp = next(st for st in br.body if isinstance(st, ast.Assign) and isinstance(st.targets[0], ast.Tuple)
               and ast.unparse(st.value) == f"{vol}.shape")
    dims = {e.id: f"d{i}" for i, e in enumerate(shp.targets[0].elts)}
    return br, dims, vol, tgt, loop


def _reshape_call(br, src):
    """the `<src>.clone().transpose(a, b).reshape(...)` call assigned in the branch -> (assigned name, transpose args, reshape args)"""
    for st in br.body:
        if isinstance(st, ast.Assign) and isinstance(st.value, ast.Call) and isinstance(st.value.func, ast.Attribute) \
                and st.value.func.attr in ("reshape", "view") and ast.unparse(st.value).startswith(src + "."):
            inner = st.value.func.value
            if not (isinstance(inner, ast.Call) and isinstance(inner.func, ast.Attribute) and inner.func.attr == "transpose"
                    and ast.unparse(inner.func.value) == f"{src}.clone()"):
                raise Untranslatable(f"unexpected chain `{ast.unparse(st.value)}`")
            args = st.value.args
            if len(args) == 1 and isinstance(args[0], (ast.Tuple, ast.List)):
                args = args[0].elts
            return st.targets[0].id, [ast.unparse(a) for a in inner.args], list(args)
    raise Untranslatable(f"no reshape of {src} in the ndim == 3 branch")


def _eval3d_rows(k, _fn):
    from ..gen import REPO
    br, dims, vol, _tgt, _loop = _eval3d(parse_file(REPO / M))
    _name, _tr, args = _reshape_call(br, vol)
    return emit_def(k.name, k.params, [], ExprTr(dims).int(args[0]))


def eval3d_facts(tree=None) -> list[str]:
    from ..gen import REPO
    br, dims, vol, tgt, loop = _eval3d(tree or parse_file(REPO / M))
    out = [f"dims of VOL.shape: {len(dims)}"]
    ren = {}
    for src, role in ((vol, "VOL"), (tgt, "TGT")):
        name, tr, args = _reshape_call(br, src)
        ren[name] = "EVAL_" + role
        tr_e = ExprTr(dims)
        out.append(f"ndim == 3: EVAL_{role}={role}.clone().transpose({', '.join(tr)}).reshape(" +
                   ", ".join(["ROWS" if tr_e.int(args[0]) in ("(d0 * d2)", "(d2 * d0)") else tr_e.int(args[0])] +
                             [tr_e.int(a) for a in args[1:]]) + ")")
    for st in br.orelse:
        if isinstance(st, ast.Assign) and isinstance(st.targets[0], ast.Name):
            v = ast.unparse(st.value).replace(vol, "VOL").replace(tgt, "TGT")
            out.append(f"otherwise: {ren.get(st.targets[0].id, st.targets[0].id)}={v}")
    for st in loop.body:
        for c in ast.walk(st):
            if isinstance(c, ast.Call) and ast.unparse(c.func) == "metric_fn":
                out.append("metric_fn(" + ", ".join(ren.get(ast.unparse(a), ast.unparse(a)) for a in c.args) + ")")
    return out


register("C14", [
    Kernel("eval3d_rows", M, "MRIModelEngine.evaluate", ["d0", "d1", "d2", "d3", "d4"], "(fun d0 _ d2 _ _ => d0 * d2)",
           _eval3d_rows, imports=IMP),
])

_prev_extra4 = EXTRA["C14"]


def _c14_extra4():
    text, status = _prev_extra4()
    try:
        v = eval3d_facts()
        text += f"\n/-- read from `MRIModelEngine.evaluate` (phase 4) -/\ndef eval3d_facts : List String :=\n  {_strs(v)}\n"
        status["eval3d_facts"] = "translated"
    except (Untranslatable, SyntaxError, OSError, AttributeError, IndexError, StopIteration) as e:
        text += f"\n/-- SKIPPED ({type(e).__name__}: {e}) -/\ndef eval3d_facts : List String := Recon.expectedEval3dFacts\n"
        status["eval3d_facts"] = f"skipped: {e}"
    return text, status


EXTRA["C14"] = _c14_extra4
