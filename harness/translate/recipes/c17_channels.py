"""C17: translate the `forward` methods of the denoisers into *channel programs* (`List Shapes.COp`).

Same abstract interpreter as `c17_forward.py` (the AST of the real `forward` source is walked statement by statement on a
really instantiated module, Python control flow over concrete values is executed, repo sub-modules are inlined), but the
abstract tensors carry their **channel count** instead of a symbolic spatial shape:

* `nn.Conv*d` / `nn.ConvTranspose*d` emit `.conv cin cout` with the channel counts *of the instantiated layer* (the
  register machine of `Model/Shapes.lean` checks `cin` against the running count, so a wrong width in `__init__` makes
  the program fail / differ); `nn.BatchNorm*d` emits `.bnorm c`; `DWT`, `IWT`, `PixelShuffle` emit `.dwt`, `.iwt r`,
  `.shuffle r`;
* `torch.cat([...], dim=1)` emits `.cat [d₁, …]` and `a + b` (`*`, `-`) of two tensors emits `.add d`, where the `dᵢ` are
  the register indices (0 = most recently saved) of the operands that are not the running tensor; a tensor that is used
  later as such an operand is saved (`.save`) immediately after the operation that produced it (inputs: at the start);
  a layer applied to a tensor that is not the running one is preceded by `.load d`; after its last use a register is
  forgotten (`.drop d`), so every program leaves the register file as it found it;
* a hooked block returning emits `.emit` (the same hook points as the spatial program, so the two traces zip into the full
  `(N, C, *spatial)` shapes observed by the forward hooks);
* everything that keeps the channel count (activations, instance norm, dropout, padding, cropping, spatial slicing,
  group normalisation) is transparent.

Two passes: the first determines which tensors must be saved, the second emits.
"""
from __future__ import annotations

import ast

from ..pyexpr import Untranslatable
from .c17_forward import Opaque, PadSpec, ShapeDim, Symbolic, Tok, Tracer, _Ne


class CTok(Tok):
    """abstract tensor: channel count `ch`, identity of the operation that produced it (`cid`)"""

    def __init__(self, ch, cid):
        super().__init__(0, 0, -1)
        self.ch, self.cid = ch, cid


class CTracer(Tracer):
    def __init__(self, hooked=(), needed=None):
        super().__init__(hooked)
        self.ops = []               # Lean `COp` terms
        self.ncid = 0
        self.ccur = None            # cid of the running tensor
        self.needed = needed        # None: first pass (collect); set: second pass (emit saves)
        self.uses = {}              # cid -> number of uses as a non-running operand / loaded
        self.saved = []             # cids in save order

    # ---- tokens
    def _new(self, ch, arg=False):
        self.ncid += 1
        t = CTok(ch, self.ncid)
        if arg:
            self.ops.append(f".arg {ch}")      # a further tensor argument becomes the running tensor
        self.ccur = t.cid
        if self.needed is not None and t.cid in self.needed:
            self.ops.append(".save")
            self.saved.append(t.cid)
        return t

    def new_input(self, ch=None):
        t = self._new(ch, arg=bool(self.inputs))
        self.inputs.append(t)
        if self.cur is None:
            self.cur = t
        return t

    def _derived(self, tok):
        return CTok(tok.ch, tok.cid)

    def _regs(self, toks):
        """register indices (0 = most recently saved) of `toks`, counted as one use each"""
        out = []
        for tok in toks:
            self.uses[tok.cid] = self.uses.get(tok.cid, 0) + 1
            if self.needed is None:
                out.append(0)
                continue
            if tok.cid not in self.saved:
                raise Untranslatable("operand was never saved (two passes disagree)")
            out.append(len(self.saved) - 1 - self.saved.index(tok.cid))
        return out

    def _drop_dead(self, toks):
        """after the operation: forget the registers that are not used again"""
        if self.needed is None:
            return
        for tok in toks:
            if tok.cid in self.saved and self.uses.get(tok.cid, 0) >= self.needed.get(tok.cid, 0):
                idx = len(self.saved) - 1 - self.saved.index(tok.cid)
                self.ops.append(f".drop {idx}")
                self.saved.remove(tok.cid)

    def _make_current(self, tok):
        if tok.cid != self.ccur:
            (r,) = self._regs([tok])
            self.ops.append(f".load {r}")
            self.ccur = tok.cid
            self._drop_dead([tok])

    def _cop(self, op, tok, ch_out):
        self._make_current(tok)
        self.ops.append(op)
        return self._new(ch_out)

    # spatial operations are transparent
    def _emit_op(self, ops, tok_in, new_base=True, doff=0):
        return self._derived(tok_in)

    def same(self, a, b):           # element-wise combination of two tensors
        if a.cid == b.cid:
            return self._derived(a)
        if b.cid == self.ccur:
            cur, other = b, a
        else:
            cur, other = a, b
            self._make_current(cur)
        (r,) = self._regs([other])
        self.ops.append(f".add {r}")
        self._drop_dead([other])
        return self._derived(cur)

    def _cat(self, items):
        cur = next((t for t in items if t.cid == self.ccur), None)
        if cur is None:
            cur = items[-1]
            self._make_current(cur)
        others = [t for t in items if t is not cur]
        regs = self._regs(others)
        self.ops.append(".cat [" + ", ".join(str(r) for r in regs) + "]")
        self._drop_dead(others)
        return self._new(sum(t.ch for t in items))

    # ---- torch layers
    def call_module(self, mod, args, kwargs):
        import torch.nn as nn

        name = type(mod).__name__
        x = args[0] if args else None
        if isinstance(mod, nn.Sequential):
            for child in mod:
                x = self.call_module(child, [x], {})
            out = x
        elif isinstance(mod, (nn.Conv2d, nn.Conv3d, nn.ConvTranspose2d, nn.ConvTranspose3d)):
            if mod.groups != 1:
                raise Untranslatable("grouped convolution")
            out = self._cop(f".conv {mod.in_channels} {mod.out_channels}", x, mod.out_channels)
        elif isinstance(mod, (nn.BatchNorm2d, nn.BatchNorm3d)):
            self._make_current(x)
            self.ops.append(f".bnorm {mod.num_features}")
            out = self._derived(x)
        elif isinstance(mod, nn.PixelShuffle):
            r = int(mod.upscale_factor)
            out = self._cop(f".shuffle {r}", x, x.ch // (r * r))
        elif type(mod).__module__.startswith("torch."):
            if isinstance(mod, (nn.InstanceNorm1d, nn.InstanceNorm2d, nn.InstanceNorm3d, nn.ReplicationPad2d, nn.ReplicationPad3d,
                                nn.Dropout, nn.Dropout2d, nn.Dropout3d, nn.Identity)) \
                    or type(mod).__module__.startswith("torch.nn.modules.activation"):
                out = self._derived(x)
            else:
                raise Untranslatable(f"torch layer {name} is not in the vocabulary")
        elif name == "DWT":
            out = self._cop(".dwt", x, 4 * x.ch)
        elif name == "IWT":
            r = int(mod._r)
            out = self._cop(f".iwt {r}", x, x.ch // (r * r))
        else:
            out = self.inline(mod, "forward", args, kwargs)
        if id(mod) in self.hooked:
            first = out[0] if isinstance(out, (tuple, list)) and out else out
            if isinstance(first, CTok):
                self._make_current(first)
            self.ops.append(".emit")
        return out

    def primitive(self, cls, meth, obj, args, kwargs):
        if meth == "norm" and cls in ("NormUnetModel2d", "NormUnetModel3d", "NormConv2dGRU"):
            return (self._derived(args[0]), Opaque("mean"), Opaque("std"))
        if meth == "unnorm" and cls in ("NormUnetModel2d", "NormUnetModel3d", "NormConv2dGRU"):
            return self._derived(args[0])
        if meth == "pad" and cls in ("NormUnetModel2d", "NormUnetModel3d"):
            return (self._derived(args[0]), Opaque("pad16sizes"))
        if meth == "unpad" and cls in ("NormUnetModel2d", "NormUnetModel3d"):
            return self._derived(args[0])
        if meth == "pad" and cls in ("MWCNN", "DUB"):
            return self._derived(args[0])
        if meth == "crop_to_shape" and cls in ("MWCNN", "DUB", "DIDN"):
            return self._derived(args[0])
        return NotImplemented

    @staticmethod
    def _domain_transform(node):
        """the multi-domain idiom `torch.cat([op(t, dim=…) for t in torch.split(X.permute(0, 2, 3, 1).contiguous(), 2, -1)],
        dim=-1).permute(0, 3, 1, 2)` (a shape-preserving operator applied to every complex pair of channels, channels moved
        last and back): the AST node of `X`, else None"""
        if not (isinstance(node.func, ast.Attribute) and node.func.attr == "permute"
                and [ast.unparse(a) for a in node.args] == ["0", "3", "1", "2"]):
            return None
        cat = node.func.value
        if not (isinstance(cat, ast.Call) and ast.unparse(cat.func) in ("torch.cat", "torch.concatenate", "torch.concat")):
            return None
        kw = {k.arg: k.value for k in cat.keywords}
        lst = kw.get("tensors", cat.args[0] if cat.args else None)
        dim = kw.get("dim", cat.args[1] if len(cat.args) > 1 else None)
        if not isinstance(lst, ast.ListComp) or dim is None or ast.unparse(dim) != "-1" or len(lst.generators) != 1:
            return None
        g = lst.generators[0]
        it, elt = g.iter, lst.elt
        if g.ifs or not (isinstance(it, ast.Call) and ast.unparse(it.func) == "torch.split" and len(it.args) == 3
                         and [ast.unparse(a) for a in it.args[1:]] == ["2", "-1"]):
            return None
        if not (isinstance(elt, ast.Call) and elt.args and isinstance(elt.args[0], ast.Name) and isinstance(g.target, ast.Name)
                and elt.args[0].id == g.target.id and ast.unparse(elt.func) in ("self.forward_operator", "self.backward_operator")):
            return None
        src = it.args[0]
        if isinstance(src, ast.Call) and isinstance(src.func, ast.Attribute) and src.func.attr == "contiguous" and not src.args:
            src = src.func.value
        if not (isinstance(src, ast.Call) and isinstance(src.func, ast.Attribute) and src.func.attr == "permute"
                and [ast.unparse(a) for a in src.args] == ["0", "2", "3", "1"]):
            return None
        return src.func.value

    def call(self, node, env, glob):
        src = self._domain_transform(node)
        if src is not None:
            tok = self.eval(src, env, glob)
            if not isinstance(tok, CTok):
                raise Untranslatable("domain transform of something that is not a tensor")
            return self._derived(tok)
        ftxt = ast.unparse(node.func)
        if ftxt in ("torch.cat", "torch.concatenate", "torch.concat"):
            args = [self.eval(a, env, glob) for a in node.args]
            kwargs = {k.arg: self.eval(k.value, env, glob) for k in node.keywords if k.arg}
            items = list(args[0])
            dim = kwargs.get("dim", args[1] if len(args) > 1 else 0)
            if dim != 1 or not all(isinstance(t, CTok) for t in items):
                raise Untranslatable("torch.cat not along the channel axis")
            return self._cat(items)
        if ftxt == "F.pad":
            return self._derived(self.eval(node.args[0], env, glob))
        if ftxt == "pad_to_pow_of_2":
            args = [self.eval(a, env, glob) for a in node.args]
            return (self._derived(args[0]), Opaque("pow2pads", k=int(args[1])))
        return super().call(node, env, glob)

    def exec_if(self, st, env, glob):
        # the conditional reflect-pad / un-pad idioms of the U-Nets and the odd-size pads are channel neutral: a condition
        # that is not concrete only guards such statements; execute the body (assignments of derived tensors / list writes)
        try:
            cond = self.eval(st.test, env, glob)
        except Symbolic:
            cond = None
        if cond is not None and not isinstance(cond, (Tok, Opaque, ShapeDim, PadSpec, _Ne)):
            self.exec_block(st.body if cond else st.orelse, env, glob)
            return
        if st.orelse:
            raise Untranslatable(f"symbolic condition with an else branch `{ast.unparse(st.test)[:50]}`")
        for b in st.body:
            if isinstance(b, ast.Assign) and isinstance(b.targets[0], ast.Subscript):
                continue                                  # `padding[i] = 1`
            if isinstance(b, ast.Assign) and isinstance(b.targets[0], ast.Name) and isinstance(b.value, ast.Subscript):
                # `output = output[:, :, a:b, c:d, e:f]`: spatial slicing of the same tensor, batch and channel axes untouched
                base = self.eval(b.value.value, env, glob)
                elts = b.value.slice.elts if isinstance(b.value.slice, ast.Tuple) else [b.value.slice]
                full = [isinstance(e, ast.Slice) and e.lower is None and e.upper is None and e.step is None for e in elts]
                if not (isinstance(base, CTok) and env.get(b.targets[0].id) is not None and len(full) >= 2 and full[0] and full[1]
                        and isinstance(env[b.targets[0].id], CTok) and env[b.targets[0].id].cid == base.cid):
                    raise Untranslatable("symbolic condition guards a channel-changing statement")
                continue
            raise Untranslatable(f"symbolic condition guards `{ast.unparse(b)[:50]}`")


def trace_channels(module, in_channels, n_inputs=1, hooked=(), state_channels=None):
    """Channel program of `module.forward(x[, state])` as a list of Lean `COp` terms (strings)."""

    def run(needed):
        tr = CTracer(hooked, needed)
        x = tr.new_input(in_channels)
        args = [x]
        for _ in range(n_inputs - 1):
            args.append(tr.new_input(state_channels))
        tr.call_module(module, args, {})
        return tr

    first = run(None)
    second = run(dict(first.uses))
    if second.uses != first.uses or second.saved:
        raise Untranslatable("two passes disagree")
    return second.ops
