"""C09 translation recipes: the guard and branches of `safe_divide`, the reduction / unsqueeze axes
and the square root of the two norm computations (data pipeline and engine), and the statement
order `safe_divide -> norm over the coil axis -> safe_divide`, emitted as Lean definitions / data
(see Bridge/C09.lean for what is proved about them)."""
from __future__ import annotations

import ast

from ..gen import EXTRA, Kernel, Untranslatable, all_stmts, register

T = "direct/data/transforms.py"
MT = "direct/data/mri_transforms.py"
UT = "direct/utils/__init__.py"
ENG = "direct/nn/mri_models.py"


def _num(node):
    if isinstance(node, ast.UnaryOp) and isinstance(node.op, ast.USub):
        v = _num(node.operand)
        return None if v is None else -v
    if isinstance(node, ast.Constant) and isinstance(node.value, (int, float)) and not isinstance(node.value, bool):
        return node.value
    return None


def _strip_to(node):
    while isinstance(node, ast.Call) and isinstance(node.func, ast.Attribute) and node.func.attr == "to":
        node = node.func.value
    return node


def _is_zero_const(node) -> bool:
    node = _strip_to(node)
    if isinstance(node, ast.Call) and ast.unparse(node.func) in ("torch.tensor", "torch.as_tensor") and node.args:
        a = node.args[0]
        v = _num(a.elts[0]) if isinstance(a, (ast.List, ast.Tuple)) and len(a.elts) == 1 else _num(a)
        return v is not None and v == 0
    if isinstance(node, ast.Call) and ast.unparse(node.func) in ("torch.zeros_like", "torch.zeros"):
        return True
    v = _num(node)
    return v is not None and v == 0


def _safe_divide_build(k: Kernel, fn: ast.FunctionDef) -> str:
    names = {"input_tensor": "a", "other_tensor": "b"}
    wheres = [n for n in ast.walk(fn) if isinstance(n, ast.Call) and ast.unparse(n.func) == "torch.where"]
    if len(wheres) != 1 or len(wheres[0].args) != 3:
        raise Untranslatable(f"{len(wheres)} torch.where calls in safe_divide")
    pred, x, y = wheres[0].args
    if not (isinstance(pred, ast.Compare) and len(pred.ops) == 1 and isinstance(pred.left, ast.Name)
            and pred.left.id in names and _num(pred.comparators[0]) == 0):
        raise Untranslatable(f"guard `{ast.unparse(pred)}`")
    v = names[pred.left.id]
    if isinstance(pred.ops[0], ast.Eq):
        cond = f"{v} = 0"
    elif isinstance(pred.ops[0], ast.NotEq):
        cond = f"¬ {v} = 0"
    else:
        raise Untranslatable(f"guard `{ast.unparse(pred)}`")

    def branch(node):
        if _is_zero_const(node):
            return "0"
        if (isinstance(node, ast.BinOp) and isinstance(node.op, ast.Div) and isinstance(node.left, ast.Name)
                and isinstance(node.right, ast.Name) and node.left.id in names and node.right.id in names):
            return f"num.div {names[node.left.id]} {names[node.right.id]}"
        raise Untranslatable(f"branch `{ast.unparse(node)[:60]}`")

    # the function must return the where result
    ret = [s for s in fn.body if isinstance(s, ast.Return)]
    tgt = [ast.unparse(s.targets[0]) for s in fn.body if isinstance(s, ast.Assign) and s.value is wheres[0]]
    if not ret or not (ret[0].value is wheres[0] or (tgt and ast.unparse(ret[0].value) == tgt[0])):
        raise Untranslatable("safe_divide does not return the torch.where result")
    return (f"def {k.name} {{α : Type}} [Zero α] [DecidableEq α] (num : Sens.Num α) (a b : α) : α :=\n"
            f"  if {cond} then {branch(x)} else {branch(y)}\n")


_SAFE_DIVIDE_FALLBACK = ("def safe_divide {α : Type} [Zero α] [DecidableEq α] (num : Sens.Num α) (a b : α) : α :=\n"
                         "  Sens.safeDivide num a b\n")


def _unit_fill(which: int):
    def build(k: Kernel, fn: ast.FunctionDef) -> str:
        for st in ast.walk(fn):
            if (isinstance(st, ast.Assign) and isinstance(st.targets[0], ast.Subscript)
                    and ast.unparse(st.targets[0].value) == "sensitivity_map"):
                sl = st.targets[0].slice
                if (isinstance(sl, ast.Tuple) and len(sl.elts) == 2 and isinstance(sl.elts[0], ast.Constant)
                        and sl.elts[0].value is Ellipsis and isinstance(_num(sl.elts[1]), int)):
                    v = _num(st.value)
                    if v is not None and float(v) == int(v):
                        return f"def {k.name} : Int := ({(_num(sl.elts[1]), int(v))[which]} : Int)\n"
        raise Untranslatable("`sensitivity_map[..., i] = v` not found")
    return build


register("C09", [
    Kernel("unit_fill_index", MT, "EstimateSensitivityMapModule.forward", [], "(0 : Int)", _unit_fill(0),
           imports=("DirectVerif.Model.Sens",)),
    Kernel("unit_fill_value", MT, "EstimateSensitivityMapModule.forward", [], "(1 : Int)", _unit_fill(1),
           imports=("DirectVerif.Model.Sens",)),
])


# ---- structural facts ---------------------------------------------------------------------------
def _self_ints(tree: ast.AST, cls: str) -> dict[str, int]:
    """`self.<name> = <int>` assignments in `<cls>.__init__`"""
    from ..pyexpr import find_function

    fn = find_function(tree, f"{cls}.__init__")
    out = {}
    for st in ast.walk(fn):
        if (isinstance(st, ast.Assign) and isinstance(st.targets[0], ast.Attribute)
                and ast.unparse(st.targets[0].value) == "self"):
            v = _num(st.value)
            if isinstance(v, int):
                out["self." + st.targets[0].attr] = v
    return out


def _axis(node, env: dict[str, int]) -> int:
    v = _num(node)
    if isinstance(v, int):
        return v
    t = ast.unparse(node)
    if t in env:
        return env[t]
    raise Untranslatable(f"axis `{t}` is not a known integer")


def _norm_expr(node: ast.AST, env: dict[str, int], var: str) -> tuple[bool, int, list[int]]:
    """`torch.sqrt((var ** e).sum(A).sum(B))` -> (sqrt?, e, [A, B])"""
    has_sqrt = False
    if isinstance(node, ast.Call) and ast.unparse(node.func) == "torch.sqrt" and len(node.args) == 1:
        has_sqrt = True
        node = node.args[0]
    elif isinstance(node, ast.Call) and isinstance(node.func, ast.Attribute) and node.func.attr == "sqrt" and not node.args:
        has_sqrt = True
        node = node.func.value
    axes = []
    while isinstance(node, ast.Call) and isinstance(node.func, ast.Attribute) and node.func.attr == "sum":
        if node.keywords and not (len(node.keywords) == 1 and node.keywords[0].arg == "dim" and not node.args):
            raise Untranslatable(f"sum with keywords `{ast.unparse(node)[:50]}`")
        arg = node.args[0] if node.args else (node.keywords[0].value if node.keywords else None)
        if arg is None:
            raise Untranslatable("sum over all axes")
        axes.append(_axis(arg, env))
        node = node.func.value
    axes.reverse()
    if not (isinstance(node, ast.BinOp) and isinstance(node.op, ast.Pow) and ast.unparse(node.left) == var
            and isinstance(_num(node.right), int)):
        raise Untranslatable(f"summand `{ast.unparse(node)[:50]}` is not `{var} ** n`")
    return has_sqrt, _num(node.right), axes


def _unsqueeze_axes(node: ast.AST, env, var: str) -> list[int]:
    axes = []
    while isinstance(node, ast.Call) and isinstance(node.func, ast.Attribute) and node.func.attr == "unsqueeze":
        axes.append(_axis(node.args[0], env))
        node = node.func.value
    axes.reverse()
    if ast.unparse(node) != var:
        raise Untranslatable(f"unsqueeze chain does not start at `{var}`")
    return axes


def _lean_ints(xs):
    return "[" + ", ".join(str(x) for x in xs) + "]"


def _plan_def(name, doc, plan):
    sq, e, axes, uns = plan
    return (f"/-- translated from {doc}: (sqrt applied, exponent, sum axes, unsqueeze axes) -/\n"
            f"def {name} : Bool × Int × List Int × List Int := ({'true' if sq else 'false'}, {e}, {_lean_ints(axes)}, "
            f"{_lean_ints(uns)})\n")


def _events(stmts, refine_calls=()) -> list[str]:
    ev = []
    for st in stmts:
        val = getattr(st, "value", None)
        if val is None:
            continue
        calls = [n for n in ast.walk(val) if isinstance(n, ast.Call)]
        names = [ast.unparse(c.func) for c in calls]
        if any(n.endswith("root_sum_of_squares") for n in names):
            ev.append("root_sum_of_squares")
        if any(n.endswith(r) for n in names for r in refine_calls):
            if not ev or ev[-1] != "refine":
                ev.append("refine")
        for c in calls:
            if ast.unparse(c.func).endswith("safe_divide") and len(c.args) == 2:
                ev.append(f"safe_divide:{ast.unparse(c.args[0])}/{ast.unparse(c.args[1])}")
        if (isinstance(st, ast.Assign) and ast.unparse(st.targets[0]).endswith("_norm")
                and any(n in ("torch.sqrt",) or n.endswith(".sum") for n in names)):
            ev.append("norm")
    return ev


def _lean_strs(xs):
    return "[" + ", ".join('"' + x.replace('"', "'") + '"' for x in xs) + "]"


def _c09_extra():
    from ..gen import REPO
    from ..pyexpr import find_function, parse_file

    chunks: list[str] = ["open DirectVerif.Sens\n"]
    status: dict[str, str] = {}

    def attempt(name, build, fallback):
        try:
            chunks.append(build())
            status[name] = "translated"
        except Untranslatable as e:
            chunks.append(f"/-- SKIPPED ({e}); stands for the hand-written model -/\n" + fallback)
            status[name] = f"skipped: {e}"

    def b_safe_divide():
        fn = find_function(parse_file(REPO / T), "safe_divide")
        return f"/-- translated from `{T}`:`safe_divide` -/\n" + _safe_divide_build(Kernel("safe_divide", T, "safe_divide", [], ""), fn)

    attempt("safe_divide", b_safe_divide, _SAFE_DIVIDE_FALLBACK)
    from . import c09_tables as tbl      # data-flow based readers (follow helper extraction / hoisted locals)

    def module_env():
        env = _self_ints(parse_file(REPO / UT), "DirectModule")
        if "self.coil_dim" not in env or "self.complex_dim" not in env:
            raise Untranslatable("DirectModule.__init__ does not set coil_dim / complex_dim to integers")
        return env

    def fwd():
        return find_function(parse_file(REPO / MT), "EstimateSensitivityMapModule.forward")

    def rss_branch(fn):
        for st in fn.body:
            node = st
            while isinstance(node, ast.If):
                if "RSS_ESTIMATE" in ast.unparse(node.test):
                    return node.body
                node = node.orelse[0] if len(node.orelse) == 1 and isinstance(node.orelse[0], ast.If) else None
        raise Untranslatable("RSS_ESTIMATE branch not found")

    # --- the RSS division: root_sum_of_squares(acs_image, dim=coil_dim) then unsqueeze -----------
    def b_rss_plan():
        env = module_env()
        body = rss_branch(fwd())
        call = None
        uns = None
        for st in body:
            if isinstance(st, ast.Assign) and isinstance(st.value, ast.Call):
                if ast.unparse(st.value.func).endswith("root_sum_of_squares"):
                    call = st.value
                elif isinstance(st.value.func, ast.Attribute) and st.value.func.attr == "unsqueeze":
                    uns = _unsqueeze_axes(st.value, env, ast.unparse(st.targets[0]))
        if call is None or uns is None:
            raise Untranslatable("root_sum_of_squares(…) / unsqueeze chain not found in the RSS branch")
        if ast.unparse(call.args[0]) != "acs_image":
            raise Untranslatable("root_sum_of_squares is not applied to acs_image")
        rss = find_function(parse_file(REPO / T), "root_sum_of_squares")
        params = {a.arg: d for a, d in zip(rss.args.args[-len(rss.args.defaults):], rss.args.defaults)}
        loc = {}
        for pname in ("dim", "complex_dim"):
            kw = [k.value for k in call.keywords if k.arg == pname]
            pos = [a.arg for a in rss.args.args].index(pname)
            node = kw[0] if kw else (call.args[pos] if len(call.args) > pos else params.get(pname))
            if node is None:
                raise Untranslatable(f"root_sum_of_squares argument `{pname}`")
            loc[pname] = _axis(node, env)
        # complex branch of root_sum_of_squares
        ret = None
        for st in rss.body:
            if isinstance(st, ast.If) and "is_complex_data" in ast.unparse(st.test):
                ret = [s for s in st.body if isinstance(s, ast.Return)]
        if not ret:
            raise Untranslatable("complex branch of root_sum_of_squares not found")
        sq, e, axes = _norm_expr(ret[0].value, loc, "data")
        return _plan_def("estimate_rss_plan", f"`{MT}`:`EstimateSensitivityMapModule.forward` (RSS) + `{T}`:`root_sum_of_squares`",
                         (sq, e, axes, uns))

    attempt("estimate_rss_plan", tbl.b_rss_plan, "def estimate_rss_plan : Bool × Int × List Int × List Int := normPlan\n")

    # --- the final renormalisation of the data pipeline ----------------------------------------
    def b_norm_plan():
        env = module_env()
        fn = fwd()
        norm = uns = None
        for st in fn.body:
            if isinstance(st, ast.Assign) and ast.unparse(st.targets[0]) == "sensitivity_map_norm":
                if norm is None:
                    norm = _norm_expr(st.value, env, "sensitivity_map")
                else:
                    uns = _unsqueeze_axes(st.value, env, "sensitivity_map_norm")
        if norm is None or uns is None:
            raise Untranslatable("sensitivity_map_norm computation not found")
        return _plan_def("estimate_norm_plan", f"`{MT}`:`EstimateSensitivityMapModule.forward` (renormalisation)", (*norm, uns))

    attempt("estimate_norm_plan", tbl.b_norm_plan, "def estimate_norm_plan : Bool × Int × List Int × List Int := normPlan\n")

    def b_order():
        fn = fwd()
        ev = _events(rss_branch(fn)) + _events([s for s in fn.body if not isinstance(s, ast.If)])
        return (f"/-- translated from `{MT}`:`EstimateSensitivityMapModule.forward`: order of the RSS branch and the tail -/\n"
                f"def estimate_order : List String := {_lean_strs(ev)}\n")

    attempt("estimate_order", tbl.b_order, "def estimate_order : List String := estimateOrder\n")

    # --- the engine ---------------------------------------------------------------------------
    def eng_fn():
        tree = parse_file(REPO / ENG)
        env = _self_ints(tree, "MRIModelEngine")
        if "self._coil_dim" not in env or "self._complex_dim" not in env:
            raise Untranslatable("MRIModelEngine.__init__ does not set _coil_dim / _complex_dim to integers")
        return find_function(tree, "MRIModelEngine.compute_sensitivity_map"), env

    def b_eng_plan():
        fn, env = eng_fn()
        norm = uns = None
        for st in fn.body:
            if isinstance(st, ast.Assign) and ast.unparse(st.targets[0]) == "sensitivity_map_norm":
                if norm is None:
                    norm = _norm_expr(st.value, env, "sensitivity_map")
                else:
                    uns = _unsqueeze_axes(st.value, env, "sensitivity_map_norm")
        if norm is None or uns is None:
            raise Untranslatable("sensitivity_map_norm computation not found")
        return _plan_def("engine_norm_plan", f"`{ENG}`:`MRIModelEngine.compute_sensitivity_map`", (*norm, uns))

    attempt("engine_norm_plan", tbl.b_eng_plan, "def engine_norm_plan : Bool × Int × List Int × List Int := normPlan\n")

    def b_eng_order():
        fn, env = eng_fn()
        ev = _events(list(all_stmts(fn)), refine_calls=("compute_model_per_coil",))
        # multicoil guard: `multicoil = sensitivity_map.shape[self._coil_dim] > 1`
        thr = None
        for st in fn.body:
            if isinstance(st, ast.Assign) and ast.unparse(st.targets[0]) == "multicoil":
                c = st.value
                if (isinstance(c, ast.Compare) and len(c.ops) == 1 and isinstance(c.ops[0], ast.Gt)
                        and isinstance(c.left, ast.Subscript) and ast.unparse(c.left.value) == "sensitivity_map.shape"
                        and _axis(c.left.slice, env) == env["self._coil_dim"] and isinstance(_num(c.comparators[0]), int)):
                    thr = _num(c.comparators[0])
        if thr is None:
            raise Untranslatable("multicoil guard not understood")
        return (f"/-- translated from `{ENG}`:`MRIModelEngine.compute_sensitivity_map` -/\n"
                f"def engine_order : List String := {_lean_strs(ev)}\n"
                f"/-- refinement only when `shape[coil_dim] > engine_multicoil_gt` -/\n"
                f"def engine_multicoil_gt : Int := {thr}\n")

    attempt("engine_order", tbl.b_eng_order,
            "def engine_order : List String := engineOrder\ndef engine_multicoil_gt : Int := 1\n")
    # --- every sensitivity-map site under direct/nn ------------------------------------------------
    def b_sites():
        import pathlib
        rows, plans = [], []
        root = pathlib.Path(REPO) / "direct" / "nn"
        for path in sorted(root.rglob("*.py")):
            rel = str(path.relative_to(REPO))
            tree = parse_file(path)
            for cls in [n for n in tree.body if isinstance(n, ast.ClassDef)]:
                for fn in [n for n in cls.body if isinstance(n, ast.FunctionDef)]:
                    qual = f"{cls.name}.{fn.name}"
                    for n in ast.walk(fn):
                        if isinstance(n, ast.Call) and isinstance(n.func, ast.Attribute) and n.func.attr == "compute_sensitivity_map":
                            rows.append((rel, qual, "call:compute_sensitivity_map"))
                    if qual == "MRIModelEngine.compute_sensitivity_map":
                        continue
                    # own normalisation: `<x>_norm = sqrt(sum of squares)` … safe_divide(<x>, <x>_norm)
                    norm = uns = None
                    var = None
                    for st in all_stmts(fn):
                        if isinstance(st, ast.Assign) and isinstance(st.targets[0], ast.Name) and st.targets[0].id.endswith("sensitivity_map_norm"):
                            var = st.targets[0].id[: -len("_norm")]
                            try:
                                env = _self_ints(tree, cls.name)
                                if norm is None:
                                    norm = _norm_expr(st.value, env, var)
                                else:
                                    uns = _unsqueeze_axes(st.value, env, st.targets[0].id)
                            except Untranslatable:
                                pass
                    if var is not None:
                        divides = any(isinstance(n, ast.Call) and ast.unparse(n.func).endswith("safe_divide") and len(n.args) == 2
                                      and ast.unparse(n.args[0]) == var and ast.unparse(n.args[1]) == var + "_norm"
                                      for n in ast.walk(fn))
                        rows.append((rel, qual, "own-normalisation" if (norm and uns and divides) else "own-normalisation-unparsed"))
                        if norm and uns and divides:
                            plans.append((qual, (*norm, uns)))
        txt = ("/-- every place under `direct/nn` where a sensitivity map is refined / normalised: calls of "
               "`compute_sensitivity_map` and functions that normalise a map themselves -/\n"
               "def sens_sites : List (String × String × String) := [\n"
               + ",\n".join(f'  ("{a}", "{b}", "{c}")' for a, b, c in rows) + "\n]\n"
               "/-- the norm plans of the functions that normalise a map themselves -/\n"
               "def own_norm_plans : List (String × (Bool × Int × List Int × List Int)) := [\n"
               + ",\n".join(f'  ("{q}", ({"true" if p[0] else "false"}, {p[1]}, {_lean_ints(p[2])}, {_lean_ints(p[3])}))' for q, p in plans)
               + "\n]\n")
        return txt

    attempt("sens_sites", b_sites, "def sens_sites : List (String × String × String) := []\n"
                                   "def own_norm_plans : List (String × (Bool × Int × List Int × List Int)) := []\n")

    def b_normalize_keys():
        keys = None
        for fname in ("build_supervised_mri_transforms",):
            fn = find_function(parse_file(REPO / MT), fname)
            for n in ast.walk(fn):
                if isinstance(n, ast.Call) and ast.unparse(n.func) in ("Normalize", "NormalizeModule"):
                    for kw in n.keywords:
                        if kw.arg == "keys_to_normalize" and isinstance(kw.value, (ast.List, ast.Tuple)):
                            keys = [ast.unparse(e) for e in kw.value.elts]
        if keys is None:
            raise Untranslatable("Normalize(keys_to_normalize=[…]) not found in build_supervised_mri_transforms")
        return ("/-- keys rescaled by `Normalize` in `build_supervised_mri_transforms` (the sensitivity map must not be one) -/\n"
                f"def normalize_keys : List String := {_lean_strs(keys)}\n")

    attempt("normalize_keys", b_normalize_keys, "def normalize_keys : List String := normalizeKeysAllowed\n")

    # ================= phase 3 =====================================================================
    from . import c09_tables as tb
    for name, build, fallback in tb.TABLES:
        attempt(name, build, fallback)

    return "\n".join(chunks), status


EXTRA["C09"] = _c09_extra
