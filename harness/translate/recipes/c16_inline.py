"""C16 — follow `self._method(…)` calls of the Engine class inside the loop body of `Engine.training_loop`: the callee's
statements are inlined at the call site (parameters bound to the arguments, guards and try/except position of the call site
kept), so that the tables compare statement ORDER and GUARDS, not the method the statements sit in.

`inlined_main_loop(fn, methods)` → a deep copy of the `for data, iter_idx in …` loop with
  * `self.m(args)` expression statements replaced by the body of `m`,
  * `x = self.m(args)` with a single-`return` callee replaced by `x = <returned expression>`,
  * line numbers re-assigned in execution order (the recipes resolve names by "closest preceding assignment"),
  * `loop.c16_opaque`: self-calls that could not be inlined (early returns, starred arguments, recursion) — the recipes then
    report `skipped`, never a different table.
The between-iteration call sites (own table) and `_do_iteration` (abstract, one row per engine class) are not inlined.
"""
from __future__ import annotations

import ast
import copy

from ..pyexpr import Untranslatable

NOT_INLINED = {"_do_iteration", "log_first_training_example_and_model", "checkpoint_model_at_interval",
               "write_to_logs_at_interval", "validate_model_at_interval", "checkpoint_and_write_to_logs", "validation_loop",
               "write_to_logs", "training_loop", "train"}


def class_methods(tree: ast.Module, cls: str = "Engine") -> dict:
    for node in tree.body:
        if isinstance(node, ast.ClassDef) and node.name == cls:
            return {f.name: f for f in node.body if isinstance(f, ast.FunctionDef)}
    raise Untranslatable(f"class {cls} not found")


class _Subst(ast.NodeTransformer):
    def __init__(self, binds):
        self.binds = binds

    def visit_Name(self, node):
        if isinstance(node.ctx, ast.Load) and node.id in self.binds:
            return copy.deepcopy(self.binds[node.id])
        return node


def _self_call(node):
    """(method name, call) for `self.m(…)`"""
    if isinstance(node, ast.Call) and isinstance(node.func, ast.Attribute) and isinstance(node.func.value, ast.Name) \
            and node.func.value.id == "self":
        return node.func.attr, node
    return None, None


def _bind(fn: ast.FunctionDef, call: ast.Call):
    a = fn.args
    if a.vararg or a.kwarg or a.posonlyargs or any(isinstance(x, ast.Starred) for x in call.args) \
            or any(k.arg is None for k in call.keywords):
        return None
    names = [x.arg for x in a.args][1:]      # without self
    binds = {}
    if len(call.args) > len(names):
        return None
    for n, v in zip(names, call.args):
        binds[n] = v
    for k in call.keywords:
        if k.arg not in names + [x.arg for x in a.kwonlyargs] or k.arg in binds:
            return None
        binds[k.arg] = k.value
    defaults = dict(zip(names[len(names) - len(a.defaults):], a.defaults))
    for x, d in zip(a.kwonlyargs, a.kw_defaults):
        if d is not None:
            defaults[x.arg] = d
    for n in names + [x.arg for x in a.kwonlyargs]:
        if n not in binds:
            if n not in defaults:
                return None
            binds[n] = defaults[n]
    return binds


def _body(fn: ast.FunctionDef):
    body = list(fn.body)
    if body and isinstance(body[0], ast.Expr) and isinstance(body[0].value, ast.Constant) and isinstance(body[0].value.value, str):
        body = body[1:]
    return body


def _stores(stmts) -> set:
    return {n.id for st in stmts for n in ast.walk(st) if isinstance(n, ast.Name) and isinstance(n.ctx, (ast.Store, ast.Del))}


def _inline(stmts, methods, opaque, stack):
    out = []
    for st in stmts:
        st = copy.copy(st)
        for field in ("body", "orelse", "finalbody"):
            if isinstance(getattr(st, field, None), list) and not isinstance(st, (ast.FunctionDef, ast.ClassDef, ast.Lambda)):
                setattr(st, field, _inline(getattr(st, field), methods, opaque, stack))
        if isinstance(st, ast.Try):
            hs = []
            for h in st.handlers:
                h = copy.copy(h)
                h.body = _inline(h.body, methods, opaque, stack)
                hs.append(h)
            st.handlers = hs
        name, call = (None, None)
        if isinstance(st, ast.Expr):
            name, call = _self_call(st.value)
        elif isinstance(st, ast.Assign) and len(st.targets) == 1 and isinstance(st.targets[0], ast.Name):
            name, call = _self_call(st.value)
        if name is None or name in NOT_INLINED or name not in methods:
            # self-calls buried inside larger expressions stay; they are reported as opaque when they are Engine methods
            for sub in ast.walk(st) if not isinstance(st, (ast.If, ast.For, ast.While, ast.With, ast.Try)) else []:
                n2, _ = _self_call(sub)
                if n2 and n2 in methods and n2 not in NOT_INLINED and sub is not call:
                    opaque.append(n2)
            out.append(st)
            continue
        fn = methods[name]
        binds = _bind(fn, call)
        body = _body(fn)
        if binds is None or name in stack or len(stack) > 6 or (set(binds) & _stores(body)):
            opaque.append(name)
            out.append(st)
            continue
        returns = [n for b in body for n in ast.walk(b) if isinstance(n, ast.Return)]
        if isinstance(st, ast.Assign):
            if len(body) == 1 and isinstance(body[0], ast.Return) and body[0].value is not None:
                new = copy.copy(st)
                new.value = _Subst(binds).visit(copy.deepcopy(body[0].value))
                out.append(new)
            else:
                opaque.append(name)
                out.append(st)
            continue
        tail_ok = not returns or (len(returns) == 1 and body and body[-1] is returns[0] and returns[0].value is None)
        if not tail_ok:
            opaque.append(name)      # early return: the statements behind it are guarded in a way we do not follow
            out.append(st)
            continue
        inner = [_Subst(binds).visit(copy.deepcopy(b)) for b in body if not isinstance(b, ast.Return)]
        out.extend(_inline(inner, methods, opaque, stack + [name]))
    return out


def _renumber(stmts, counter):
    for st in stmts:
        counter[0] += 1
        base, first = counter[0] * 1000, getattr(st, "lineno", 0)
        nested = []
        for field in ("body", "orelse", "finalbody"):
            v = getattr(st, field, None)
            if isinstance(v, list) and v and isinstance(v[0], ast.stmt):
                nested.append(v)
        if isinstance(st, ast.Try):
            nested += [h.body for h in st.handlers]
        skip = {id(n) for lst in nested for s in lst for n in ast.walk(s)}
        for n in ast.walk(st):
            if id(n) not in skip and hasattr(n, "lineno"):
                n.lineno = base + max(0, min(999, n.lineno - first))
        for lst in nested:
            _renumber(lst, counter)


def inlined_main_loop(fn: ast.FunctionDef, methods: dict) -> ast.For:
    for st in fn.body:
        if isinstance(st, ast.For) and "iter_idx" in ast.unparse(st.target):
            loop = copy.deepcopy(st)
            opaque: list = []
            loop.body = _inline(loop.body, methods, opaque, [])
            loop.lineno = 0
            _renumber(loop.body, [0])
            ast.fix_missing_locations(loop)
            loop.c16_opaque = sorted(set(opaque))
            return loop
    raise Untranslatable("the `for data, iter_idx in …` loop of training_loop was not found")
