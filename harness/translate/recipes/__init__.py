"""Per-property translation recipes: every module c??.py in this package registers its kernels."""
import importlib
import pathlib

for _p in sorted(pathlib.Path(__file__).parent.glob("c[0-9][0-9].py")):
    importlib.import_module(f"{__name__}.{_p.stem}")
