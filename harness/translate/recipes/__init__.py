"""Per-property translation recipes: every module c??.py in this package registers its kernels.

A recipe module that fails to import (a builder's half-finished edit of ANOTHER property) must not take the checks of
the other properties down: failures are collected in IMPORT_ERRORS and re-raised only by `load(prop)` for the property
whose own recipe is broken."""
import importlib
import pathlib
import traceback

IMPORT_ERRORS: dict[str, str] = {}

for _p in sorted(pathlib.Path(__file__).parent.glob("c[0-9][0-9].py")):
    try:
        importlib.import_module(f"{__name__}.{_p.stem}")
    except Exception:  # noqa: BLE001
        IMPORT_ERRORS[_p.stem.upper()] = traceback.format_exc()


def load(prop: str):
    """Make sure the recipe of `prop` is registered; raise its import error if it has one."""
    if prop.upper() in IMPORT_ERRORS:
        raise ImportError(f"translation recipe of {prop} does not import:\n{IMPORT_ERRORS[prop.upper()]}")
