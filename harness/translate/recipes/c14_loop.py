"""C14 helper: semantic facts of the assembly loop of `MRIModelEngine.reconstruct_volumes`.

Nothing here depends on the names of temporaries, on whether a sub-expression sits in a private helper, on `a:b` vs
`slice(a, b)`, `+=` vs `= … .stop`, one `yield` of a conditional expression vs two `yield`s under if/else, or on how the
"filename changed" test is spelled.  The loop's state variables (`last_filename`, `curr_volume`, `curr_target`,
`slice_counter`, `volume_size`, `loss_dict_list`) are the vocabulary of the model (`Recon.rstep` / `rstepL`) and are kept.
Roles are found by position in the data flow and abbreviated in the facts:
  FILENAME = last component of the yielded tuple;  OUT / TGT = what is written into curr_volume / curr_target (before `.cpu()`);
  ITER = the `_do_iteration(...)` call inside OUT;  SCALE / RES = the scaling-factor and resolution arguments of OUT."""
from __future__ import annotations

import ast

from ..gen import Untranslatable
from . import c14_norm as N

STATE = ("last_filename", "curr_volume", "curr_target", "slice_counter", "volume_size", "loss_dict_list")


def find_loop(fn: ast.FunctionDef) -> ast.For:
    for st in fn.body:
        if isinstance(st, ast.For) and "data_loader" in ast.unparse(st.iter):
            return st
    raise Untranslatable("loop over `data_loader` not found")


class Loop:
    def __init__(self, fn: ast.FunctionDef, tree: ast.Module):
        self.fn, self.tree, self.loop = fn, tree, find_loop(fn)
        self.body = self.loop.body
        # single-assignment locals of the loop body (renames, hoisted sub-expressions); state variables are never substituted
        self.env = N.local_env(self.body, fn, exclude=STATE)
        pre = []
        for st in fn.body:                    # hoisted look-ups before the loop (e.g. the sampler's volume_indices mapping)
            if st is self.loop:
                break
            pre.append(st)
        self.env.update(N.local_env(pre, fn, exclude=STATE))
        self._find_parts()
        for _, st in self.tgt_ifs:            # what is computed only when the target is requested (e.g. `target_abs`)
            self.env.update(N.local_env(st.body, fn, exclude=STATE))
        self._find_roles()

    # ------------------------------------------------------------------ resolution / rendering
    def resolve(self, e, extra=None):
        env = dict(self.env)
        env.update(extra or {})
        e = N.inline_helpers(e, self.tree)
        e = N.subst(e, env)
        e = N.inline_helpers(e, self.tree)
        return N.keywords_by_signature(N.canon(e), self.tree)

    def text(self, e, extra=None) -> str:
        return ast.unparse(self.abbrev_ast(self.resolve(e, extra)))

    def abbrev_ast(self, e):
        """replace the sub-expressions that ARE a role (same canonical text) by the role's name"""
        roles = {full: short for full, short in self.roles if full}

        class Ab(ast.NodeTransformer):
            def visit(self, node):
                if isinstance(node, ast.expr) and not isinstance(node, (ast.Starred,)):
                    try:
                        t = ast.unparse(node)
                    except Exception:  # noqa: BLE001
                        t = None
                    if t in roles:
                        return ast.Name(id=roles[t], ctx=ast.Load())
                return self.generic_visit(node)
        import copy
        return ast.fix_missing_locations(Ab().visit(copy.deepcopy(e)))

    def abbrev(self, t: str) -> str:
        return ast.unparse(self.abbrev_ast(ast.parse(t, mode="eval").body))

    # ------------------------------------------------------------------ the parts of the loop body
    def _find_parts(self):
        self.alloc = self.yield_if = self.vol_write = self.counter = None
        self.tgt_write = None
        self.guards, self.others, self.tgt_ifs = [], [], []
        for idx, st in enumerate(self.body):
            names = {n.id for n in ast.walk(st) if isinstance(n, ast.Name)}
            stores = {n.id for n in ast.walk(st) if isinstance(n, ast.Name) and isinstance(n.ctx, (ast.Store, ast.Del))}
            if isinstance(st, ast.If) and any(isinstance(n, ast.Yield) for n in ast.walk(st)):
                self.yield_if = (idx, st)
            elif isinstance(st, ast.If) and "last_filename" in {n.id for n in ast.walk(st.test) if isinstance(n, ast.Name)}:
                self.guards.append((idx, st))
            elif isinstance(st, ast.Assign) and ast.unparse(st.targets[0]) == "last_filename":
                self.guards.append((idx, st))
            elif isinstance(st, ast.If) and N.norm_expr(st.test) == "curr_volume is None":
                self.alloc = (idx, st)
            elif isinstance(st, ast.Assign) and isinstance(st.targets[0], ast.Subscript) \
                    and ast.unparse(st.targets[0].value) == "curr_volume":
                self.vol_write = (idx, st)
            elif isinstance(st, ast.If) and ast.unparse(st.test) == "add_target":
                self.tgt_ifs.append((idx, st))
                for s in st.body:
                    if isinstance(s, ast.Assign) and isinstance(s.targets[0], ast.Subscript) \
                            and ast.unparse(s.targets[0].value) == "curr_target":
                        self.tgt_write = (idx, s)
            elif (isinstance(st, ast.AugAssign) and ast.unparse(st.target) == "slice_counter") or \
                    (isinstance(st, ast.Assign) and ast.unparse(st.targets[0]) == "slice_counter"):
                self.counter = (idx, st)
            elif stores & set(STATE) or (isinstance(st, ast.Expr) and isinstance(st.value, ast.Call) and names & {"loss_dict_list"}):
                self.others.append((idx, st))
        if not (self.alloc and self.yield_if and self.vol_write and self.counter):
            raise Untranslatable("the loop no longer has an allocation / write / counter / yield statement at its top level")

    def yields(self):
        """[(condition text or '', yielded expression)] — conditional expression == if/else with two yields"""
        _, st = self.yield_if
        env = N.local_env(st.body, self.fn, exclude=STATE)
        out = []

        def walk(sts, cond):
            for s in sts:
                if isinstance(s, ast.Expr) and isinstance(s.value, ast.Yield):
                    v = s.value.value
                    if isinstance(v, ast.IfExp):
                        c = ast.unparse(v.test)
                        out.append((" and ".join(cond + [c]), v.body, env))
                        out.append((" and ".join(cond + [N.norm_expr(N.negate(v.test))]), v.orelse, env))
                    else:
                        out.append((" and ".join(cond), v, env))
                elif isinstance(s, ast.If):
                    walk(s.body, cond + [N.norm_expr(s.test)])
                    walk(s.orelse, cond + [N.norm_expr(N.negate(s.test))])
        walk(st.body, [])
        if not out:
            raise Untranslatable("no yield found")
        # `(a, *((t,) if c else ()), b)` == `(a, t, b) if c else (a, b)`
        final = []
        for cond, v, env_ in out:
            v = self.resolve(v, env_)
            split = None
            if isinstance(v, ast.Tuple):
                for i, e in enumerate(v.elts):
                    if isinstance(e, ast.Starred) and isinstance(e.value, ast.IfExp) \
                            and isinstance(e.value.body, ast.Tuple) and isinstance(e.value.orelse, ast.Tuple):
                        split = (i, e.value)
                        break
            if split is None:
                final.append((cond, v, {}))
            else:
                i, ife = split
                c = ast.unparse(ife.test)
                for cc, branch in ((c, ife.body), (N.norm_expr(N.negate(ife.test)), ife.orelse)):
                    t = ast.Tuple(elts=v.elts[:i] + branch.elts + v.elts[i + 1:], ctx=ast.Load())
                    final.append((" and ".join([x for x in (cond, cc) if x]), ast.fix_missing_locations(t), {}))
        return final

    def _find_roles(self):
        self.roles = []
        ys = self.yields()
        tup = ys[0][1]
        if not isinstance(tup, ast.Tuple):
            raise Untranslatable("the generator does not yield a tuple")
        fname = ast.unparse(self.resolve(tup.elts[-1], ys[0][2]))

        def strip_cpu(e):
            if isinstance(e, ast.Call) and isinstance(e.func, ast.Attribute) and e.func.attr == "cpu" and not e.args:
                return e.func.value
            return e
        out_e = self.resolve(strip_cpu(self.vol_write[1].value))
        out_t = ast.unparse(out_e)
        tgt_t = ast.unparse(N.assume(self.resolve(strip_cpu(self.tgt_write[1].value)), "add_target")) if self.tgt_write else ""
        iter_t = scale_t = res_t = ""
        for n in ast.walk(out_e):
            if isinstance(n, ast.Call) and ast.unparse(n.func).endswith("_do_iteration"):
                iter_t = ast.unparse(n)
                break
        if isinstance(out_e, ast.Call) and ast.unparse(out_e.func).endswith("_process_output"):
            if len(out_e.args) >= 2:
                scale_t = ast.unparse(out_e.args[1])
            for k in out_e.keywords:
                if k.arg == "resolution":
                    res_t = ast.unparse(k.value)
                if k.arg == "scaling_factors":
                    scale_t = ast.unparse(k.value)
        self.role_defs = {"FILENAME": fname, "ITER": iter_t, "SCALE": scale_t, "RES": res_t, "OUT": out_t, "TGT": tgt_t}
        inner = [(iter_t, "ITER"), (scale_t, "SCALE"), (res_t, "RES"), (fname, "FILENAME")]
        self.roles = inner
        self.role_defs = {k: (self.abbrev(v) if k in ("OUT", "TGT") and v else v) for k, v in self.role_defs.items()}
        self.roles = [(out_t, "OUT"), (tgt_t, "TGT")] + inner

    # ------------------------------------------------------------------ the filename guard, abstractly
    def guard_table(self) -> list[str]:
        """What the statements that test / assign `last_filename` do in the three situations a batch can be in:
        first batch (last_filename is None), batch of the same file, batch of another file."""
        fname_names = {"filename"} | {k for k, v in self.env.items() if ast.unparse(self.resolve(v)) == self.role_defs["FILENAME"]}

        def is_fname(e):
            return (isinstance(e, ast.Name) and e.id in fname_names) or ast.unparse(self.resolve(e)) == self.role_defs["FILENAME"]

        def ev(c, last):
            if isinstance(c, ast.BoolOp):
                vals = [ev(v, last) for v in c.values]
                return all(vals) if isinstance(c.op, ast.And) else any(vals)
            if isinstance(c, ast.UnaryOp) and isinstance(c.op, ast.Not):
                return not ev(c.operand, last)
            if isinstance(c, ast.Compare) and len(c.ops) == 1:
                l, r, op = c.left, c.comparators[0], c.ops[0]
                if isinstance(r, ast.Name) and r.id == "last_filename":
                    l, r = r, l
                if isinstance(l, ast.Name) and l.id == "last_filename":
                    if isinstance(r, ast.Constant) and r.value is None and isinstance(op, (ast.Is, ast.Eq)):
                        return last == "none"
                    if isinstance(r, ast.Constant) and r.value is None and isinstance(op, (ast.IsNot, ast.NotEq)):
                        return last != "none"
                    if is_fname(r) and isinstance(op, ast.NotEq):
                        return last != "same"
                    if is_fname(r) and isinstance(op, ast.Eq):
                        return last == "same"
            raise Untranslatable(f"filename test not understood: {ast.unparse(c)}")

        rows = []
        for start, label in (("none", "first batch"), ("same", "same file"), ("other", "other file")):
            last, resets = start, []

            def run(sts):
                nonlocal last
                for s in sts:
                    if isinstance(s, ast.If):
                        run(s.body if ev(s.test, last) else s.orelse)
                    elif isinstance(s, ast.Assign) and len(s.targets) == 1 and isinstance(s.targets[0], ast.Name):
                        n = s.targets[0].id
                        if n == "last_filename":
                            if not is_fname(s.value):
                                raise Untranslatable("last_filename assigned something else than the filename")
                            last = "same"
                        elif n in STATE:
                            resets.append(f"{n}={N.norm_expr(s.value)}")
                        else:
                            raise Untranslatable(f"unexpected statement in the filename guard: {ast.unparse(s)[:60]}")
                    elif isinstance(s, (ast.Pass, ast.Expr)):
                        continue
                    else:
                        raise Untranslatable(f"unexpected statement in the filename guard: {ast.unparse(s)[:60]}")
            run([st for _, st in self.guards])
            rows.append(f"{label}: resets[{';'.join(sorted(resets))}] then last_filename is "
                        + ("the batch's filename" if last == "same" else last))
        return rows

    # ------------------------------------------------------------------ facts
    def write_slice(self):
        """(lower, upper) expressions of the window written into curr_volume, resolved, with roles abbreviated"""
        t = self.resolve(self.vol_write[1].targets[0])
        sl = t.slice
        if isinstance(sl, ast.Tuple) and len(sl.elts) == 2 and ast.unparse(sl.elts[1]) == "...":
            sl = sl.elts[0]
        if not isinstance(sl, ast.Slice) or sl.lower is None or sl.upper is None or sl.step is not None:
            raise Untranslatable(f"write target `{ast.unparse(t)}` is not a contiguous window")
        return [ast.parse(self.abbrev(ast.unparse(x)), mode="eval").body for x in (sl.lower, sl.upper)]

    def counter_next(self):
        _, st = self.counter
        if isinstance(st, ast.AugAssign):
            e = ast.BinOp(left=ast.Name(id="slice_counter", ctx=ast.Load()), op=st.op, right=st.value)
        else:
            e = st.value
        return ast.parse(self.abbrev(ast.unparse(self.resolve(e))), mode="eval").body

    def yield_cond(self):
        return ast.parse(self.abbrev(ast.unparse(self.resolve(self.yield_if[1].test))), mode="eval").body

    def pre_loop(self, names) -> str:
        out = []
        for st in self.fn.body:
            if st is self.loop:
                break
            if isinstance(st, ast.Assign) and len(st.targets) == 1 and isinstance(st.targets[0], ast.Name) and st.targets[0].id in names:
                out.append(f"{st.targets[0].id}={N.norm_expr(st.value)}")
        return ";".join(sorted(out))

    def stage_facts(self) -> list[str]:
        """the volume part: initial state, filename guard, roles, allocation, window, counter, yield; and the order in which
        these parts depend on each other"""
        f = ["init[" + self.pre_loop({"curr_volume", "slice_counter", "last_filename", "volume_size"}) + "]"]
        f += ["guard " + r for r in self.guard_table()]
        f += [f"{k}={v}" for k, v in self.role_defs.items() if k in ("FILENAME", "ITER", "SCALE", "RES", "OUT")]
        _, al = self.alloc
        for s in al.body:
            if isinstance(s, ast.Assign) and {ast.unparse(t) for t in s.targets} & {"volume_size", "curr_volume"}:
                f.append(f"alloc {'='.join(ast.unparse(t) for t in s.targets)}={self.text(s.value)}")
        lo, hi = self.write_slice()
        f.append(f"write curr_volume[{ast.unparse(lo)}:{ast.unparse(hi)}]={self.text(self.vol_write[1].value)}")
        f.append("slice_counter:=" + ast.unparse(self.counter_next()))
        ys = self.yields()
        firsts = {self.text(y[1].elts[0], y[2]) for y in ys if isinstance(y[1], ast.Tuple)}
        lasts = {self.text(y[1].elts[-1], y[2]) for y in ys if isinstance(y[1], ast.Tuple)}
        f.append(f"if {ast.unparse(self.yield_cond())}[yield {','.join(sorted(firsts))},…,{','.join(sorted(lasts))}]")
        g = max(i for i, _ in self.guards) if self.guards else -1
        order = [("guard", g), ("alloc", self.alloc[0]), ("write", self.vol_write[0]), ("counter", self.counter[0]),
                 ("yield", self.yield_if[0])]
        f.append("order " + " < ".join(n for n, _ in sorted(order, key=lambda x: x[1])))
        f += ["other: " + ast.unparse(st)[:100].replace("\n", " ") for _, st in self.others
              if not {n.id for n in ast.walk(st) if isinstance(n, ast.Name) and isinstance(n.ctx, ast.Store)} <= {"loss_dict_list", "curr_target"}
              or isinstance(st, ast.Expr)]
        return f

    def target_facts(self) -> list[str]:
        """the target / loss-list part"""
        f = ["init[" + self.pre_loop({"curr_target", "loss_dict_list"}) + "]"]
        f.append("TGT=" + self.role_defs["TGT"])
        _, al = self.alloc
        fresh = None          # canonical text of the fresh zero buffer just bound to curr_volume (nothing written to it yet)

        def buffer(e) -> str:
            """`curr_volume.clone()`, `torch.zeros_like(curr_volume)` and a second identical `torch.zeros(...)` right after
            curr_volume was bound to fresh zeros all denote a NEW zero tensor of the same shape and dtype"""
            t = self.text(e)
            if fresh is not None and t in ("curr_volume.clone()", "torch.zeros_like(curr_volume)", fresh,
                                           "curr_volume.clone().zero_()", "curr_volume.new_zeros(curr_volume.shape)"):
                return "a fresh zero buffer like curr_volume (distinct tensor)"
            return t
        for s in al.body:
            if isinstance(s, ast.Assign):
                tg = [ast.unparse(t) for t in s.targets]
                if "curr_volume" in tg:
                    v = self.text(s.value)
                    fresh = v if v.startswith("torch.zeros(") and len(tg) == 1 else None
                if len(tg) > 1 and set(tg) & {"curr_target", "loss_dict_list"}:
                    f.append(f"alloc {'='.join(tg)} bound to ONE object: {self.text(s.value)}")
                    continue
                if tg[0] in ("volume_size", "curr_volume"):
                    continue
                f.append(f"alloc {tg[0]}={buffer(s.value)}")
            elif isinstance(s, ast.If):
                c = N.norm_expr(s.test)
                f += [f"alloc if {c}: {ast.unparse(x.targets[0])}={buffer(x.value)}" if isinstance(x, ast.Assign) and len(x.targets) == 1
                      else f"alloc if {c}: {self.text(x.value) if isinstance(x, ast.Expr) else ast.unparse(x)[:80]}" for x in s.body]
            elif isinstance(s, ast.Expr):
                f.append("alloc " + self.text(s.value))
            else:
                f.append("alloc other: " + ast.unparse(s)[:80])
        if self.tgt_write:
            t = self.resolve(self.tgt_write[1].targets[0])
            lo, hi = self.write_slice()
            same = ast.unparse(t.slice) == ast.unparse(self.resolve(self.vol_write[1].targets[0]).slice)
            f.append("if add_target: write curr_target[" + ("same window as curr_volume" if same else ast.unparse(self.abbrev_ast(t)))
                     + "]=" + ast.unparse(self.abbrev_ast(N.assume(self.resolve(self.tgt_write[1].value), "add_target"))))
        for c, y, env in self.yields():
            f.append(f"yield when {c or 'always'}: {self.text(y, env)}")
        f += ["other: " + ast.unparse(st)[:100].replace("\n", " ") for _, st in self.others
              if {n.id for n in ast.walk(st) if isinstance(n, ast.Name) and isinstance(n.ctx, ast.Store)} & {"loss_dict_list", "curr_target"}]
        return f
