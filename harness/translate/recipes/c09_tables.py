"""C09 phase-3 structural tables: the Gaussian window (coordinates, weight, guard, axis), the branch table of
`EstimateSensitivityMapModule.forward`, effects (state writes / in-place / early returns) of the functions that decide
the property, option forwarding of every constructor site, the single definition of `compute_sensitivity_map`, the
engine's choice of refinement model and its channel-first permutations."""
from __future__ import annotations

import ast
import pathlib

from ..gen import Untranslatable, all_stmts

T = "direct/data/transforms.py"
MT = "direct/data/mri_transforms.py"
ENG = "direct/nn/mri_models.py"


def _repo():
    from ..gen import REPO
    return REPO


def _fn(file, qual):
    from ..pyexpr import find_function, parse_file
    return find_function(parse_file(_repo() / file), qual)


def _num(node):
    if isinstance(node, ast.UnaryOp) and isinstance(node.op, ast.USub):
        v = _num(node.operand)
        return None if v is None else -v
    if isinstance(node, ast.Constant) and isinstance(node.value, (int, float)) and not isinstance(node.value, bool):
        return node.value
    return None


def _s(x: str) -> str:
    return '"' + x.replace("\\", "\\\\").replace('"', "'") + '"'


def _strs(xs) -> str:
    return "[" + ", ".join(_s(x) for x in xs) + "]"


# ---- data-flow readers of the normalisation plans and their order ---------------------------------------
from . import c09_inline as inl  # noqa: E402


def _tree(file):
    from ..pyexpr import parse_file
    return parse_file(_repo() / file)


def _ifn(file, qual):
    """the function with private helpers of its class / module inlined"""
    return inl.inlined(_tree(file), qual)


def _self_ints(tree, cls):
    from ..pyexpr import find_function
    fn = find_function(tree, f"{cls}.__init__")
    out = {}
    for st in ast.walk(fn):
        if isinstance(st, ast.Assign) and isinstance(st.targets[0], ast.Attribute) and ast.unparse(st.targets[0].value) == "self":
            v = _num(st.value)
            if isinstance(v, int):
                out["self." + st.targets[0].attr] = v
    return out


def _axis(node, env):
    v = _num(node)
    if isinstance(v, int):
        return v
    t = ast.unparse(node)
    if t in env:
        return env[t]
    raise Untranslatable(f"axis `{t}` is not a known integer")


def _strip_unsqueeze(node, env):
    axes = []
    while True:
        if isinstance(node, ast.Call) and isinstance(node.func, ast.Attribute) and node.func.attr == "unsqueeze" and len(node.args) + len(node.keywords) == 1:
            axes.append(_axis(node.args[0] if node.args else node.keywords[0].value, env))
            node = node.func.value
        elif isinstance(node, ast.Call) and ast.unparse(node.func) == "torch.unsqueeze" and len(node.args) == 2:
            axes.append(_axis(node.args[1], env))
            node = node.args[0]
        else:
            break
    axes.reverse()
    return node, axes


def _sum_chain(node, env):
    """`(V ** e).sum(A).sum(B)` / `torch.sum(…, A)` / `.sum(dim=A)` -> (V node, e, [A, B])"""
    axes = []
    while True:
        if isinstance(node, ast.Call) and isinstance(node.func, ast.Attribute) and node.func.attr == "sum" and not ast.unparse(node.func.value) == "torch":
            kw = [k for k in node.keywords if k.arg in ("dim", "axis")]
            arg = node.args[0] if node.args else (kw[0].value if kw else None)
            if arg is None or len(node.args) + len(node.keywords) != 1:
                raise Untranslatable(f"sum `{ast.unparse(node)[:50]}`")
            axes.append(_axis(arg, env))
            node = node.func.value
        elif isinstance(node, ast.Call) and ast.unparse(node.func) == "torch.sum" and len(node.args) + len(node.keywords) == 2:
            kw = [k for k in node.keywords if k.arg in ("dim", "axis")]
            axes.append(_axis(node.args[1] if len(node.args) == 2 else kw[0].value, env))
            node = node.args[0]
        else:
            break
    axes.reverse()
    if isinstance(node, ast.BinOp) and isinstance(node.op, ast.Pow) and isinstance(_num(node.right), int):
        return node.left, _num(node.right), axes
    if isinstance(node, ast.BinOp) and isinstance(node.op, ast.Mult) and ast.dump(node.left) == ast.dump(node.right):
        return node.left, 2, axes
    raise Untranslatable(f"summand `{ast.unparse(node)[:50]}` is not a power")


def _rss_call_plan(call, env):
    """plan of `root_sum_of_squares(V, dim=…)` read from its definition -> (V node, sqrt, e, axes)"""
    rss = _fn(T, "root_sum_of_squares")
    names = [a.arg for a in rss.args.args]
    params = dict(zip(names[len(names) - len(rss.args.defaults):], rss.args.defaults))
    loc = {}
    for pname in ("dim", "complex_dim"):
        kw = [k.value for k in call.keywords if k.arg == pname]
        pos = names.index(pname)
        node = kw[0] if kw else (call.args[pos] if len(call.args) > pos else params.get(pname))
        if node is None:
            raise Untranslatable(f"root_sum_of_squares argument `{pname}`")
        loc[pname] = _axis(node, env)
    ret = None
    for st in rss.body:
        if isinstance(st, ast.If) and "is_complex_data" in ast.unparse(st.test):
            ret = [x for x in st.body if isinstance(x, ast.Return)]
    if not ret:
        raise Untranslatable("complex branch of root_sum_of_squares not found")
    sq, core = _strip_sqrt(ret[0].value)
    v, e, axes = _sum_chain(core, loc)
    if ast.unparse(v) != names[0]:
        raise Untranslatable("root_sum_of_squares does not square its first argument")
    return call.args[0] if call.args else None, sq, e, axes


def _strip_sqrt(node):
    if isinstance(node, ast.Call) and ast.unparse(node.func) == "torch.sqrt" and len(node.args) == 1:
        return True, node.args[0]
    if isinstance(node, ast.Call) and isinstance(node.func, ast.Attribute) and node.func.attr == "sqrt" and not node.args:
        return True, node.func.value
    if isinstance(node, ast.BinOp) and isinstance(node.op, ast.Pow) and _num(node.right) == 0.5:
        return True, node.left
    return False, node


def _divisor(d_resolved, env):
    """resolved divisor -> (kind 'rss'|'norm', V text, (sqrt, e, sum axes, unsqueeze axes))"""
    core, uns = _strip_unsqueeze(d_resolved, env)
    if isinstance(core, ast.Call) and ast.unparse(core.func).endswith("root_sum_of_squares"):
        v, sq, e, axes = _rss_call_plan(core, env)
        return "rss", ast.unparse(v), (sq, e, axes, uns)
    sq, inner = _strip_sqrt(core)
    v, e, axes = _sum_chain(inner, env)
    return "norm", ast.unparse(v), (sq, e, axes, uns)


MAPS = "<maps>"          # stands for the variable that carries the map through the branches / the refinement
_MAP_NAMES: set = set()


def _canon(text: str) -> str:
    import re
    for n in sorted(_MAP_NAMES, key=len, reverse=True):
        text = re.sub(rf"\b{re.escape(n)}\b", MAPS, text)
    return text


def _div_event(c, block, i, env):
    """`safe_divide(N, D)` -> ('safe_divide:<N resolved>/<rss|norm>(same|<V>)', plan) by data flow"""
    num = ast.unparse(inl.resolve(c.args[0], block, i))
    try:
        kind, v, plan = _divisor(inl.resolve(c.args[1], block, i), env)
        return f"safe_divide:{_canon(num)}/{kind}({'same' if v == num else _canon(v)})", plan
    except Untranslatable:
        return f"safe_divide:{_canon(num)}/stale-or-unknown({_canon(ast.unparse(c.args[1]))[:40]})", None


def _branch_var(fn):
    """the name every branch of the top-level if-chain of `forward` assigns (the map before the common tail)"""
    top = [st for st in fn.body if isinstance(st, ast.If)]
    if len(top) != 1:
        raise Untranslatable(f"{len(top)} top-level if statements in forward")
    branches, node = [], top[0]
    while True:
        branches.append(node.body)
        if len(node.orelse) == 1 and isinstance(node.orelse[0], ast.If):
            node = node.orelse[0]
        else:
            branches.append(node.orelse)
            break
    common = None
    for b in branches:
        names = {t.id for st in b for n in ast.walk(st) if isinstance(n, ast.Assign) for t in n.targets if isinstance(t, ast.Name)}
        common = names if common is None else common & names
    if not common:
        raise Untranslatable("the branches of forward assign no common variable")
    return common


def _blocks(stmts):
    """every statement list of a function body, nested ones included"""
    yield stmts
    for st in stmts:
        for field in ("body", "orelse", "finalbody"):
            sub = getattr(st, field, None)
            if isinstance(sub, list) and sub and isinstance(sub[0], ast.stmt):
                yield from _blocks(sub)


def _safe_divides(stmts, env):
    """every `safe_divide(N, D)` in source order with its data-flow reading:
    (event string, plan or None, statement, block, index)"""
    out = []
    for block in _blocks(stmts):
        for i, st in enumerate(block):
            if isinstance(st, (ast.If, ast.For, ast.While, ast.With, ast.Try)):
                continue
            for c in [n for n in ast.walk(st) if isinstance(n, ast.Call) and ast.unparse(n.func).endswith("safe_divide") and len(n.args) == 2]:
                ev, plan = _div_event(c, block, i, env)
                out.append((ev, plan, st, block, i, getattr(c, "lineno", 0)))
    out.sort(key=lambda r: getattr(r[2], "lineno", 0))
    return out


def _module_env():
    env = _self_ints(_tree("direct/utils/__init__.py"), "DirectModule")
    if "self.coil_dim" not in env or "self.complex_dim" not in env:
        raise Untranslatable("DirectModule.__init__ does not set coil_dim / complex_dim to integers")
    return env


def _engine_env():
    env = _self_ints(_tree(ENG), "MRIModelEngine")
    if "self._coil_dim" not in env or "self._complex_dim" not in env:
        raise Untranslatable("MRIModelEngine.__init__ does not set _coil_dim / _complex_dim to integers")
    return env


def _rss_branch(fn):
    for st in fn.body:
        node = st
        while isinstance(node, ast.If):
            if "RSS_ESTIMATE" in ast.unparse(node.test):
                return node.body
            node = node.orelse[0] if len(node.orelse) == 1 and isinstance(node.orelse[0], ast.If) else None
    raise Untranslatable("RSS_ESTIMATE branch not found")


def _plan_def(name, doc, plan):
    sq, e, axes, uns = plan
    li = lambda xs: "[" + ", ".join(str(x) for x in xs) + "]"  # noqa: E731
    return (f"/-- translated from {doc}: (sqrt applied, exponent, sum axes, unsqueeze axes) -/\n"
            f"def {name} : Bool × Int × List Int × List Int := ({'true' if sq else 'false'}, {e}, {li(axes)}, {li(uns)})\n")


def _output_write(fn):
    """the statement that writes the output key of `forward` (block, index, value)"""
    hits = []
    for block in _blocks(fn.body):
        for i, st in enumerate(block):
            if isinstance(st, ast.Assign) and ast.unparse(st.targets[0]) in ("sample['sensitivity_map']", 'sample["sensitivity_map"]'):
                hits.append((block, i, st))
    return hits


def _forward_fn():
    fn = _ifn(MT, "EstimateSensitivityMapModule.forward")
    _MAP_NAMES.clear()
    _MAP_NAMES.update(_branch_var(fn))
    return fn


def _engine_fn():
    fn = _ifn(ENG, "MRIModelEngine.compute_sensitivity_map")
    _MAP_NAMES.clear()
    if len(fn.args.args) != 2:
        raise Untranslatable("compute_sensitivity_map(self, maps) expected")
    _MAP_NAMES.add(fn.args.args[1].arg)
    return fn


RSS_EVENT = "safe_divide:self.estimate_acs_image(sample)/rss(same)"
TAIL_EVENT = f"safe_divide:{MAPS}/norm(same)"


def b_rss_plan():
    env = _module_env()
    fn = _forward_fn()
    divs = [d for d in _safe_divides(_rss_branch(fn), env) if d[1] is not None and "/rss(" in d[0]]
    if len(divs) != 1:
        raise Untranslatable("no `safe_divide(x, unsqueeze(root_sum_of_squares(x)))` in the RSS branch")
    if divs[0][0] != RSS_EVENT:
        raise Untranslatable(f"RSS division is `{divs[0][0]}`")
    return _plan_def("estimate_rss_plan", f"`{MT}`:`EstimateSensitivityMapModule.forward` (RSS) + `{T}`:`root_sum_of_squares`", divs[0][1])


def b_norm_plan():
    env = _module_env()
    fn = _forward_fn()
    w = _output_write(fn)
    if len(w) != 1:
        raise Untranslatable(f"{len(w)} writes of sample['sensitivity_map']")
    block, i, st = w[0]
    val = inl.resolve(st.value, block, i)
    if not (isinstance(val, ast.Call) and ast.unparse(val.func).endswith("safe_divide") and len(val.args) == 2):
        raise Untranslatable("the output is not a safe_divide")
    kind, v, plan = _divisor(inl.resolve(val.args[1], block, i), env)
    if kind != "norm" or v != ast.unparse(val.args[0]):
        raise Untranslatable("the output divisor is not the norm of the numerator")
    return _plan_def("estimate_norm_plan", f"`{MT}`:`EstimateSensitivityMapModule.forward` (renormalisation)", plan)


def b_order():
    env = _module_env()
    fn = _forward_fn()
    ev = [d[0] for d in _safe_divides(_rss_branch(fn), env)]
    tail = [st for st in fn.body if not isinstance(st, ast.If)]
    # the tail is read in its top-level block so that definitions made there are visible
    ev += [d[0] for d in _safe_divides(fn.body, env) if any(d[2] is t for t in tail)]
    return (f"/-- translated from `{MT}`:`EstimateSensitivityMapModule.forward`: the guarded divisions of the RSS branch and of the "
            f"tail, each with what its divisor is by data flow -/\n"
            f"def estimate_order : List String := {_strs(ev)}\n")


def _engine_return(fn, env):
    rets = [(b, i, st) for b in _blocks(fn.body) for i, st in enumerate(b) if isinstance(st, ast.Return)]
    if len(rets) != 1 or rets[0][0] is not fn.body:
        raise Untranslatable("compute_sensitivity_map: expected a single top-level return")
    block, i, st = rets[0]
    val = inl.resolve(st.value, block, i)
    return block, i, val


def b_eng_plan():
    env = _engine_env()
    fn = _engine_fn()
    block, i, val = _engine_return(fn, env)
    if not (isinstance(val, ast.Call) and ast.unparse(val.func).endswith("safe_divide") and len(val.args) == 2):
        raise Untranslatable("the returned value is not a safe_divide")
    kind, v, plan = _divisor(inl.resolve(val.args[1], block, i), env)
    if kind != "norm" or v != ast.unparse(val.args[0]):
        raise Untranslatable("the returned divisor is not the norm of the numerator")
    return _plan_def("engine_norm_plan", f"`{ENG}`:`MRIModelEngine.compute_sensitivity_map`", plan)


def b_eng_order():
    env = _engine_env()
    fn = _engine_fn()
    block, i, val = _engine_return(fn, env)
    ev = []
    refine_lines = [n.lineno for st in fn.body[:i] for n in ast.walk(st)
                    if isinstance(n, ast.Call) and ast.unparse(n.func).endswith("compute_model_per_coil")]
    if refine_lines:
        ev.append("refine")
    if isinstance(val, ast.Call) and ast.unparse(val.func).endswith("safe_divide") and len(val.args) == 2:
        ev.append(_div_event(val, block, i, env)[0])
    else:
        ev.append("return-other:" + _canon(ast.unparse(val))[:60])
    # multicoil guard: `<map>.shape[coil_dim] > k` / `.size(coil_dim) > k`, possibly through a local
    thr = None
    for b in _blocks(fn.body):
        for j, st in enumerate(b):
            if isinstance(st, ast.Assign) and ast.unparse(st.targets[0]) == "multicoil":
                c = st.value
                if isinstance(c, ast.Compare) and len(c.ops) == 1 and isinstance(c.ops[0], ast.Gt) and isinstance(_num(c.comparators[0]), int):
                    left = c.left
                    ax = None
                    if isinstance(left, ast.Subscript) and ast.unparse(left.value).endswith(".shape"):
                        ax = _axis(left.slice, env)
                    elif isinstance(left, ast.Call) and isinstance(left.func, ast.Attribute) and left.func.attr == "size" and len(left.args) == 1:
                        ax = _axis(left.args[0], env)
                    if ax == env["self._coil_dim"]:
                        thr = _num(c.comparators[0])
    if thr is None:
        raise Untranslatable("multicoil guard not understood")
    return (f"/-- translated from `{ENG}`:`MRIModelEngine.compute_sensitivity_map`: refinement (if any) precedes the guarded division "
            f"by the norm of what is returned -/\n"
            f"def engine_order : List String := {_strs(ev)}\n"
            f"/-- refinement only when `shape[coil_dim] > engine_multicoil_gt` -/\n"
            f"def engine_multicoil_gt : Int := {thr}\n")


# ---- the Gaussian window --------------------------------------------------------------------------
def _window_if(fn):
    for st in fn.body:
        if isinstance(st, ast.If) and "gaussian_sigma" in ast.unparse(st.test):
            return st
    raise Untranslatable("the `gaussian_sigma` guard of estimate_acs_image not found")


class _Probe:
    def __init__(self, v):
        self.gaussian_sigma = v


SIGMA_PROBES = [("None", None), ("0", 0), ("0.0", 0.0), ("0.5", 0.5), ("-2.0", -2.0)]


def _has_linspace(stmts) -> bool:
    return any(isinstance(n, ast.Call) and ast.unparse(n.func) in ("torch.linspace", "np.linspace", "numpy.linspace")
               for st in stmts for n in ast.walk(st))


def b_window():
    """semantic reading of the window of `estimate_acs_image` (helpers inlined): for which sigma values the window is
    applied (the guard is *evaluated* on probe values), linspace end points, that the number of points is the size
    along `width_dim`, that the exponent is -((x / sigma) ** 2), the axis, and the primitive that applies the ACS mask"""
    fn = _ifn(MT, "EstimateSensitivityMapModule.estimate_acs_image")
    guards = [(b, k, st) for b in _blocks(fn.body) for k, st in enumerate(b)
              if isinstance(st, ast.If) and "gaussian_sigma" in ast.unparse(st.test) and (_has_linspace(st.body) != _has_linspace(st.orelse))]
    if len(guards) != 1:
        raise Untranslatable(f"{len(guards)} window guards in estimate_acs_image")
    block, k, node = guards[0]
    test = inl.resolve(node.test, block, k)
    in_body = _has_linspace(node.body)
    on = []
    for label, v in SIGMA_PROBES:
        try:
            b = bool(eval(compile(ast.Expression(body=test), "<guard>", "eval"), {"__builtins__": {}}, {"self": _Probe(v)}))  # noqa: S307
        except Exception as e:  # noqa: BLE001
            raise Untranslatable(f"window guard `{ast.unparse(test)[:50]}` cannot be evaluated: {e}")
        if b == in_body:
            on.append(label)
    wblock = node.body if in_body else node.orelse
    # linspace call and the exp(-((x / sigma) ** 2)) around it, by data flow inside the window branch
    lin = exp = None
    for bb in _blocks(wblock):
        for q, st in enumerate(bb):
            for n in ast.walk(st):
                if isinstance(n, ast.Call) and ast.unparse(n.func) == "torch.exp" and len(n.args) == 1 and exp is None:
                    exp = inl.resolve(n.args[0], bb, q)
                    # the steps / end points may be locals of the same block
                    for m in ast.walk(exp):
                        if isinstance(m, ast.Call) and ast.unparse(m.func) == "torch.linspace":
                            lin = ast.Call(func=m.func, args=[inl.resolve(a, bb, q) for a in m.args], keywords=m.keywords)
    if exp is None or lin is None or len(lin.args) != 3:
        raise Untranslatable("exp(… linspace(a, b, n) …) not found in the window branch")
    a, b_, steps = lin.args
    if not (isinstance(_num(a), int) and isinstance(_num(b_), int)):
        raise Untranslatable("linspace end points are not integer literals")
    # number of points: X.size(D) / X.shape[D] with D the width_dim parameter
    if isinstance(steps, ast.Call) and isinstance(steps.func, ast.Attribute) and steps.func.attr == "size" and len(steps.args) == 1:
        dim = ast.unparse(steps.args[0])
    elif isinstance(steps, ast.Subscript) and ast.unparse(steps.value).endswith(".shape"):
        dim = ast.unparse(steps.slice)
    else:
        raise Untranslatable(f"number of window points `{ast.unparse(steps)[:40]}`")
    # exponent: -((linspace / sigma) ** 2)
    ok = isinstance(exp, ast.UnaryOp) and isinstance(exp.op, ast.USub)
    if ok:
        pw = exp.operand
        ok = (isinstance(pw, ast.BinOp) and isinstance(pw.op, ast.Pow) and _num(pw.right) == 2 and isinstance(pw.left, ast.BinOp)
              and isinstance(pw.left.op, ast.Div) and isinstance(pw.left.left, ast.Call) and ast.unparse(pw.left.left.func) == "torch.linspace")
    if not ok:
        raise Untranslatable(f"window weight is not exp(-((linspace / s) ** 2)): `{ast.unparse(exp)[:60]}`")
    sigma_txt = ast.unparse(exp.operand.left.right)
    names = [x.arg for x in fn.args.args]
    if "width_dim" not in names or dim != "width_dim":
        raise Untranslatable("the window does not run along the width_dim parameter")
    dflt = fn.args.defaults[names.index("width_dim") - (len(names) - len(fn.args.defaults))]
    axis = _num(dflt)
    on_axis = any(isinstance(n, ast.Subscript) and isinstance(n.ctx, ast.Store) and ast.unparse(n.slice) == "width_dim"
                  for st in wblock for n in ast.walk(st))
    if not (isinstance(axis, int) and on_axis):
        raise Untranslatable("window axis")
    # the primitive(s) that see the ACS mask
    prims = sorted({ast.unparse(n.func) for n in ast.walk(fn) if isinstance(n, ast.Call)
                    and any("acs_mask" in ast.unparse(x) for x in list(n.args) + [kw.value for kw in n.keywords])})
    mult = [n for st in wblock for n in ast.walk(st) if isinstance(n, ast.BinOp) and isinstance(n.op, ast.Mult)]
    if not mult:
        raise Untranslatable("the window branch does not multiply")
    return ("/-- translated from `estimate_acs_image` (helpers inlined): linspace end points, axis parameter of the number of points, "
            "divisor of the exponent -/\n"
            f"def window_linspace : Int × Int × String × String := ({_num(a)}, {_num(b_)}, {_s(dim)}, {_s(sigma_txt)})\n"
            f"/-- the probe values of sigma (None, 0, 0.0, 0.5, -2.0) for which the window is applied: the guard evaluated -/\n"
            f"def window_on_for : List String := {_strs(on)}\n"
            f"/-- the primitives that receive the ACS mask -/\n"
            f"def acs_mask_primitives : List String := {_strs(prims)}\n"
            f"/-- default of `width_dim` -/\n"
            f"def window_axis : Int := {axis}\n")


def b_apply_mask_where():
    """the `torch.where` inside `T.apply_mask` (what `estimate_acs_image` masks the k-space with)"""
    fn = _fn(T, "apply_mask")
    wh = [n for n in ast.walk(fn) if isinstance(n, ast.Call) and ast.unparse(n.func) == "torch.where" and len(n.args) == 3]
    if len(wh) != 1:
        raise Untranslatable(f"{len(wh)} torch.where calls in apply_mask")
    cond, x, y = wh[0].args
    node = x
    while isinstance(node, ast.Call) and isinstance(node.func, ast.Attribute) and node.func.attr == "to":
        node = node.func.value
    zero = None
    if isinstance(node, ast.Call) and ast.unparse(node.func) in ("torch.tensor", "torch.as_tensor") and node.args:
        a = node.args[0]
        zero = _num(a.elts[0]) if isinstance(a, (ast.List, ast.Tuple)) and len(a.elts) == 1 else _num(a)
    elif _num(node) is not None:
        zero = _num(node)
    if zero is None or zero != 0:
        raise Untranslatable(f"apply_mask: where-value `{ast.unparse(x)[:50]}` is not the constant 0")
    tgt = [ast.unparse(st.targets[0]) for st in all_stmts(fn) if isinstance(st, ast.Assign) and st.value is wh[0]]
    rets = [ast.unparse(r.value) for r in ast.walk(fn) if isinstance(r, ast.Return) and r.value is not None]
    if not tgt or tgt[0] not in rets:
        raise Untranslatable("apply_mask does not return the torch.where result when return_mask is false")
    return ("/-- translated from `apply_mask`: (condition, value where it holds, value elsewhere) -/\n"
            f"def acs_mask_where : String × String × String := ({_s(ast.unparse(cond))}, \"0\", {_s(ast.unparse(y))})\n")


WINDOW_FALLBACK = ("def window_linspace : Int × Int × String × String := windowLinspace\n"
                   "def window_on_for : List String := windowOnFor\n"
                   "def acs_mask_primitives : List String := acsMaskPrimitives\n"
                   "def window_axis : Int := -2\n")


# ---- forward: branch table --------------------------------------------------------------------------
def b_forward_branches():
    env = _module_env()
    fn = _forward_fn()
    top = [st for st in fn.body if isinstance(st, ast.If)]
    rows, node, limit = [], top[0], None

    def classify(body):
        last = None
        for bb in _blocks(body):
            for q, st in enumerate(bb):
                if isinstance(st, ast.Assign) and len(st.targets) == 1 and isinstance(st.targets[0], ast.Name) and st.targets[0].id in _MAP_NAMES:
                    last = (bb, q, st)
        if last is None:
            raise Untranslatable("a branch of forward does not assign the map variable")
        bb, q, st = last
        val = inl.resolve(st.value, bb, q)
        txt = ast.unparse(val)
        if "espirit_calibrator(" in txt:
            return "espirit_calibrator"
        if isinstance(val, ast.Call) and ast.unparse(val.func).endswith("safe_divide") and len(val.args) == 2:
            return _div_event(val, bb, q, env)[0]
        fills = [n for x in body for n in ast.walk(x) if isinstance(n, ast.Assign) and isinstance(n.targets[0], ast.Subscript)
                 and inl.root_name(n.targets[0]) in _MAP_NAMES]
        if fills and ("zeros" in txt or "zeros" in "".join(ast.unparse(x) for x in body)):
            return "unit-fill"
        raise Untranslatable(f"branch value `{txt[:50]}`")

    while True:
        test = ast.unparse(node.test)
        members = [m for m in ("UNIT", "RSS_ESTIMATE", "ESPIRIT") if "SensitivityMapType." + m in test]
        if len(members) != 1 or not (isinstance(node.test, ast.Compare) and isinstance(node.test.ops[0], ast.Eq)):
            raise Untranslatable(f"branch test `{test[:60]}`")
        rows.append((members[0], classify(node.body)))
        if len(node.orelse) == 1 and isinstance(node.orelse[0], ast.If):
            node = node.orelse[0]
            continue
        if not node.orelse:
            raise Untranslatable("forward has no else branch")
        rows.append(("else", classify(node.orelse)))
        for st in node.orelse:
            if isinstance(st, ast.If) and ".ndim" in ast.unparse(st.test) and isinstance(st.test, ast.Compare) \
                    and isinstance(st.test.ops[0], ast.Gt) and any(isinstance(x, ast.Raise) for x in st.body):
                limit = _num(st.test.comparators[0])
        break
    if not isinstance(limit, int):
        raise Untranslatable("rank limit of the ESPIRiT branch")
    writes = []
    for block, q, st in _output_write(fn):
        val = inl.resolve(st.value, block, q)
        if isinstance(val, ast.Call) and ast.unparse(val.func).endswith("safe_divide") and len(val.args) == 2:
            writes.append(_div_event(val, block, q, env)[0])
        else:
            writes.append("other:" + _canon(ast.unparse(val))[:60])
    return ("/-- translated from `forward` (helpers inlined, data flow): (map type tested, what the branch leaves in the map variable) -/\n"
            "def forward_branches : List (String × String) := [" + ", ".join(f"({_s(a)}, {_s(b)})" for a, b in rows) + "]\n"
            f"/-- every value written to `sample['sensitivity_map']` -/\n"
            f"def forward_output_writes : List String := {_strs(writes)}\n"
            f"/-- the ESPIRiT branch raises NotImplementedError when the batched rank exceeds this -/\n"
            f"def espirit_rank_limit : Int := {limit}\n")


FORWARD_FALLBACK = ("def forward_branches : List (String × String) := forwardBranches\n"
                    "def forward_output_writes : List String := forwardOutputWrites\n"
                    "def espirit_rank_limit : Int := espiritRankLimit\n")


# ---- effects ------------------------------------------------------------------------------------------
EFFECT_FUNCS = [(MT, "EstimateSensitivityMapModule.forward"), (MT, "EstimateSensitivityMapModule.estimate_acs_image"),
                (ENG, "MRIModelEngine.compute_sensitivity_map"), (ENG, "MRIModelEngine.compute_model_per_coil"),
                (T, "safe_divide"), (T, "root_sum_of_squares")]
NO_EARLY_RETURN = ("EstimateSensitivityMapModule.forward", "EstimateSensitivityMapModule.estimate_acs_image",
                   "MRIModelEngine.compute_sensitivity_map", "MRIModelEngine.compute_model_per_coil", "safe_divide")


def effects_of(fn: ast.FunctionDef, qual: str):
    """semantic effect rows of a function (private helpers already inlined): writes that reach an *input* (a parameter or
    a view of one), writes of instance state, writes of sample keys, in-place calls on inputs, return structure.  Stores
    and in-place operations on fresh locals are not effects."""
    rows = []
    taint = inl.tainted_names(fn)
    params = {a.arg for a in fn.args.args}

    def is_sample(e):
        return isinstance(e, ast.Subscript) and isinstance(e.value, ast.Name) and e.value.id in params and e.value.id != "self" \
            and isinstance(e.slice, ast.Constant) and isinstance(e.slice.value, str)

    for n in ast.walk(fn):
        if isinstance(n, (ast.Assign, ast.AnnAssign, ast.AugAssign)):
            targets = n.targets if isinstance(n, ast.Assign) else [n.target]
            for t in targets:
                for tt in (t.elts if isinstance(t, (ast.Tuple, ast.List)) else [t]):
                    root = inl.root_name(tt)
                    if isinstance(n, ast.AugAssign):
                        if root in taint:
                            rows.append((qual, "input-augassign", "param" if root in params else "view-of-param"))
                    elif isinstance(tt, ast.Attribute) and root == "self":
                        rows.append((qual, "state-store", ast.unparse(tt)))
                    elif is_sample(tt):
                        rows.append((qual, "dict-key-write", tt.slice.value))
                    elif isinstance(tt, (ast.Subscript, ast.Attribute)) and root in taint:
                        rows.append((qual, "input-store", "param" if root in params else "view-of-param"))
        elif isinstance(n, ast.Call) and isinstance(n.func, ast.Attribute) and n.func.attr.endswith("_") and not n.func.attr.endswith("__"):
            if inl.root_name(n.func.value) in taint:
                rows.append((qual, "input-inplace-call", n.func.attr))
        elif isinstance(n, ast.Call) and any(k.arg == "out" for k in n.keywords):
            rows.append((qual, "out-kwarg", ast.unparse(n.func)))
        elif isinstance(n, (ast.Global, ast.Nonlocal)):
            rows.append((qual, type(n).__name__.lower(), ast.unparse(n)))
        elif isinstance(n, ast.Delete) and any(inl.root_name(t) in taint for t in n.targets):
            rows.append((qual, "input-delete", ast.unparse(n)))
    if qual in NO_EARLY_RETURN:
        rets = [n for n in ast.walk(fn) if isinstance(n, ast.Return)]
        last_is_return = isinstance(fn.body[-1], ast.Return)
        rows.append((qual, "return-count", str(len(rets)) if last_is_return else f"{len(rets)}-not-last"))
    seen, out = set(), []
    for r in rows:
        if r not in seen:
            seen.add(r)
            out.append(r)
    return out


def b_effects():
    rows = []
    for file, qual in EFFECT_FUNCS:
        rows += effects_of(_ifn(file, qual), qual)
    return ("/-- stores, augmented assignments, in-place calls and return counts of the functions that decide C09 -/\n"
            "def sens_effects : List (String × String × String) := [\n"
            + ",\n".join(f"  ({_s(a)}, {_s(b)}, {_s(c)})" for a, b, c in rows) + "\n]\n")


# ---- option forwarding ---------------------------------------------------------------------------------
def b_forwarding():
    from ..pyexpr import parse_file
    tree = parse_file(_repo() / MT)
    sites = []
    for fn in [n for n in tree.body if isinstance(n, ast.FunctionDef)]:
        for n in ast.walk(fn):
            if isinstance(n, ast.Call) and ast.unparse(n.func) in ("EstimateSensitivityMapModule", "EstimateSensitivityMap"):
                if n.args or any(k.arg is None for k in n.keywords):
                    raise Untranslatable(f"positional / ** arguments at a constructor site in {fn.name}")
                sites.append((f"{fn.name}:{ast.unparse(n.func)}", [(k.arg, ast.unparse(k.value)) for k in n.keywords]))
    passth = []
    bm = _fn(MT, "build_mri_transforms")
    for n in ast.walk(bm):
        if isinstance(n, ast.Call) and ast.unparse(n.func) == "build_supervised_mri_transforms":
            passth = [(k.arg, ast.unparse(k.value)) for k in n.keywords if k.arg and "sensitivity_maps" in k.arg]
    if not sites or not passth:
        raise Untranslatable("constructor sites / build_supervised_mri_transforms call not found")
    return ("/-- every place in mri_transforms.py that constructs the module, with its keyword arguments -/\n"
            "def ctor_sites : List (String × List (String × String)) := [\n"
            + ",\n".join(f"  ({_s(a)}, [" + ", ".join(f"({_s(k)}, {_s(v)})" for k, v in kws) + "])" for a, kws in sites) + "\n]\n"
            "/-- the sensitivity-map options `build_mri_transforms` hands to `build_supervised_mri_transforms` -/\n"
            "def builder_passthrough : List (String × String) := [" + ", ".join(f"({_s(k)}, {_s(v)})" for k, v in passth) + "]\n")


# ---- single definition ----------------------------------------------------------------------------------
def b_defs():
    from ..pyexpr import parse_file
    rows = []
    root = pathlib.Path(_repo()) / "direct"
    for path in sorted(root.rglob("*.py")):
        try:
            tree = parse_file(path)
        except SyntaxError:
            continue
        for cls in [n for n in ast.walk(tree) if isinstance(n, ast.ClassDef)]:
            for fn in cls.body:
                if isinstance(fn, (ast.FunctionDef, ast.AsyncFunctionDef)) and fn.name == "compute_sensitivity_map":
                    rows.append((str(path.relative_to(_repo())), f"{cls.name}.{fn.name}"))
            for st in cls.body:          # `compute_sensitivity_map = something` in a class body is an override too
                if isinstance(st, ast.Assign) and any(ast.unparse(t) == "compute_sensitivity_map" for t in st.targets):
                    rows.append((str(path.relative_to(_repo())), f"{cls.name}.compute_sensitivity_map(assigned)"))
    return ("/-- every definition of `compute_sensitivity_map` under `direct/` -/\n"
            "def compute_sensitivity_map_defs : List (String × String) := [" + ", ".join(f"({_s(a)}, {_s(b)})" for a, b in rows) + "]\n")


# ---- engine: which model, permutations --------------------------------------------------------------------
def _cond(node) -> str:
    if isinstance(node, ast.BoolOp):
        op = " && " if isinstance(node.op, ast.And) else " || "
        return "(" + op.join(_cond(v) for v in node.values) + ")"
    if isinstance(node, ast.UnaryOp) and isinstance(node.op, ast.Not):
        return "(!" + _cond(node.operand) + ")"
    if isinstance(node, ast.Name) and node.id == "multicoil":
        return "multicoil"
    if isinstance(node, ast.Compare) and len(node.ops) == 1:
        l, r = node.left, node.comparators[0]
        if isinstance(node.ops[0], ast.Gt) and isinstance(_num(r), int) and (
                (isinstance(l, ast.Subscript) and ast.unparse(l.value).endswith(".shape") and "coil_dim" in ast.unparse(l.slice))
                or (isinstance(l, ast.Call) and isinstance(l.func, ast.Attribute) and l.func.attr == "size" and l.args
                    and "coil_dim" in ast.unparse(l.args[0]))):
            return "multicoil"               # the threshold itself is `engine_multicoil_gt`
        if isinstance(node.ops[0], (ast.In, ast.NotIn)) and ast.unparse(r) in ("self.models", "self.models.keys()") and isinstance(l, ast.Constant):
            base = "has2d" if l.value == "sensitivity_model" else "has3d" if l.value == "sensitivity_model_3d" else None
            if base:
                return base if isinstance(node.ops[0], ast.In) else f"(!{base})"
        if isinstance(node.ops[0], (ast.Eq, ast.NotEq)) and ast.unparse(l) == "self.ndim" and isinstance(_num(r), int):
            c = f"decide (ndim = {_num(r)})"
            return c if isinstance(node.ops[0], ast.Eq) else f"(!{c})"
    raise Untranslatable(f"condition `{ast.unparse(node)[:60]}`")


def _leaf(value) -> str:
    calls = [n for n in ast.walk(value) if isinstance(n, ast.Call) and ast.unparse(n.func).endswith("compute_model_per_coil")]
    if len(calls) != 1 or not (calls[0].args and isinstance(calls[0].args[0], ast.Constant)):
        raise Untranslatable(f"refinement leaf `{ast.unparse(value)[:60]}`")
    name = calls[0].args[0].value
    in_comp = any(isinstance(n, (ast.ListComp, ast.GeneratorExp)) and any(c is calls[0] for c in ast.walk(n)) for n in ast.walk(value))
    if name == "sensitivity_model":
        return "(if has2d then 3 else 4)" if in_comp else "(if has2d then 1 else 4)"
    if name == "sensitivity_model_3d" and not in_comp:
        return "(if has3d then 2 else 4)"
    raise Untranslatable(f"refinement leaf `{ast.unparse(value)[:60]}`")


def _refines(st) -> bool:
    return any(isinstance(n, ast.Call) and ast.unparse(n.func).endswith("compute_model_per_coil") for n in ast.walk(st))


def _block(stmts) -> str:
    """decision tree of the statements that reach `compute_model_per_coil` (other statements are skipped; conditions
    are resolved through local aliases)"""
    for q, st in enumerate(stmts):
        if not _refines(st):
            continue
        if isinstance(st, ast.If):
            els = _block(st.orelse) if any(_refines(x) for x in st.orelse) else "0"
            thn = _block(st.body) if any(_refines(x) for x in st.body) else "0"
            return f"(if {_cond(inl.resolve(st.test, stmts, q))} then {thn} else {els})"
        if isinstance(st, (ast.Assign, ast.Return)):
            return _leaf(st.value)
        raise Untranslatable(f"refinement inside `{type(st).__name__}`")
    raise Untranslatable("a branch without refinement call")


def _perm_for(arg, ndim: int, fn) -> list:
    """the permutation tuple a `permute(arg)` call receives when `self.ndim == ndim`"""
    def pick(test) -> bool:
        c = _cond(test)
        if c == "decide (ndim = 2)":
            return ndim == 2
        if c == "(!decide (ndim = 2))":
            return ndim != 2
        if c == "decide (ndim = 3)":
            return ndim == 3
        raise Untranslatable("permute selector")

    if isinstance(arg, ast.IfExp):
        return _perm_for(arg.body if pick(arg.test) else arg.orelse, ndim, fn)
    if isinstance(arg, ast.Tuple) and all(isinstance(_num(e), int) for e in arg.elts):
        return [int(_num(e)) for e in arg.elts]
    if isinstance(arg, ast.Name):
        # a local chosen in an `if self.ndim == 2: … else: …` (single or tuple assignment)
        def find(stmts):
            val = None
            for st in stmts:
                if isinstance(st, ast.If) and "ndim" in ast.unparse(st.test):
                    try:
                        sub = find(st.body if pick(st.test) else st.orelse)
                    except Untranslatable:
                        sub = None
                    if sub is not None:
                        val = sub
                elif isinstance(st, ast.If):
                    for blk in (st.body, st.orelse):
                        sub = find(blk)
                        if sub is not None:
                            val = sub
                elif isinstance(st, ast.Assign) and len(st.targets) == 1:
                    t, v = st.targets[0], st.value
                    if isinstance(t, ast.Name) and t.id == arg.id:
                        val = v
                    elif isinstance(t, ast.Tuple) and isinstance(v, ast.Tuple) and len(t.elts) == len(v.elts):
                        for e, vv in zip(t.elts, v.elts):
                            if isinstance(e, ast.Name) and e.id == arg.id:
                                val = vv
            return val
        v = find(fn.body)
        if v is not None and not (isinstance(v, ast.Name) and v.id == arg.id):
            return _perm_for(v, ndim, fn)
    raise Untranslatable(f"permute argument `{ast.unparse(arg)[:40]}`")


def b_choice():
    fn = _engine_fn()
    tops = [(q, st) for q, st in enumerate(fn.body) if _refines(st)]
    if len(tops) != 1 or not isinstance(tops[0][1], ast.If) or any(_refines(x) for x in tops[0][1].orelse):
        raise Untranslatable("compute_sensitivity_map: expected one top-level `if` around the refinement")
    q, top = tops[0]
    body = f"(if {_cond(inl.resolve(top.test, fn.body, q))} then {_block(top.body)} else 0)"
    pcalls = sorted([n for n in ast.walk(fn) if isinstance(n, ast.Call) and isinstance(n.func, ast.Attribute) and n.func.attr == "permute"
                     and len(n.args) == 1], key=lambda n: (n.lineno, n.col_offset))
    if len(pcalls) != 2:
        raise Untranslatable(f"{len(pcalls)} permute calls")
    perms = [(_perm_for(c.args[0], 2, fn), _perm_for(c.args[0], 3, fn)) for c in pcalls]
    li = lambda xs: "[" + ", ".join(map(str, xs)) + "]"  # noqa: E731
    return ("/-- translated from the branch structure of `compute_sensitivity_map`, helpers inlined (0 none, 1 2-D model, 2 3-D model, "
            "3 2-D model per slice, 4 KeyError) -/\n"
            f"def engine_model_choice (multicoil has2d has3d : Bool) (ndim : Int) : Nat :=\n  {body}\n"
            f"def engine_perm_in_2d : List Nat := {li(perms[0][0])}\ndef engine_perm_in_3d : List Nat := {li(perms[0][1])}\n"
            f"def engine_perm_out_2d : List Nat := {li(perms[1][0])}\ndef engine_perm_out_3d : List Nat := {li(perms[1][1])}\n")


# ---- how enum-valued options are compared ------------------------------------------------------------------
ENUM_CLASSES = [(MT, "EstimateSensitivityMapModule"), ("direct/algorithms/mri_algorithms.py", "EspiritCalibration")]


def b_enum_compares():
    """every comparison / membership test / key use of an enum-valued option (a constructor parameter annotated with a
    `DirectEnum` subclass, and the attribute it is stored in) in the covered classes.  `DirectEnum.__eq__` is case-insensitive
    against strings while its hash is not the string's hash: only `==` / `!=` treat every accepted form alike."""
    from ..pyexpr import parse_file
    types = parse_file(_repo() / "direct/types.py")
    enums = {c.name for c in types.body if isinstance(c, ast.ClassDef) and any("DirectEnum" in ast.unparse(b) for b in c.bases)}
    mtree = _tree(MT)
    enums |= {c.name for c in mtree.body if isinstance(c, ast.ClassDef) and any("DirectEnum" in ast.unparse(b) for b in c.bases)}
    rows = []
    for file, cname in ENUM_CLASSES:
        tree = _tree(file)
        cls = [c for c in tree.body if isinstance(c, ast.ClassDef) and c.name == cname]
        if not cls:
            raise Untranslatable(f"class {cname} not found")
        cls = cls[0]
        init = [f for f in cls.body if isinstance(f, ast.FunctionDef) and f.name == "__init__"]
        if not init:
            raise Untranslatable(f"{cname}.__init__ not found")
        params = {a.arg for a in init[0].args.args if a.annotation is not None and any(e in ast.unparse(a.annotation) for e in enums)}
        attrs = set()
        for st in ast.walk(init[0]):
            if isinstance(st, ast.Assign) and isinstance(st.value, ast.Name) and st.value.id in params:
                for t in st.targets:
                    if isinstance(t, ast.Attribute) and ast.unparse(t.value) == "self":
                        attrs.add("self." + t.attr)

        def opt(e, fname):
            t = ast.unparse(e)
            if t in attrs:
                return t[5:]
            if fname == "__init__" and isinstance(e, ast.Name) and e.id in params:
                return e.id
            return None

        opname = {ast.Eq: "==", ast.NotEq: "!=", ast.Is: "is", ast.IsNot: "is not", ast.In: "in", ast.NotIn: "not in"}
        for fn in [f for f in cls.body if isinstance(f, ast.FunctionDef)]:
            for n in ast.walk(fn):
                if isinstance(n, ast.Compare):
                    operands = [n.left] + list(n.comparators)
                    for k, op in enumerate(n.ops):
                        for side in (operands[k], operands[k + 1]):
                            o = opt(side, fn.name)
                            if o:
                                rows.append((f"{cname}.{fn.name}", o, opname.get(type(op), type(op).__name__)))
                elif isinstance(n, ast.Subscript) and opt(n.slice, fn.name):
                    rows.append((f"{cname}.{fn.name}", opt(n.slice, fn.name), "subscript-key"))
                elif isinstance(n, ast.Call) and isinstance(n.func, ast.Attribute) and n.func.attr in ("get", "pop", "index", "count") \
                        and any(opt(a, fn.name) for a in n.args):
                    rows.append((f"{cname}.{fn.name}", [opt(a, fn.name) for a in n.args if opt(a, fn.name)][0], "lookup:" + n.func.attr))
                elif isinstance(n, ast.Match) and opt(n.subject, fn.name):
                    rows.append((f"{cname}.{fn.name}", opt(n.subject, fn.name), "match"))
                elif isinstance(n, (ast.Dict, ast.Set)):
                    keys = n.keys if isinstance(n, ast.Dict) else n.elts
                    for kx in keys:
                        if kx is not None and opt(kx, fn.name):
                            rows.append((f"{cname}.{fn.name}", opt(kx, fn.name), "hashed-literal"))
    seen, out = set(), []
    for r in rows:
        if r not in seen:
            seen.add(r)
            out.append(r)
    if not any(r[1] == "type_of_map" for r in out):
        raise Untranslatable("no comparison of type_of_map found")
    return ("/-- how enum-valued options are compared in the covered classes: (function, option, operator) -/\n"
            "def enum_compares : List (String × String × String) := [\n"
            + ",\n".join(f"  ({_s(a)}, {_s(b)}, {_s(c)})" for a, b, c in out) + "\n]\n")


CHOICE_FALLBACK = ("def engine_model_choice (multicoil has2d has3d : Bool) (ndim : Int) : Nat := modelChoice multicoil has2d has3d ndim\n"
                   "def engine_perm_in_2d : List Nat := permIn2d\ndef engine_perm_in_3d : List Nat := permIn3d\n"
                   "def engine_perm_out_2d : List Nat := permOut2d\ndef engine_perm_out_3d : List Nat := permOut3d\n")

TABLES = [
    ("gaussian_window", b_window, WINDOW_FALLBACK),
    ("acs_mask_where", b_apply_mask_where, "def acs_mask_where : String × String × String := applyMaskWhere\n"),
    ("forward_branches", b_forward_branches, FORWARD_FALLBACK),
    ("sens_effects", b_effects, "def sens_effects : List (String × String × String) := []\n"),
    ("option_forwarding", b_forwarding, "def ctor_sites : List (String × List (String × String)) := []\n"
                                        "def builder_passthrough : List (String × String) := passthroughRequired\n"),
    ("compute_sensitivity_map_defs", b_defs, "def compute_sensitivity_map_defs : List (String × String) := computeDefs\n"),
    ("engine_model_choice", b_choice, CHOICE_FALLBACK),
    ("enum_compares", b_enum_compares, "def enum_compares : List (String × String × String) := []\n"),
]
