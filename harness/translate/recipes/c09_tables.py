"""C09 phase-3 structural tables: the Gaussian window (coordinates, weight, guard, axis), the branch table of
`EstimateSensitivityMapModule.forward`, effects (state writes / in-place / early returns) of the functions that decide
the property, option forwarding of every constructor site, the single definition of `compute_sensitivity_map`, the
engine's choice of refinement model and its channel-first permutations."""
from __future__ import annotations

import ast
import pathlib

from ..gen import Untranslatable, all_stmts

T = "direct/data/transforms.py"
MT = "direct/data/mri_transforms.py"
ENG = "direct/nn/mri_models.py"


def _repo():
    from ..gen import REPO
    return REPO


def _fn(file, qual):
    from ..pyexpr import find_function, parse_file
    return find_function(parse_file(_repo() / file), qual)


def _num(node):
    if isinstance(node, ast.UnaryOp) and isinstance(node.op, ast.USub):
        v = _num(node.operand)
        return None if v is None else -v
    if isinstance(node, ast.Constant) and isinstance(node.value, (int, float)) and not isinstance(node.value, bool):
        return node.value
    return None


def _s(x: str) -> str:
    return '"' + x.replace("\\", "\\\\").replace('"', "'") + '"'


def _strs(xs) -> str:
    return "[" + ", ".join(_s(x) for x in xs) + "]"


# ---- the Gaussian window --------------------------------------------------------------------------
def _window_if(fn):
    for st in fn.body:
        if isinstance(st, ast.If) and "gaussian_sigma" in ast.unparse(st.test):
            return st
    raise Untranslatable("the `gaussian_sigma` guard of estimate_acs_image not found")


def b_window():
    fn = _fn(MT, "EstimateSensitivityMapModule.estimate_acs_image")
    node = _window_if(fn)
    # guard: `self.gaussian_sigma == 0 or not self.gaussian_sigma` (either order) selects the plain branch
    t = node.test
    if not (isinstance(t, ast.BoolOp) and isinstance(t.op, ast.Or) and len(t.values) == 2):
        raise Untranslatable(f"window guard `{ast.unparse(t)}`")
    clauses = sorted(ast.unparse(v) for v in t.values)
    assigns = [st for st in node.orelse if isinstance(st, ast.Assign) and ast.unparse(st.targets[0]) == "gaussian_mask"]
    if len(assigns) < 2:
        raise Untranslatable("window branch: fewer than two assignments to gaussian_mask")
    lin, ex = assigns[0].value, assigns[1].value
    if not (isinstance(lin, ast.Call) and ast.unparse(lin.func) == "torch.linspace" and len(lin.args) == 3
            and isinstance(_num(lin.args[0]), int) and isinstance(_num(lin.args[1]), int)):
        raise Untranslatable(f"window coordinates are not torch.linspace(a, b, n): `{ast.unparse(lin)[:60]}`")
    # weight: exp(-((gaussian_mask / sigma) ** 2))
    ok = (isinstance(ex, ast.Call) and ast.unparse(ex.func) == "torch.exp" and len(ex.args) == 1
          and isinstance(ex.args[0], ast.UnaryOp) and isinstance(ex.args[0].op, ast.USub))
    if ok:
        pw = ex.args[0].operand
        ok = (isinstance(pw, ast.BinOp) and isinstance(pw.op, ast.Pow) and _num(pw.right) == 2 and isinstance(pw.left, ast.BinOp)
              and isinstance(pw.left.op, ast.Div) and ast.unparse(pw.left.left) == "gaussian_mask")
    if not ok:
        raise Untranslatable(f"window weight is not exp(-((gaussian_mask / s) ** 2)): `{ast.unparse(ex)[:60]}`")
    sigma_txt = ast.unparse(ex.args[0].operand.left.right)
    # the plain branch multiplies by the mask only; the window branch by mask and window
    plain = [ast.unparse(st.value) for st in node.body if isinstance(st, ast.Assign) and ast.unparse(st.targets[0]) == "kspace_acs"]
    wind = [ast.unparse(st.value) for st in node.orelse if isinstance(st, ast.Assign) and ast.unparse(st.targets[0]) == "kspace_acs"]
    if len(plain) != 1 or len(wind) != 1:
        raise Untranslatable("kspace_acs assignments")
    # axis: default of width_dim, and the reshape puts the window on that axis
    names = [a.arg for a in fn.args.args]
    if "width_dim" not in names:
        raise Untranslatable("no width_dim parameter")
    dflt = fn.args.defaults[names.index("width_dim") - (len(names) - len(fn.args.defaults))]
    axis = _num(dflt)
    on_axis = any(isinstance(st, ast.Assign) and ast.unparse(st.targets[0]) == "gaussian_mask_shape[width_dim]" for st in node.orelse)
    steps = ast.unparse(lin.args[2])
    if not (isinstance(axis, int) and on_axis and "width_dim" in steps):
        raise Untranslatable("window axis")
    return ("/-- translated from `estimate_acs_image`: linspace end points, number of points, divisor of the exponent -/\n"
            f"def window_linspace : Int × Int × String × String := ({_num(lin.args[0])}, {_num(lin.args[1])}, {_s(steps)}, {_s(sigma_txt)})\n"
            f"/-- the clauses of the guard that switches the window off -/\n"
            f"def window_guard : List String := {_strs(clauses)}\n"
            f"/-- what the plain / the window branch multiply the k-space by -/\n"
            f"def window_products : String × String := ({_s(plain[0])}, {_s(wind[0])})\n"
            f"/-- default of `width_dim` -/\n"
            f"def window_axis : Int := {axis}\n")


def b_apply_mask_where():
    """the `torch.where` inside `T.apply_mask` (what `estimate_acs_image` masks the k-space with)"""
    fn = _fn(T, "apply_mask")
    wh = [n for n in ast.walk(fn) if isinstance(n, ast.Call) and ast.unparse(n.func) == "torch.where" and len(n.args) == 3]
    if len(wh) != 1:
        raise Untranslatable(f"{len(wh)} torch.where calls in apply_mask")
    cond, x, y = wh[0].args
    node = x
    while isinstance(node, ast.Call) and isinstance(node.func, ast.Attribute) and node.func.attr == "to":
        node = node.func.value
    zero = None
    if isinstance(node, ast.Call) and ast.unparse(node.func) in ("torch.tensor", "torch.as_tensor") and node.args:
        a = node.args[0]
        zero = _num(a.elts[0]) if isinstance(a, (ast.List, ast.Tuple)) and len(a.elts) == 1 else _num(a)
    elif _num(node) is not None:
        zero = _num(node)
    if zero is None or zero != 0:
        raise Untranslatable(f"apply_mask: where-value `{ast.unparse(x)[:50]}` is not the constant 0")
    tgt = [ast.unparse(st.targets[0]) for st in all_stmts(fn) if isinstance(st, ast.Assign) and st.value is wh[0]]
    rets = [ast.unparse(r.value) for r in ast.walk(fn) if isinstance(r, ast.Return) and r.value is not None]
    if not tgt or tgt[0] not in rets:
        raise Untranslatable("apply_mask does not return the torch.where result when return_mask is false")
    return ("/-- translated from `apply_mask`: (condition, value where it holds, value elsewhere) -/\n"
            f"def acs_mask_where : String × String × String := ({_s(ast.unparse(cond))}, \"0\", {_s(ast.unparse(y))})\n")


WINDOW_FALLBACK = ("def window_linspace : Int × Int × String × String := windowLinspace\n"
                   "def window_guard : List String := windowGuardClauses\n"
                   "def window_products : String × String := windowProducts\n"
                   "def window_axis : Int := -2\n")


# ---- forward: branch table --------------------------------------------------------------------------
def b_forward_branches():
    fn = _fn(MT, "EstimateSensitivityMapModule.forward")
    top = [st for st in fn.body if isinstance(st, ast.If)]
    if len(top) != 1:
        raise Untranslatable(f"{len(top)} top-level if statements in forward")
    rows, node, limit = [], top[0], None

    def classify(body):
        last = None
        for st in all_stmts(ast.Module(body=body, type_ignores=[])):
            if isinstance(st, ast.Assign) and ast.unparse(st.targets[0]) == "sensitivity_map":
                last = st.value
        if last is None:
            raise Untranslatable("a branch of forward does not assign sensitivity_map")
        txt = ast.unparse(last)
        if "espirit_calibrator(" in txt:
            return "espirit_calibrator"
        if isinstance(last, ast.Call) and ast.unparse(last.func).endswith("safe_divide") and len(last.args) == 2:
            return "safe_divide:" + ast.unparse(last.args[0]) + "/" + ast.unparse(last.args[1])
        if any(isinstance(st, ast.Assign) and isinstance(st.targets[0], ast.Subscript)
               and ast.unparse(st.targets[0].value) == "sensitivity_map" for st in body) and "zeros" in "".join(ast.unparse(b) for b in body):
            return "unit-fill"
        raise Untranslatable(f"branch value `{txt[:50]}`")

    while True:
        test = ast.unparse(node.test)
        members = [m for m in ("UNIT", "RSS_ESTIMATE", "ESPIRIT") if "SensitivityMapType." + m in test]
        if len(members) != 1 or not (isinstance(node.test, ast.Compare) and isinstance(node.test.ops[0], ast.Eq)):
            raise Untranslatable(f"branch test `{test[:60]}`")
        rows.append((members[0], classify(node.body)))
        if len(node.orelse) == 1 and isinstance(node.orelse[0], ast.If):
            node = node.orelse[0]
            continue
        if not node.orelse:
            raise Untranslatable("forward has no else branch")
        rows.append(("else", classify(node.orelse)))
        for st in node.orelse:
            if isinstance(st, ast.If) and ".ndim" in ast.unparse(st.test) and isinstance(st.test, ast.Compare) \
                    and isinstance(st.test.ops[0], ast.Gt) and any(isinstance(x, ast.Raise) for x in st.body):
                limit = _num(st.test.comparators[0])
        break
    if not isinstance(limit, int):
        raise Untranslatable("rank limit of the ESPIRiT branch")
    writes = [ast.unparse(st.value) for st in all_stmts(fn) if isinstance(st, ast.Assign)
              and ast.unparse(st.targets[0]) in ("sample['sensitivity_map']", 'sample["sensitivity_map"]')]
    return ("/-- translated from `forward`: (map type tested, what the branch leaves in `sensitivity_map`) -/\n"
            "def forward_branches : List (String × String) := [" + ", ".join(f"({_s(a)}, {_s(b)})" for a, b in rows) + "]\n"
            f"/-- every value written to `sample['sensitivity_map']` -/\n"
            f"def forward_output_writes : List String := {_strs(writes)}\n"
            f"/-- the ESPIRiT branch raises NotImplementedError when the batched rank exceeds this -/\n"
            f"def espirit_rank_limit : Int := {limit}\n")


FORWARD_FALLBACK = ("def forward_branches : List (String × String) := forwardBranches\n"
                    "def forward_output_writes : List String := forwardOutputWrites\n"
                    "def espirit_rank_limit : Int := espiritRankLimit\n")


# ---- effects ------------------------------------------------------------------------------------------
EFFECT_FUNCS = [(MT, "EstimateSensitivityMapModule.forward"), (MT, "EstimateSensitivityMapModule.estimate_acs_image"),
                (ENG, "MRIModelEngine.compute_sensitivity_map"), (ENG, "MRIModelEngine.compute_model_per_coil"),
                (T, "safe_divide"), (T, "root_sum_of_squares")]
NO_EARLY_RETURN = ("EstimateSensitivityMapModule.forward", "EstimateSensitivityMapModule.estimate_acs_image",
                   "MRIModelEngine.compute_sensitivity_map", "MRIModelEngine.compute_model_per_coil", "safe_divide")


def effects_of(fn: ast.FunctionDef, qual: str):
    rows = []
    for n in ast.walk(fn):
        if isinstance(n, (ast.Assign, ast.AnnAssign, ast.AugAssign)):
            targets = n.targets if isinstance(n, ast.Assign) else [n.target]
            for t in targets:
                for tt in (t.elts if isinstance(t, (ast.Tuple, ast.List)) else [t]):
                    if isinstance(n, ast.AugAssign):
                        rows.append((qual, "augassign", ast.unparse(tt)))
                    elif isinstance(tt, ast.Attribute):
                        rows.append((qual, "attr-store", ast.unparse(tt)))
                    elif isinstance(tt, ast.Subscript):
                        rows.append((qual, "subscript-store", ast.unparse(tt) if ast.unparse(tt.value) == "sample" else ast.unparse(tt.value)))
        elif isinstance(n, ast.Call) and isinstance(n.func, ast.Attribute) and n.func.attr.endswith("_") and not n.func.attr.endswith("__"):
            rows.append((qual, "inplace-call", ast.unparse(n.func)))
        elif isinstance(n, ast.Call) and any(k.arg == "out" for k in n.keywords):
            rows.append((qual, "out-kwarg", ast.unparse(n.func)))
        elif isinstance(n, (ast.Global, ast.Nonlocal, ast.Delete)):
            rows.append((qual, type(n).__name__.lower(), ast.unparse(n)))
    if qual in NO_EARLY_RETURN:
        rets = [n for n in ast.walk(fn) if isinstance(n, ast.Return)]
        last_is_return = isinstance(fn.body[-1], ast.Return)
        rows.append((qual, "return-count", str(len(rets)) if last_is_return else f"{len(rets)}-not-last"))
    return rows


def b_effects():
    rows = []
    for file, qual in EFFECT_FUNCS:
        rows += effects_of(_fn(file, qual), qual)
    return ("/-- stores, augmented assignments, in-place calls and return counts of the functions that decide C09 -/\n"
            "def sens_effects : List (String × String × String) := [\n"
            + ",\n".join(f"  ({_s(a)}, {_s(b)}, {_s(c)})" for a, b, c in rows) + "\n]\n")


# ---- option forwarding ---------------------------------------------------------------------------------
def b_forwarding():
    from ..pyexpr import parse_file
    tree = parse_file(_repo() / MT)
    sites = []
    for fn in [n for n in tree.body if isinstance(n, ast.FunctionDef)]:
        for n in ast.walk(fn):
            if isinstance(n, ast.Call) and ast.unparse(n.func) in ("EstimateSensitivityMapModule", "EstimateSensitivityMap"):
                if n.args or any(k.arg is None for k in n.keywords):
                    raise Untranslatable(f"positional / ** arguments at a constructor site in {fn.name}")
                sites.append((f"{fn.name}:{ast.unparse(n.func)}", [(k.arg, ast.unparse(k.value)) for k in n.keywords]))
    passth = []
    bm = _fn(MT, "build_mri_transforms")
    for n in ast.walk(bm):
        if isinstance(n, ast.Call) and ast.unparse(n.func) == "build_supervised_mri_transforms":
            passth = [(k.arg, ast.unparse(k.value)) for k in n.keywords if k.arg and "sensitivity_maps" in k.arg]
    if not sites or not passth:
        raise Untranslatable("constructor sites / build_supervised_mri_transforms call not found")
    return ("/-- every place in mri_transforms.py that constructs the module, with its keyword arguments -/\n"
            "def ctor_sites : List (String × List (String × String)) := [\n"
            + ",\n".join(f"  ({_s(a)}, [" + ", ".join(f"({_s(k)}, {_s(v)})" for k, v in kws) + "])" for a, kws in sites) + "\n]\n"
            "/-- the sensitivity-map options `build_mri_transforms` hands to `build_supervised_mri_transforms` -/\n"
            "def builder_passthrough : List (String × String) := [" + ", ".join(f"({_s(k)}, {_s(v)})" for k, v in passth) + "]\n")


# ---- single definition ----------------------------------------------------------------------------------
def b_defs():
    from ..pyexpr import parse_file
    rows = []
    root = pathlib.Path(_repo()) / "direct"
    for path in sorted(root.rglob("*.py")):
        try:
            tree = parse_file(path)
        except SyntaxError:
            continue
        for cls in [n for n in ast.walk(tree) if isinstance(n, ast.ClassDef)]:
            for fn in cls.body:
                if isinstance(fn, (ast.FunctionDef, ast.AsyncFunctionDef)) and fn.name == "compute_sensitivity_map":
                    rows.append((str(path.relative_to(_repo())), f"{cls.name}.{fn.name}"))
            for st in cls.body:          # `compute_sensitivity_map = something` in a class body is an override too
                if isinstance(st, ast.Assign) and any(ast.unparse(t) == "compute_sensitivity_map" for t in st.targets):
                    rows.append((str(path.relative_to(_repo())), f"{cls.name}.compute_sensitivity_map(assigned)"))
    return ("/-- every definition of `compute_sensitivity_map` under `direct/` -/\n"
            "def compute_sensitivity_map_defs : List (String × String) := [" + ", ".join(f"({_s(a)}, {_s(b)})" for a, b in rows) + "]\n")


# ---- engine: which model, permutations --------------------------------------------------------------------
def _cond(node) -> str:
    if isinstance(node, ast.BoolOp):
        op = " && " if isinstance(node.op, ast.And) else " || "
        return "(" + op.join(_cond(v) for v in node.values) + ")"
    if isinstance(node, ast.UnaryOp) and isinstance(node.op, ast.Not):
        return "(!" + _cond(node.operand) + ")"
    if isinstance(node, ast.Name) and node.id == "multicoil":
        return "multicoil"
    if isinstance(node, ast.Compare) and len(node.ops) == 1:
        l, r = node.left, node.comparators[0]
        if isinstance(node.ops[0], ast.In) and ast.unparse(r) == "self.models" and isinstance(l, ast.Constant):
            if l.value == "sensitivity_model":
                return "has2d"
            if l.value == "sensitivity_model_3d":
                return "has3d"
        if isinstance(node.ops[0], ast.Eq) and ast.unparse(l) == "self.ndim" and isinstance(_num(r), int):
            return f"decide (ndim = {_num(r)})"
    raise Untranslatable(f"condition `{ast.unparse(node)[:60]}`")


def _leaf(value) -> str:
    calls = [n for n in ast.walk(value) if isinstance(n, ast.Call) and ast.unparse(n.func).endswith("compute_model_per_coil")]
    if len(calls) != 1 or not (calls[0].args and isinstance(calls[0].args[0], ast.Constant)):
        raise Untranslatable(f"refinement leaf `{ast.unparse(value)[:60]}`")
    name = calls[0].args[0].value
    in_comp = any(isinstance(n, (ast.ListComp, ast.GeneratorExp)) and any(c is calls[0] for c in ast.walk(n)) for n in ast.walk(value))
    if name == "sensitivity_model":
        return "(if has2d then 3 else 4)" if in_comp else "(if has2d then 1 else 4)"
    if name == "sensitivity_model_3d" and not in_comp:
        return "(if has3d then 2 else 4)"
    raise Untranslatable(f"refinement leaf `{ast.unparse(value)[:60]}`")


def _block(stmts) -> str:
    for st in stmts:
        if isinstance(st, ast.If):
            els = _block(st.orelse) if st.orelse else "0"
            return f"(if {_cond(st.test)} then {_block(st.body)} else {els})"
        if isinstance(st, ast.Assign) and "compute_model_per_coil" in ast.unparse(st.value):
            return _leaf(st.value)
    raise Untranslatable("a branch without refinement call")


def b_choice():
    fn = _fn(ENG, "MRIModelEngine.compute_sensitivity_map")
    ifs = [st for st in fn.body if isinstance(st, ast.If)]
    if len(ifs) != 1 or ifs[0].orelse:
        raise Untranslatable("compute_sensitivity_map: expected one top-level `if` without else")
    body = f"(if {_cond(ifs[0].test)} then {_block(ifs[0].body)} else 0)"
    perms = []
    for st in all_stmts(fn):
        if isinstance(st, ast.Assign) and isinstance(st.value, ast.Call) and isinstance(st.value.func, ast.Attribute) \
                and st.value.func.attr == "permute" and len(st.value.args) == 1 and isinstance(st.value.args[0], ast.IfExp):
            ie = st.value.args[0]
            if _cond(ie.test) != "decide (ndim = 2)":
                raise Untranslatable("permute selector")
            tup = lambda t: [int(_num(e)) for e in t.elts]  # noqa: E731
            perms.append((tup(ie.body), tup(ie.orelse)))
    if len(perms) != 2:
        raise Untranslatable(f"{len(perms)} permute calls")
    li = lambda xs: "[" + ", ".join(map(str, xs)) + "]"  # noqa: E731
    return ("/-- translated from the branch structure of `compute_sensitivity_map` (0 none, 1 2-D model, 2 3-D model, 3 2-D model per "
            "slice, 4 KeyError) -/\n"
            f"def engine_model_choice (multicoil has2d has3d : Bool) (ndim : Int) : Nat :=\n  {body}\n"
            f"def engine_perm_in_2d : List Nat := {li(perms[0][0])}\ndef engine_perm_in_3d : List Nat := {li(perms[0][1])}\n"
            f"def engine_perm_out_2d : List Nat := {li(perms[1][0])}\ndef engine_perm_out_3d : List Nat := {li(perms[1][1])}\n")


CHOICE_FALLBACK = ("def engine_model_choice (multicoil has2d has3d : Bool) (ndim : Int) : Nat := modelChoice multicoil has2d has3d ndim\n"
                   "def engine_perm_in_2d : List Nat := permIn2d\ndef engine_perm_in_3d : List Nat := permIn3d\n"
                   "def engine_perm_out_2d : List Nat := permOut2d\ndef engine_perm_out_3d : List Nat := permOut3d\n")

TABLES = [
    ("gaussian_window", b_window, WINDOW_FALLBACK),
    ("acs_mask_where", b_apply_mask_where, "def acs_mask_where : String × String × String := applyMaskWhere\n"),
    ("forward_branches", b_forward_branches, FORWARD_FALLBACK),
    ("sens_effects", b_effects, "def sens_effects : List (String × String × String) := []\n"),
    ("option_forwarding", b_forwarding, "def ctor_sites : List (String × List (String × String)) := []\n"
                                        "def builder_passthrough : List (String × String) := passthroughRequired\n"),
    ("compute_sensitivity_map_defs", b_defs, "def compute_sensitivity_map_defs : List (String × String) := computeDefs\n"),
    ("engine_model_choice", b_choice, CHOICE_FALLBACK),
]
