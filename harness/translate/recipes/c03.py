"""C03 translation recipes: the predicate and both branches of every `torch.where` that implements
under-sampling, the mask-function call of `apply_mask`, and the composition order of the masked
operators, emitted as Lean definitions / data (see Bridge/C03.lean for what is proved about them).
"""
from __future__ import annotations

import ast

from ..gen import EXTRA, Kernel, Untranslatable, register

T = "direct/data/transforms.py"
MT = "direct/data/mri_transforms.py"
ENG = "direct/nn/mri_models.py"
RIM = "direct/nn/rim/rim.py"
CG = "direct/nn/conjgradnet/conjgrad.py"


# ---- helpers ------------------------------------------------------------------------------------
def _where_calls(fn: ast.AST) -> list[ast.Call]:
    out = [n for n in ast.walk(fn) if isinstance(n, ast.Call) and ast.unparse(n.func) == "torch.where"]
    out.sort(key=lambda n: (n.lineno, n.col_offset))
    return out


def _strip_to(node: ast.AST) -> ast.AST:
    """drop trailing `.to(...)` calls"""
    while isinstance(node, ast.Call) and isinstance(node.func, ast.Attribute) and node.func.attr == "to":
        node = node.func.value
    return node


def _number(node: ast.AST):
    if isinstance(node, ast.UnaryOp) and isinstance(node.op, ast.USub):
        v = _number(node.operand)
        return None if v is None else (-v if v != 0 else ("negzero" if isinstance(v, float) else 0))
    if isinstance(node, ast.Constant) and isinstance(node.value, (int, float)) and not isinstance(node.value, bool):
        return node.value
    return None


def _const_branch(node: ast.AST):
    """Lean FVal term when `node` is a constant tensor / scalar, else None."""
    node = _strip_to(node)
    val = None
    if isinstance(node, ast.Call) and ast.unparse(node.func) in ("torch.tensor", "torch.as_tensor") and node.args:
        a = node.args[0]
        if isinstance(a, (ast.List, ast.Tuple)) and len(a.elts) == 1:
            val = _number(a.elts[0])
        else:
            val = _number(a)
    elif isinstance(node, ast.Call) and ast.unparse(node.func) in ("torch.zeros_like", "torch.zeros"):
        val = 0.0
    else:
        val = _number(node)
    if val is None:
        return None
    if val == "negzero":
        return "FVal.negZero"
    if val == 0:
        return "FVal.posZero"
    if float(val) == int(val):
        return f"(FVal.fin ({int(val)}))"
    raise Untranslatable(f"non-integer constant branch {val!r}")


def _where_kernel(call: ast.Call, mask_names: set[str], data_ok) -> tuple[str, str]:
    """(Lean body over `mv kv`, source text of the data branch)."""
    if len(call.args) != 3 or call.keywords:
        raise Untranslatable("torch.where without exactly 3 positional arguments")
    pred, a, b = call.args
    if not (isinstance(pred, ast.Compare) and len(pred.ops) == 1 and isinstance(pred.left, ast.Name)
            and pred.left.id in mask_names):
        raise Untranslatable(f"predicate `{ast.unparse(pred)}` is not `<mask> <op> <literal>`")
    c = _number(pred.comparators[0])
    if c is None or c == "negzero" or float(c) != int(c):
        if c == "negzero":
            c = 0
        else:
            raise Untranslatable(f"predicate literal in `{ast.unparse(pred)}`")
    if isinstance(pred.ops[0], ast.Eq):
        cond = f"MaskVal.eqConst mv ({int(c)} : Int)"
    elif isinstance(pred.ops[0], ast.NotEq):
        cond = f"(!MaskVal.eqConst mv ({int(c)} : Int))"
    else:
        raise Untranslatable(f"comparison in `{ast.unparse(pred)}`")
    data_text = None

    def branch(node):
        nonlocal data_text
        k = _const_branch(node)
        if k is not None:
            return k
        if data_ok(node):
            data_text = ast.unparse(node)
            return "kv"
        raise Untranslatable(f"branch `{ast.unparse(node)[:60]}` is neither a constant nor the data")

    ta, tb = branch(a), branch(b)
    return f"if {cond} then {ta} else {tb}", data_text or ""


def _kernel_def(name: str, body: str, doc: str) -> str:
    return (f"/-- translated from {doc} -/\n"
            f"def {name} {{μ : Type}} [MaskVal μ] (mv : μ) (kv : FVal) : FVal :=\n  {body}\n")


def _is_name(*names):
    return lambda node: isinstance(node, ast.Name) and node.id in names


def _is_call_of(*funcs):
    return lambda node: isinstance(node, ast.Call) and ast.unparse(node.func) in funcs


# ---- normalisation: hoisted locals, renames and private helpers are inlined before a site is read ----------------
import copy as _copy


def _single_assign_env(fn: ast.AST) -> dict[str, ast.AST]:
    """locals bound exactly once by a plain `name = expr` (parameters, loop / with / comprehension targets excluded)"""
    params = {a.arg for a in fn.args.args + fn.args.kwonlyargs + fn.args.posonlyargs} if isinstance(fn, ast.FunctionDef) else set()
    counts: dict[str, int] = {}
    vals: dict[str, ast.AST] = {}

    def bump(e, by=1):
        for x in ast.walk(e):
            if isinstance(x, ast.Name):
                counts[x.id] = counts.get(x.id, 0) + by
    for n in ast.walk(fn):
        if isinstance(n, ast.Assign):
            for t in n.targets:
                bump(t)
            if len(n.targets) == 1 and isinstance(n.targets[0], ast.Name):
                vals[n.targets[0].id] = n.value
        elif isinstance(n, ast.AnnAssign) and isinstance(n.target, ast.Name):
            bump(n.target)
            if n.value is not None:
                vals[n.target.id] = n.value
        elif isinstance(n, ast.AugAssign):
            bump(n.target, 2)
        elif isinstance(n, (ast.For, ast.AsyncFor)):
            bump(n.target, 2)
        elif isinstance(n, ast.comprehension):
            bump(n.target, 2)
        elif isinstance(n, ast.withitem) and n.optional_vars is not None:
            bump(n.optional_vars, 2)
        elif isinstance(n, ast.NamedExpr):
            bump(n.target, 2)
    return {k: v for k, v in vals.items() if counts.get(k) == 1 and k not in params}


class _Subst(ast.NodeTransformer):
    def __init__(self, env, depth=10):
        self.env, self.depth = env, depth

    def visit_Name(self, node):
        if isinstance(node.ctx, ast.Load) and not getattr(node, "_closed", False) and node.id in self.env and self.depth > 0:
            return _Subst(self.env, self.depth - 1).visit(_copy.deepcopy(self.env[node.id]))
        return node


def _expand(expr: ast.AST, env: dict) -> ast.AST:
    """`expr` with every single-assignment local replaced by its defining expression (recursively)"""
    return ast.fix_missing_locations(_Subst(env).visit(_copy.deepcopy(expr))) if env else expr


def _close(expr: ast.AST) -> ast.AST:
    for x in ast.walk(expr):
        if isinstance(x, ast.Name):
            x._closed = True          # a caller's name: never to be confused with a local of the helper it is passed to
    return expr


def _resolve_helper(tree: ast.Module, owner: ast.AST | None, call: ast.Call):
    """the FunctionDef a call refers to when it is a function of the same module or a method of the same class"""
    f = call.func
    if isinstance(f, ast.Name):
        for st in tree.body:
            if isinstance(st, ast.FunctionDef) and st.name == f.id:
                return st, False
    if isinstance(f, ast.Attribute) and isinstance(f.value, ast.Name) and f.value.id in ("self", "cls") and owner is not None:
        for st in owner.body:
            if isinstance(st, ast.FunctionDef) and st.name == f.attr:
                return st, not any(ast.unparse(d) == "staticmethod" for d in st.decorator_list)
    return None


def _bind(helper: ast.FunctionDef, skip_self: bool, call: ast.Call, caller_env: dict) -> dict | None:
    params = [a.arg for a in helper.args.args]
    if skip_self and params:
        params = params[1:]
    if any(isinstance(a, ast.Starred) for a in call.args) or any(k.arg is None for k in call.keywords) or len(call.args) > len(params):
        return None
    env = {}
    for pn, a in zip(params, call.args):
        env[pn] = _close(_expand(a, caller_env))
    for k in call.keywords:
        env[k.arg] = _close(_expand(k.value, caller_env))
    defaults = dict(zip([a.arg for a in helper.args.args][len(helper.args.args) - len(helper.args.defaults):], helper.args.defaults))
    for pn in params:
        if pn not in env and pn in defaults:
            env[pn] = defaults[pn]
    return env


def _owner_class(tree: ast.Module, fn: ast.FunctionDef):
    for n in ast.walk(tree):
        if isinstance(n, ast.ClassDef) and fn in n.body:
            return n
    return None


def _effective_calls(tree: ast.Module, fn: ast.FunctionDef, want, env: dict | None = None, depth: int = 2, _seen=None) -> list[ast.Call]:
    """every call selected by `want(call)` that `fn` performs — directly or through helpers of the same module / class — with hoisted
    locals and helper parameters substituted, in source order"""
    local = dict(_single_assign_env(fn))
    if env:
        local.update(env)
    owner = _owner_class(tree, fn)
    out = []
    calls = [n for n in ast.walk(fn) if isinstance(n, ast.Call)]
    calls.sort(key=lambda n: (n.lineno, n.col_offset))
    seen = set(_seen or ()) | {fn.name}
    for c in calls:
        if want(c):
            out.append(_expand(c, local))
        elif depth > 0:
            r = _resolve_helper(tree, owner, c)
            if r is not None and r[0].name not in seen:
                b = _bind(r[0], r[1], c, local)
                if b is not None:
                    out += _effective_calls(tree, r[0], want, b, depth - 1, seen)
    return out


def _is_where(c: ast.Call) -> bool:
    return ast.unparse(c.func) == "torch.where"


def _effective_wheres(tree, fn) -> list[ast.Call]:
    return _effective_calls(tree, fn, _is_where)


def _masklike_names(fn: ast.FunctionDef, seeds: set[str]) -> set[str]:
    """names that can only hold the mask: the seeds and every local all of whose bindings are a mask name or a call of one"""
    names = set(seeds)
    binds: dict[str, list[ast.AST]] = {}
    for n in ast.walk(fn):
        if isinstance(n, ast.Assign) and len(n.targets) == 1 and isinstance(n.targets[0], ast.Name):
            binds.setdefault(n.targets[0].id, []).append(n.value)
    changed = True
    while changed:
        changed = False
        for k, vs in binds.items():
            if k not in names and all((isinstance(v, ast.Name) and v.id in names)
                                      or (isinstance(v, ast.Call) and isinstance(v.func, ast.Name) and v.func.id in names) for v in vs):
                names.add(k)
                changed = True
    return names


_STAGE = {"apply_mask": "mask", "forward_operator": "fourier", "backward_operator": "fourier",
          "expand_operator": "expand", "reduce_operator": "reduce", "where": "mask"}


def _inline_simple_helpers(tree, fn, node, depth=3):
    """replace calls of same-class / same-module helpers whose body is a single `return <expr>` (after inlining its locals)"""
    if tree is None or depth == 0:
        return node
    owner = _owner_class(tree, fn)

    class Inl(ast.NodeTransformer):
        def visit_Call(self, c):
            self.generic_visit(c)
            r = _resolve_helper(tree, owner, c)
            if r is None:
                return c
            rets = [x for x in ast.walk(r[0]) if isinstance(x, ast.Return)]
            if len(rets) != 1 or rets[0].value is None:
                return c
            b = _bind(r[0], r[1], c, {})
            if b is None:
                return c
            env = dict(_single_assign_env(r[0]))
            env.update(b)
            return _inline_simple_helpers(tree, r[0], _expand(rets[0].value, env), depth - 1)
    return ast.fix_missing_locations(Inl().visit(_copy.deepcopy(node)))


def _stage_chain(fn: ast.FunctionDef, mask_name: str, input_name: str, tree: ast.Module | None = None) -> list[str]:
    """execution-order stage list of `return f(g(h(x, …), …), …)`"""
    rets = [s for s in ast.walk(fn) if isinstance(s, ast.Return)]
    if len(rets) != 1 or rets[0].value is None:
        raise Untranslatable("expected a single `return <nested call>`")
    node = _expand(rets[0].value, _single_assign_env(fn))       # named intermediate steps = the nested call
    node = _inline_simple_helpers(tree, fn, node)               # … and so are one-line helpers
    chain = []
    while isinstance(node, ast.Call):
        fname = node.func.attr if isinstance(node.func, ast.Attribute) else getattr(node.func, "id", "?")
        if fname not in _STAGE:
            raise Untranslatable(f"unknown stage `{ast.unparse(node.func)}`")
        st = _STAGE[fname]
        chain.append(st)
        if fname == "where":
            if len(node.args) != 3:
                raise Untranslatable("torch.where without 3 positional arguments")
            data = [a for a in node.args[1:] if _const_branch(a) is None]
            if len(data) != 1:
                raise Untranslatable("torch.where without exactly one data branch")
            node = data[0]
        else:
            if st == "mask":
                marg = node.args[1] if len(node.args) > 1 else next((k.value for k in node.keywords if k.arg in ("mask_func", "sampling_mask")), None)
                if marg is None or ast.unparse(marg) != mask_name:
                    raise Untranslatable("apply_mask is not called with the sampling mask")
            if node.args:
                node = node.args[0]
            else:                           # keyword call form: the data operand is the first keyword that is not an option
                data = [k.value for k in node.keywords if k.arg not in ("sensitivity_map", "dim", "sampling_mask", "mask_func",
                                                                         "return_mask", "seed")]
                if not data:
                    raise Untranslatable("stage without data operand")
                node = data[0]
    if not (isinstance(node, ast.Name) and node.id == input_name):
        raise Untranslatable(f"innermost argument `{ast.unparse(node)}` is not `{input_name}`")
    return chain[::-1]


def _stages_def(name: str, stages: list[str], doc: str) -> str:
    return (f"/-- translated from {doc} (execution order) -/\n"
            f"def {name} : List Stage := [" + ", ".join("." + s for s in stages) + "]\n")


# ---- the generated file -------------------------------------------------------------------------
def _c03_extra():
    from ..gen import REPO
    from ..pyexpr import find_function, parse_file

    chunks: list[str] = ["open DirectVerif.Mask\n"]
    status: dict[str, str] = {}

    def attempt(name, build, fallback):
        try:
            chunks.append(build())
            status[name] = "translated"
        except Untranslatable as e:
            chunks.append(f"/-- SKIPPED ({e}); stands for the hand-written model -/\n" + fallback)
            status[name] = f"skipped: {e}"

    def fb_kernel(name, model):
        return f"def {name} {{μ : Type}} [MaskVal μ] (mv : μ) (kv : FVal) : FVal := {model} mv kv\n"

    # apply_mask -------------------------------------------------------------------------------
    def b_apply_mask():
        tree = parse_file(REPO / T)
        fn = find_function(tree, "apply_mask")
        ws = _effective_wheres(tree, fn)
        if len(ws) != 1:
            raise Untranslatable(f"{len(ws)} torch.where calls in apply_mask")
        body, _ = _where_kernel(ws[0], _masklike_names(fn, {"mask_func"}), _is_name("kspace"))
        return _kernel_def("apply_mask_kernel", body, f"`{T}`:`apply_mask`")

    attempt("apply_mask_kernel", b_apply_mask, fb_kernel("apply_mask_kernel", "whereZero"))

    def b_apply_mask_plan():
        tree = parse_file(REPO / T)
        fn = find_function(tree, "apply_mask")
        env = _single_assign_env(fn)
        masks = _masklike_names(fn, {"mask_func"})
        calls = [n for n in ast.walk(fn) if isinstance(n, ast.Call) and isinstance(n.func, ast.Name) and n.func.id == "mask_func"]
        if len(calls) != 1:
            raise Untranslatable(f"{len(calls)} calls of the mask function in apply_mask")
        v = calls[0]
        kw = {k.arg: _expand(k.value, env) for k in v.keywords}
        pos = [_expand(a, env) for a in v.args]
        shape_arg = kw.get("shape", pos[0] if pos else None)
        seed_arg = kw.get("seed", pos[1] if len(pos) > 1 else None)
        if shape_arg is None:
            raise Untranslatable("mask_func is called without a shape")
        lo, hi = _slice_bounds(shape_arg)
        if lo < 0 or hi != "none":
            raise Untranslatable("mask shape is not `kspace.shape[n:]`")
        fwd_seed = seed_arg is not None and ast.unparse(seed_arg) == "seed"
        # a tensor mask is used as is: the variable the `where` tests is bound to the parameter itself on the tensor path
        ws = _effective_wheres(tree, fn)
        tested = ws[0].args[0].left.id if len(ws) == 1 and isinstance(ws[0].args[0], ast.Compare) and isinstance(ws[0].args[0].left, ast.Name) else None
        as_is = tested in masks and (tested == "mask_func" or any(
            isinstance(n, ast.Assign) and len(n.targets) == 1 and ast.unparse(n.targets[0]) == tested and ast.unparse(n.value) == "mask_func"
            for n in ast.walk(fn)))
        guarded = any(isinstance(n, (ast.If, ast.IfExp)) and "isinstance(mask_func, torch.Tensor)" in ast.unparse(n.test) for n in ast.walk(fn))
        if not guarded:
            raise Untranslatable("`isinstance(mask_func, torch.Tensor)` dispatch not found")
        asserts = any(isinstance(s, ast.Expr) and isinstance(s.value, ast.Call)
                      and ast.unparse(s.value.func) == "assert_complex"
                      and ast.unparse(s.value.args[0]) == "kspace"
                      and any(k.arg == "complex_last" and ast.unparse(k.value) == "True" for k in s.value.keywords)
                      for s in fn.body)
        b = lambda x: "true" if x else "false"  # noqa: E731
        return (f"/-- translated from `{T}`:`apply_mask`: (leading axes dropped from kspace.shape for the mask "
                f"function, seed forwarded, tensor mask used as is, assert_complex(kspace, complex_last=True)) -/\n"
                f"def apply_mask_plan : Nat × Bool × Bool × Bool := ({lo}, {b(fwd_seed)}, {b(as_is)}, {b(asserts)})\n")

    attempt("apply_mask_plan", b_apply_mask_plan,
            "def apply_mask_plan : Nat × Bool × Bool × Bool := (1, true, true, true)\n")

    # ApplyMaskModule.forward ------------------------------------------------------------------
    def b_module_plan():
        fn = find_function(parse_file(REPO / MT), "ApplyMaskModule.forward")
        calls = [n for n in ast.walk(fn) if isinstance(n, ast.Call) and ast.unparse(n.func).endswith("apply_mask")]
        if len(calls) != 1:
            raise Untranslatable(f"{len(calls)} apply_mask calls in ApplyMaskModule.forward")
        call = calls[0]
        top = [st for st in fn.body if any(n is call for n in ast.walk(st))]
        unconditional = bool(top) and isinstance(top[0], (ast.Assign, ast.Expr, ast.Return))
        pos = (call.lineno, call.col_offset)
        early = sum(1 for n in ast.walk(fn) if isinstance(n, ast.Return) and (n.lineno, n.col_offset) < pos)
        env = _single_assign_env(fn)
        norm = lambda x: " ".join(ast.unparse(x).split())  # noqa: E731
        # statements before the call that could change the sample or depend on what is stored under the target key; key guards
        # that raise (in any layout: two ifs, one loop over the keys, a helper) and bindings of locals are not among them
        other = 0
        for st in fn.body:
            if top and (st.lineno, st.col_offset) >= (top[0].lineno, top[0].col_offset):
                break
            for n in ast.walk(st):
                tg = n.targets if isinstance(n, ast.Assign) else [n.target] if isinstance(n, (ast.AugAssign, ast.AnnAssign)) else \
                    n.targets if isinstance(n, ast.Delete) else []
                if any(isinstance(t, ast.Subscript) and norm(t.value) == "sample" for t in tg):
                    other += 1
                elif isinstance(n, ast.Call) and isinstance(n.func, ast.Attribute) and norm(n.func.value) == "sample" \
                        and n.func.attr in ("pop", "update", "setdefault", "clear", "popitem", "__setitem__", "__delitem__"):
                    other += 1
                elif isinstance(n, ast.Attribute) and norm(n) == "self.target_kspace_key":
                    other += 1
                elif isinstance(n, (ast.Continue, ast.Break)) or (isinstance(n, ast.Try)):
                    other += 1
        kwd = {k.arg: k.value for k in call.keywords}
        a0 = call.args[0] if call.args else kwd.get("kspace")
        a1 = call.args[1] if len(call.args) > 1 else kwd.get("mask_func")
        from_input = a0 is not None and norm(_expand(a0, env)) == "sample[self.input_kspace_key]"
        from_mask = a1 is not None and norm(_expand(a1, env)) == "sample[self.sampling_mask_key]"
        # what is stored under the target key is the masked k-space: the call with return_mask=False, `call[0]`, or the first
        # component of the unpacked (masked, mask) pair
        tensor_only = norm(kwd.get("return_mask", ast.Constant(True))) == "False"
        first = set()
        for n in ast.walk(fn):
            if isinstance(n, ast.Assign) and n.value is call and isinstance(n.targets[0], ast.Tuple) and n.targets[0].elts \
                    and isinstance(n.targets[0].elts[0], ast.Name) and not tensor_only:
                first.add(n.targets[0].elts[0].id)
        stored = False
        for n in ast.walk(fn):
            if isinstance(n, ast.Assign) and len(n.targets) == 1 and norm(n.targets[0]) == "sample[self.target_kspace_key]" \
                    and (n.lineno, n.col_offset) >= (top[0].lineno, top[0].col_offset if top else 0):
                v = n.value
                if isinstance(v, ast.Name) and v.id in first:
                    stored = True
                v = _expand(v, env) if not (isinstance(v, ast.Name) and v.id in first) else v
                if norm(v) == norm(_expand(call, env)) and tensor_only:
                    stored = True
                if isinstance(v, ast.Subscript) and norm(v.value) == norm(_expand(call, env)) and norm(v.slice) == "0" and not tensor_only:
                    stored = True
        b = lambda x: "true" if x else "false"  # noqa: E731
        return (f"/-- translated from `{MT}`:`ApplyMaskModule.forward`: (returns before the apply_mask call, statements before it "
                f"that are neither key guards nor `x = sample[key]`, call is unconditional, k-space read from input_kspace_key, "
                f"mask read from sampling_mask_key, result stored under target_kspace_key) -/\n"
                f"def apply_mask_module_plan : Nat × Nat × Bool × Bool × Bool × Bool := "
                f"({early}, {other}, {b(unconditional)}, {b(from_input)}, {b(from_mask)}, {b(stored)})\n")

    attempt("apply_mask_module_plan", b_module_plan,
            "def apply_mask_module_plan : Nat × Nat × Bool × Bool × Bool × Bool := (0, 0, true, true, true, true)\n")

    # apply_padding ----------------------------------------------------------------------------
    def b_apply_padding():
        tree = parse_file(REPO / T)
        fn = find_function(tree, "apply_padding")
        ws = _effective_wheres(tree, fn)
        if len(ws) != 1:
            raise Untranslatable(f"{len(ws)} torch.where calls in apply_padding")
        body, _ = _where_kernel(ws[0], _masklike_names(fn, {"padding"}), _is_name("data"))
        return _kernel_def("apply_padding_kernel", body, f"`{T}`:`apply_padding`")

    attempt("apply_padding_kernel", b_apply_padding, fb_kernel("apply_padding_kernel", "wherePad"))

    # MRILogLikelihood.forward -----------------------------------------------------------------
    def b_loglik():
        tree = parse_file(REPO / RIM)
        fn = find_function(tree, "MRILogLikelihood.forward")
        ws = _effective_wheres(tree, fn)
        if len(ws) != 2:
            raise Untranslatable(f"{len(ws)} torch.where calls in MRILogLikelihood.forward")
        is_fwd = _is_call_of("self.forward_operator")
        is_data = _is_name("masked_kspace")
        masks = _masklike_names(fn, {"sampling_mask"})
        bodies = {}
        for w in ws:
            body, data = _where_kernel(w, masks, lambda n: is_fwd(n) or is_data(n))
            bodies["forward" if data.startswith("self.forward_operator") else "data"] = body
        if set(bodies) != {"forward", "data"}:
            raise Untranslatable("the two where calls do not mask the prediction and the data")
        # raw (un-masked) uses of the data / the prediction in what reaches the backward operator (hoisted locals inlined)
        bcalls = _effective_calls(tree, fn, _is_call_of("self.backward_operator"))
        if len(bcalls) != 1 or not bcalls[0].args:
            raise Untranslatable(f"{len(bcalls)} backward_operator calls in MRILogLikelihood.forward")
        root = bcalls[0].args[0]
        raw = 0

        def walk(n, shielded, parent):
            nonlocal raw
            if isinstance(n, ast.Name) and n.id == "masked_kspace" and isinstance(n.ctx, ast.Load) and not shielded:
                if not (isinstance(parent, ast.Attribute) and parent.attr in ("dtype", "device", "shape", "ndim")):
                    raw += 1
            if is_fwd(n) and not shielded:
                raw += 1
            if isinstance(n, ast.Call) and _is_where(n) and len(n.args) == 3:
                walk(n.func, shielded, n)
                walk(n.args[0], shielded, n)
                for br in n.args[1:]:           # the data branch of a where is masked; a hoisted constant branch is not data
                    walk(br, True, n)
                return
            for ch in ast.iter_child_nodes(n):
                walk(ch, shielded, n)
        walk(root, False, None)
        return (_kernel_def("loglik_forward_kernel", bodies["forward"], f"`{RIM}`:`MRILogLikelihood.forward` (mr_forward)")
                + _kernel_def("loglik_data_kernel", bodies["data"], f"`{RIM}`:`MRILogLikelihood.forward` (masked data)")
                + "/-- uses of `masked_kspace` / `self.forward_operator(…)` outside the data branch of a `torch.where` -/\n"
                + f"def loglik_raw_uses : Nat := {raw}\n")

    attempt("loglik_kernels", b_loglik,
            fb_kernel("loglik_forward_kernel", "whereZero") + fb_kernel("loglik_data_kernel", "whereZero")
            + "def loglik_raw_uses : Nat := 0\n")

    # ConjGrad._A_star_op ----------------------------------------------------------------------
    def b_astar():
        tree = parse_file(REPO / CG)
        fn = find_function(tree, "ConjGrad._A_star_op")
        ws = _effective_wheres(tree, fn)
        if len(ws) != 1:
            raise Untranslatable(f"{len(ws)} torch.where calls in ConjGrad._A_star_op")
        body, _ = _where_kernel(ws[0], _masklike_names(fn, {"sampling_mask"}), _is_name("kspace"))
        return _kernel_def("a_star_kernel", body, f"`{CG}`:`ConjGrad._A_star_op`")

    def b_astar_stages():
        tree = parse_file(REPO / CG)
        fn = find_function(tree, "ConjGrad._A_star_op")
        stages = _stage_chain(fn, "sampling_mask", "kspace", tree)
        return _stages_def("a_star_stages", stages, f"`{CG}`:`ConjGrad._A_star_op`")

    attempt("a_star_kernel", b_astar, fb_kernel("a_star_kernel", "whereZero"))
    attempt("a_star_stages", b_astar_stages, "def a_star_stages : List Stage := bwdStages\n")

    # engine operators -------------------------------------------------------------------------
    def b_fwd():
        tree = parse_file(REPO / ENG)
        fn = find_function(tree, "MRIModelEngine._forward_operator")
        return _stages_def("forward_operator_stages", _stage_chain(fn, "sampling_mask", "image", tree),
                           f"`{ENG}`:`MRIModelEngine._forward_operator`")

    def b_bwd():
        tree = parse_file(REPO / ENG)
        fn = find_function(tree, "MRIModelEngine._backward_operator")
        return _stages_def("backward_operator_stages", _stage_chain(fn, "sampling_mask", "kspace", tree),
                           f"`{ENG}`:`MRIModelEngine._backward_operator`")

    attempt("forward_operator_stages", b_fwd, "def forward_operator_stages : List Stage := fwdStages\n")
    attempt("backward_operator_stages", b_bwd, "def backward_operator_stages : List Stage := bwdStages\n")
    return "\n".join(chunks), status


EXTRA["C03"] = _c03_extra


def _slice_bounds(v: ast.AST) -> tuple[int, str]:
    """`np.array(kspace.shape)[lo:hi]` -> (lo, Lean Option Int of hi)"""
    if not (isinstance(v, ast.Subscript) and isinstance(v.slice, ast.Slice) and v.slice.step is None
            and "kspace.shape" in ast.unparse(v.value)):
        raise Untranslatable(f"shape is `{ast.unparse(v)}`")
    lo = 0 if v.slice.lower is None else _number(v.slice.lower)
    hi = None if v.slice.upper is None else _number(v.slice.upper)
    if not isinstance(lo, int) or not (hi is None or isinstance(hi, int)):
        raise Untranslatable(f"slice bounds of `{ast.unparse(v)}`")
    return lo, "none" if hi is None else f"some ({hi})"


def _shape_slice_build(k: Kernel, fn: ast.FunctionDef) -> str:
    """`shape = np.array(kspace.shape)[1:]` -> the slice of kspace.shape shown to the mask function"""
    env = _single_assign_env(fn)
    calls = [n for n in ast.walk(fn) if isinstance(n, ast.Call) and isinstance(n.func, ast.Name) and n.func.id == "mask_func"]
    if len(calls) != 1:
        raise Untranslatable(f"{len(calls)} calls of the mask function")
    kw = {a.arg: a.value for a in calls[0].keywords}
    arg = kw.get("shape", calls[0].args[0] if calls[0].args else None)
    if arg is None:
        raise Untranslatable("mask_func is called without a shape")
    lo, hi = _slice_bounds(_expand(arg, env))
    return f"def {k.name} : Int × Option Int := (({lo} : Int), ({hi} : Option Int))\n"


register("C03", [
    Kernel("apply_mask_shape_slice", T, "apply_mask", [], "((1 : Int), (none : Option Int))", _shape_slice_build,
           ret_type="Int × Option Int", imports=("DirectVerif.Model.Mask",)),
])


# =================================================================================================
# every masking site under direct/nn (phase 2): torch.where(<mask> …), apply_mask, mask products, masked_fill
import re as _re

from ..pyexpr import parse_file  # noqa: E402

_MASKY = _re.compile(r"(^|_)mask($|_)")


def _masky(node: ast.AST) -> bool:
    """an expression that denotes a sampling mask (not `masked_kspace`)"""
    if isinstance(node, ast.Name):
        return bool(_MASKY.search(node.id))
    if isinstance(node, ast.Attribute):
        return bool(_MASKY.search(node.attr))
    if isinstance(node, ast.Subscript):
        if isinstance(node.slice, ast.Constant) and isinstance(node.slice.value, str):
            return bool(_MASKY.search(node.slice.value))
        return _masky(node.value)
    if isinstance(node, ast.UnaryOp) and isinstance(node.op, (ast.Invert, ast.Not)):
        return _masky(node.operand)
    if isinstance(node, ast.BinOp) and isinstance(node.op, ast.Sub):
        return _masky(node.right) and _number(node.left) is not None
    if isinstance(node, ast.IfExp):
        return _masky(node.body) and _masky(node.orelse)
    if isinstance(node, ast.Compare) and len(node.ops) == 1 and isinstance(node.ops[0], (ast.Eq, ast.NotEq, ast.Gt)) \
            and _masky(node.left) and _number(node.comparators[0]) is not None:
        return True                                  # `(mask != 0)`, `(mask == 0)`, `(mask > 0)`
    if isinstance(node, ast.Call) and isinstance(node.func, ast.Attribute) and node.func.attr in (
            "float", "to", "bool", "int", "type", "unsqueeze", "squeeze", "expand", "expand_as", "clone", "detach"):
        return _masky(node.func.value)
    return False


def _zero_dtype_of(node: ast.AST) -> str:
    node = _strip_to(node)
    if isinstance(node, ast.Call):
        for kw in node.keywords:
            if kw.arg == "dtype":
                t = ast.unparse(kw.value)
                return t[:-len(".dtype")] if t.endswith(".dtype") else t
    return ""


def _lean_str(s: str) -> str:
    return '"' + " ".join(s.split()).replace("\\", "\\\\").replace('"', "'") + '"'


_OPERATOR_METHODS = ("_forward_operator", "_backward_operator", "_A_star_op", "_A_star_A_op")


def scan_nn_sites(repo) -> list[dict]:
    import pathlib

    sites = []
    root = pathlib.Path(repo) / "direct" / "nn"
    for path in sorted(root.rglob("*.py")):
        rel = str(path.relative_to(repo))
        try:
            tree = parse_file(path)
        except Untranslatable:
            continue

        envs = [{}]
        owners = [None]
        cond_ctx = [False]          # inside an inlined helper whose call was conditional
        parents = {}
        for p_ in ast.walk(tree):
            for ch_ in ast.iter_child_nodes(p_):
                parents[id(ch_)] = p_

        def conditional(node):
            """under an `if` / conditional expression of its function (a flag, an option, a size) — `is None` guards of optional
            arguments and loops do not count"""
            if cond_ctx[-1]:
                return True
            ch_, p_ = node, parents.get(id(node))
            while p_ is not None and not isinstance(p_, (ast.FunctionDef, ast.AsyncFunctionDef, ast.ClassDef)):
                if isinstance(p_, (ast.If, ast.IfExp)) and ch_ is not p_.test:
                    return True
                ch_, p_ = p_, parents.get(id(p_))
            return False
        called = set()
        for c_ in ast.walk(tree):
            if isinstance(c_, ast.Call):
                if isinstance(c_.func, ast.Name):
                    called.add(c_.func.id)
                elif isinstance(c_.func, ast.Attribute) and isinstance(c_.func.value, ast.Name) and c_.func.value.id in ("self", "cls"):
                    called.add(c_.func.attr)

        def inlinable(f):
            """a private helper that is not one of the named masked operators: its sites belong to the methods that reach it"""
            return (isinstance(f, ast.FunctionDef) and f.name.startswith("_") and not f.name.startswith("__")
                    and f.name not in _OPERATOR_METHODS)

        def visit(node, qual, depth=2):
            for ch in ast.iter_child_nodes(node):
                if isinstance(ch, (ast.FunctionDef, ast.AsyncFunctionDef, ast.ClassDef)):
                    if inlinable(ch) and ch.name in called:
                        continue                       # reached (and listed) through its callers
                    envs.append(_single_assign_env(ch) if isinstance(ch, ast.FunctionDef) else {})
                    owners.append(ch if isinstance(ch, ast.ClassDef) else owners[-1])
                    visit(ch, (qual + "." if qual else "") + ch.name, depth)
                    owners.pop()
                    envs.pop()
                else:
                    handle(ch, qual, depth)
                    visit(ch, qual, depth)

        def handle(n0, qual, depth=2):
            before = len(sites)
            _handle(n0, qual, depth)
            for s_ in sites[before:]:
                s_.setdefault("cond", conditional(n0))

        def _handle(n0, qual, depth=2):
            n = n0
            if isinstance(n0, ast.Call):
                # hoisted locals (`not_sampled = mask == 0`, `zero = torch.tensor(…)`, named intermediate steps) are inlined;
                # keyword and `**{…}` call forms are read like positional ones
                kws = []
                for k in n0.keywords:
                    v = _expand(k.value, envs[-1])
                    if k.arg is None and isinstance(v, ast.Dict) and all(isinstance(x, ast.Constant) and isinstance(x.value, str) for x in v.keys):
                        kws += [ast.keyword(arg=x.value, value=_expand(y, envs[-1])) for x, y in zip(v.keys, v.values)]
                    else:
                        kws.append(ast.keyword(arg=k.arg, value=v))
                n = ast.Call(func=n0.func, args=[_expand(a, envs[-1]) for a in n0.args], keywords=kws)
                ast.copy_location(n, n0)
                if depth > 0:
                    r = _resolve_helper(tree, owners[-1], n0)
                    if r is not None and inlinable(r[0]):
                        b = _bind(r[0], r[1], n, {})
                        if b is not None:
                            env_h = dict(_single_assign_env(r[0]))
                            env_h.update(b)
                            envs.append(env_h)
                            cond_ctx.append(conditional(n0))
                            for st in r[0].body:
                                handle(st, qual, depth - 1)
                                visit(st, qual, depth - 1)
                            cond_ctx.pop()
                            envs.pop()
            if isinstance(n, ast.Call):
                fname = ast.unparse(n.func)
                allargs = list(n.args) + [k.value for k in n.keywords if k.arg not in ("dim", "return_mask", "seed")]
                if fname == "torch.where" and len(n.args) == 3 and any(_masky(x) for x in ast.walk(n.args[0])):
                    pred, a, b = n.args
                    form = None
                    if (isinstance(pred, ast.Compare) and len(pred.ops) == 1 and _masky(pred.left)
                            and isinstance(pred.ops[0], (ast.Eq, ast.NotEq))):
                        c = _number(pred.comparators[0])
                        if c == "negzero":
                            c = 0
                        if c is not None and float(c) == int(c):
                            try:
                                ka, kb = _const_branch(a), _const_branch(b)
                            except Untranslatable:
                                ka = kb = None
                                c = None
                            if c is not None and (ka is None) != (kb is None):
                                br = lambda k: ".data" if k is None else f"(.const {k})"  # noqa: E731
                                form = (f".whereForm {{ predEq := {'true' if isinstance(pred.ops[0], ast.Eq) else 'false'}, "
                                        f"predLit := {int(c)}, thenB := {br(ka)}, elseB := {br(kb)} }}")
                                data = b if ka is not None else a
                                zero = a if ka is not None else b
                                if any(isinstance(x, ast.Slice) for x in ast.walk(data)):
                                    form = '.flagged "only a slice of the operand is masked"'
                                sites.append({"file": rel, "func": qual, "form": form, "kind": "where",
                                              "operand": ast.unparse(n0.args[2] if ka is not None else n0.args[1]), "mask": ast.unparse(pred.left),
                                              "zero": _zero_dtype_of(zero)})
                                return
                    sites.append({"file": rel, "func": qual, "form": '.flagged "torch.where with an unrecognised predicate/branches"',
                                  "kind": "where?", "operand": ast.unparse(n.args[2]), "mask": ast.unparse(n.args[0]), "zero": ""})
                elif fname.split(".")[-1] == "apply_mask" and (len(n.args) >= 2 or {"kspace", "mask_func"} <= {k.arg for k in n.keywords}):
                    kwd = {k.arg: k.value for k in n.keywords}
                    n = ast.Call(func=n.func, args=[n.args[0] if n.args else kwd["kspace"], n.args[1] if len(n.args) > 1 else kwd["mask_func"]],
                                 keywords=[])
                    comp = isinstance(n.args[1], ast.UnaryOp) and isinstance(n.args[1].op, ast.Invert)
                    sliced = any(isinstance(x, ast.Slice) for x in ast.walk(n.args[0]))
                    sites.append({"file": rel, "func": qual,
                                  "form": '.flagged "only a slice of the operand is masked"' if sliced else f".applyMask {'true' if comp else 'false'}",
                                  "kind": "apply_mask", "operand": ast.unparse(n.args[0]), "mask": ast.unparse(n.args[1]), "zero": "kspace"})
                elif (isinstance(n.func, ast.Attribute) and n.func.attr in _OPERATOR_METHODS
                      and any(_masky(a) for a in allargs)):
                    marg = [a for a in allargs if _masky(a)][0]
                    comp = isinstance(marg, ast.UnaryOp) and isinstance(marg.op, ast.Invert)
                    sites.append({"file": rel, "func": qual, "form": f".operatorCall {'true' if comp else 'false'}",
                                  "kind": "operator-call:" + n.func.attr, "operand": ast.unparse(allargs[0]), "mask": ast.unparse(marg),
                                  "zero": "kspace"})
                elif isinstance(n.func, ast.Attribute) and n.func.attr in ("masked_fill", "masked_fill_", "masked_scatter"):
                    sites.append({"file": rel, "func": qual, "form": f'.flagged "{n.func.attr}"', "kind": n.func.attr,
                                  "operand": ast.unparse(n.func.value), "mask": ast.unparse(n.args[0]) if n.args else "", "zero": ""})
                elif fname in ("torch.mul", "torch.multiply") and any(_masky(x) for x in n.args):
                    sites.append({"file": rel, "func": qual, "form": '.flagged "multiplication by the mask"', "kind": "mul",
                                  "operand": ast.unparse(n.args[0]), "mask": ast.unparse(n.args[1]), "zero": ""})
            elif isinstance(n, ast.BinOp) and isinstance(n.op, ast.Mult) and (_masky(_expand(n.left, envs[-1])) or _masky(_expand(n.right, envs[-1]))):
                m, d = (n.left, n.right) if _masky(_expand(n.left, envs[-1])) else (n.right, n.left)
                sites.append({"file": rel, "func": qual, "form": '.flagged "multiplication by the mask"', "kind": "mul",
                              "operand": ast.unparse(d), "mask": ast.unparse(m), "zero": ""})
            elif isinstance(n, ast.AugAssign) and isinstance(n.op, ast.Mult) and _masky(n.value):
                sites.append({"file": rel, "func": qual, "form": '.flagged "multiplication by the mask"', "kind": "mul",
                              "operand": ast.unparse(n.target), "mask": ast.unparse(n.value), "zero": ""})

        visit(tree, "")
    return sites


def _sites_lean(sites: list[dict]) -> str:
    rows = []
    for s in sites:
        rows.append(f"  {{ file := {_lean_str(s['file'])}, func := {_lean_str(s['func'])}, form := {s['form']},\n"
                    f"    operand := {_lean_str(s['operand'][:120])}, mask := {_lean_str(s['mask'])}, zeroDtypeOf := {_lean_str(s['zero'])} }}")
    return ("/-- every masking site under `direct/nn` (AST scan: `torch.where(<mask> …)`, `apply_mask`, products with a mask, "
            "`masked_fill`) -/\ndef nn_mask_sites : List Site := [\n" + ",\n".join(rows) + "\n]\n")


_prev_extra = EXTRA["C03"]


def _c03_extra_with_sites():
    from ..gen import REPO

    text, status = _prev_extra()
    try:
        sites = scan_nn_sites(REPO)
        text += "\n" + _sites_lean(sites)
        status["nn_mask_sites"] = f"translated ({len(sites)} sites)"
        import collections as _c
        cc = _c.Counter(s_["func"] for s_ in sites if s_.get("cond"))
        text += ("\n/-- masking sites that are executed only under an `if` / conditional expression of their function (helpers inlined), "
                 "per function -/\ndef nn_conditional_sites : List (String × Nat) := ["
                 + ", ".join(f"({_lean_str(f_)}, {n_})" for f_, n_ in sorted(cc.items())) + "]\n")
    except Exception as e:  # noqa: BLE001 - never an alarm by itself
        text += (f"\n/-- SKIPPED ({type(e).__name__}: {e}) -/\ndef nn_mask_sites : List Site := []\n"
                 "def nn_conditional_sites : List (String × Nat) := expectedConditionalSites\n")
        status["nn_mask_sites"] = f"skipped: {e}"
    return text, status


EXTRA["C03"] = _c03_extra_with_sites


# =================================================================================================
# state carried between calls by the classes that contain masking sites: attribute writes outside __init__,
# module-level mutable caches, lru_cache — a stale mask can only survive a call through one of these
def scan_nn_state(repo, site_classes: set[tuple[str, str]]) -> list[tuple[str, str, str]]:
    import pathlib

    rows = []
    files = sorted({f for f, _ in site_classes})
    for rel in files:
        tree = parse_file(pathlib.Path(repo) / rel)
        # module-level mutable containers
        mod_caches = set()
        for st in tree.body:
            if isinstance(st, (ast.Assign, ast.AnnAssign)):
                val = st.value
                tgts = st.targets if isinstance(st, ast.Assign) else [st.target]
                if isinstance(val, (ast.Dict, ast.List, ast.Set)) or (
                        isinstance(val, ast.Call) and ast.unparse(val.func) in ("dict", "list", "set", "OrderedDict", "defaultdict",
                                                                                "collections.OrderedDict", "collections.defaultdict")):
                    for t in tgts:
                        if isinstance(t, ast.Name) and t.id != "__all__":
                            mod_caches.add(t.id)
        for cls in [n for n in tree.body if isinstance(n, ast.ClassDef) and (rel, n.name) in site_classes]:
            for fn in [n for n in cls.body if isinstance(n, (ast.FunctionDef, ast.AsyncFunctionDef))]:
                qual = f"{cls.name}.{fn.name}"
                for dec in fn.decorator_list:
                    d = ast.unparse(dec)
                    if "lru_cache" in d or d.split("(")[0].split(".")[-1] in ("cache", "cached_property", "memoize"):
                        rows.append((rel, qual, f"decorator {d}"))
                if fn.name in ("__init__", "__setstate__", "__new__"):
                    continue
                for n in ast.walk(fn):
                    tgts = []
                    if isinstance(n, ast.Assign):
                        tgts = n.targets
                    elif isinstance(n, (ast.AugAssign, ast.AnnAssign)):
                        tgts = [n.target]
                    elif isinstance(n, ast.Call) and ast.unparse(n.func) in ("setattr", "object.__setattr__") and n.args \
                            and ast.unparse(n.args[0]) == "self":
                        rows.append((rel, qual, "setattr(self, …)"))
                    elif isinstance(n, ast.Call) and isinstance(n.func, ast.Attribute) and n.func.attr in (
                            "register_buffer", "__setattr__", "setdefault", "update", "append", "add", "insert", "extend") \
                            and (ast.unparse(n.func.value).startswith("self.") and n.func.attr in ("setdefault", "update", "register_buffer", "__setattr__")
                                 or ast.unparse(n.func.value) in mod_caches):
                        rows.append((rel, qual, f"{ast.unparse(n.func)}(…)"))
                    for t in tgts:
                        for e in (t.elts if isinstance(t, (ast.Tuple, ast.List)) else [t]):
                            base = e
                            while isinstance(base, ast.Subscript):
                                base = base.value
                            if isinstance(base, ast.Attribute) and ast.unparse(base).startswith("self."):
                                rows.append((rel, qual, f"write {ast.unparse(base)}"))
                            elif isinstance(base, ast.Name) and base.id in mod_caches and isinstance(e, ast.Subscript):
                                rows.append((rel, qual, f"write module-level {base.id}[…]"))
                for n in ast.walk(fn):
                    if isinstance(n, ast.Global):
                        rows.append((rel, qual, "global " + ", ".join(n.names)))
    return sorted(set(rows))


_prev_extra2 = EXTRA["C03"]


def _c03_extra_with_state():
    from ..gen import REPO

    text, status = _prev_extra2()
    try:
        sites = scan_nn_sites(REPO)
        classes = {(s["file"], s["func"].split(".")[0]) for s in sites if "." in s["func"]}
        rows = scan_nn_state(REPO, classes)
        text += ("\n/-- state that outlives a call in the classes containing masking sites: attribute writes outside `__init__`, "
                 "module-level mutable containers written from methods, caching decorators -/\n"
                 "def nn_state_writes : List (String × String × String) := [\n"
                 + ",\n".join(f"  ({_lean_str(a)}, {_lean_str(b)}, {_lean_str(c)})" for a, b, c in rows) + "\n]\n")
        status["nn_state_writes"] = f"translated ({len(rows)} writes in {len(classes)} classes)"
    except Exception as e:  # noqa: BLE001
        text += f"\n/-- SKIPPED ({type(e).__name__}: {e}) -/\ndef nn_state_writes : List (String × String × String) := []\n"
        status["nn_state_writes"] = f"skipped: {e}"
    return text, status


EXTRA["C03"] = _c03_extra_with_state


# =================================================================================================
# phase 3: (a) structural facts of the functions that decide the property, (b) masking sites OUTSIDE direct/nn (data pipeline,
# SSL transforms, datasets) with multiplicative sites classified, (c) the plan of CreateSamplingMask.__call__
SSL = "direct/ssl/ssl.py"

FACT_FUNCS = [   # (name, file, qualified name, tensor-valued parameters)
    ("apply_mask", T, "apply_mask", ["kspace", "mask_func"]),
    ("apply_padding", T, "apply_padding", ["data", "padding"]),
    ("ApplyMaskModule.forward", MT, "ApplyMaskModule.forward", []),
    ("ApplyZeroPadding.__call__", MT, "ApplyZeroPadding.__call__", []),
    ("CreateSamplingMask.__call__", MT, "CreateSamplingMask.__call__", []),
    ("ModuleWrapper.SubWrapper.__call__", MT, "ModuleWrapper.SubWrapper.__call__", []),
    ("MRIModelEngine._forward_operator", ENG, "MRIModelEngine._forward_operator", ["image", "sensitivity_map", "sampling_mask"]),
    ("MRIModelEngine._backward_operator", ENG, "MRIModelEngine._backward_operator", ["kspace", "sensitivity_map", "sampling_mask"]),
    ("MRILogLikelihood.forward", RIM, "MRILogLikelihood.forward",
     ["input_image", "masked_kspace", "sensitivity_map", "sampling_mask", "loglikelihood_scaling"]),
    ("ConjGrad._A_star_op", CG, "ConjGrad._A_star_op", ["kspace", "sensitivity_map", "sampling_mask"]),
]
_MUTATORS = {"setdefault", "update", "append", "add", "insert", "extend", "pop", "popitem", "clear", "register_buffer", "__setattr__",
             "__setitem__", "move_to_end"}


def _module_containers(tree: ast.Module) -> set[str]:
    out = set()
    for st in tree.body:
        if isinstance(st, (ast.Assign, ast.AnnAssign)) and st.value is not None:
            val = st.value
            tgts = st.targets if isinstance(st, ast.Assign) else [st.target]
            if isinstance(val, (ast.Dict, ast.List, ast.Set, ast.ListComp, ast.DictComp)) or (
                    isinstance(val, ast.Call) and ast.unparse(val.func).split(".")[-1] in (
                        "dict", "list", "set", "OrderedDict", "defaultdict", "WeakKeyDictionary", "WeakValueDictionary", "deque")):
                for t in tgts:
                    if isinstance(t, ast.Name) and t.id != "__all__":
                        out.add(t.id)
    return out


def _base_name(e: ast.AST):
    while isinstance(e, (ast.Subscript, ast.Attribute)):
        if isinstance(e, ast.Attribute) and isinstance(e.value, ast.Name) and e.value.id == "self":
            return "self." + e.attr
        e = e.value
    return e.id if isinstance(e, ast.Name) else None


_MODE_CALLS = {"torch.is_grad_enabled", "torch.is_inference_mode_enabled", "torch.is_autocast_enabled", "torch.broadcast_shapes"}
_TENSOR_PROBES = {"shape", "dtype", "ndim", "requires_grad", "is_leaf", "_version"}
_TENSOR_PROBE_CALLS = {"size", "numel", "dim", "all", "any", "sum", "item", "is_contiguous", "stride", "data_ptr", "nonzero",
                       "count_nonzero", "max", "min", "mean", "element_size"}


def func_facts(tree: ast.Module, fn: ast.FunctionDef, tensor_params: list[str], depth: int = 2, _seen=None) -> dict:
    """semantic facts of a function body, private helpers of the same module / class followed:
    unguardedInputReturns  returns that hand back a tensor parameter itself outside an `if <param> is None` guard
    stateWrites            global / nonlocal, writes to self.* / module-level containers / function attributes / mutable defaults,
                           caching decorators
    inplaceOnArgs          subscript / augmented assignments, `…_()` methods and `out=` on a tensor argument
    dataBranches           conditions / loop ranges that depend on a tensor's shape, dtype or values, or on the training /
                           grad / inference mode (size thresholds, chunking, mode-dependent paths)"""
    containers = _module_containers(tree)
    params = [a.arg for a in fn.args.args + fn.args.kwonlyargs if a.arg not in ("self", "cls")]
    defaults = dict(zip([a.arg for a in fn.args.args][len(fn.args.args) - len(fn.args.defaults):], fn.args.defaults))
    mutable_defaults = {p for p, d in defaults.items()
                        if isinstance(d, (ast.Dict, ast.List, ast.Set)) or (isinstance(d, ast.Call) and ast.unparse(d.func) in ("dict", "list", "set"))}
    env = _single_assign_env(fn)
    tensors = set(tensor_params)
    for n in ast.walk(fn):                       # locals read from the sample dict, and plain renames of tensors, are tensors
        if isinstance(n, ast.Assign) and len(n.targets) == 1 and isinstance(n.targets[0], ast.Name):
            v = n.value
            if isinstance(v, ast.Subscript) and isinstance(v.value, ast.Name) and v.value.id in params:
                tensors.add(n.targets[0].id)
    changed = True
    while changed:
        changed = False
        for n in ast.walk(fn):
            if (isinstance(n, ast.Assign) and len(n.targets) == 1 and isinstance(n.targets[0], ast.Name)
                    and isinstance(n.value, ast.Name) and n.value.id in tensors and n.targets[0].id not in tensors):
                tensors.add(n.targets[0].id)
                changed = True
    f = {"unguardedInputReturns": 0, "stateWrites": 0, "inplaceOnArgs": 0, "dataBranches": 0}
    parents = {}
    for p_ in ast.walk(fn):
        for ch in ast.iter_child_nodes(p_):
            parents[id(ch)] = p_

    def tensorish(e):
        b = e
        while isinstance(b, (ast.Subscript, ast.Attribute, ast.Call)):
            b = b.func if isinstance(b, ast.Call) else b.value
        if isinstance(b, ast.Name) and b.id in tensors:
            return True
        return isinstance(e, ast.Subscript) and isinstance(e.value, ast.Name) and e.value.id in params and e.value.id not in tensors

    def data_dependent(test):
        t = _expand(test, env)
        for x in ast.walk(t):
            if isinstance(x, ast.Attribute):
                if x.attr == "training":
                    return True
                if x.attr in _TENSOR_PROBES and tensorish(x.value):
                    return True
            if isinstance(x, ast.Call):
                fn_txt = ast.unparse(x.func)
                if fn_txt in _MODE_CALLS:
                    return True
                if isinstance(x.func, ast.Attribute) and x.func.attr in _TENSOR_PROBE_CALLS and tensorish(x.func.value):
                    return True
                if fn_txt == "len" and x.args and tensorish(x.args[0]):
                    return True
            if isinstance(x, ast.Compare) and any(tensorish(y) and isinstance(y, ast.Name) for y in [x.left] + x.comparators) \
                    and not all(isinstance(o, (ast.Is, ast.IsNot)) for o in x.ops):
                return True
        return False

    def none_guarded(node):
        p_ = parents.get(id(node))
        while p_ is not None:
            if isinstance(p_, (ast.If, ast.IfExp)) and isinstance(p_.test, ast.Compare) and len(p_.test.ops) == 1 \
                    and isinstance(p_.test.ops[0], ast.Is) and ast.unparse(p_.test.comparators[0]) == "None":
                return True
            p_ = parents.get(id(p_))
        return False

    def delivered(v):
        if isinstance(v, ast.IfExp):
            return delivered(v.body) + delivered(v.orelse)
        if isinstance(v, ast.Tuple) and v.elts:
            return delivered(v.elts[0])
        return [v]
    for dec in fn.decorator_list:
        d = ast.unparse(dec)
        if "cache" in d or "memo" in d:
            f["stateWrites"] += 1
    fname = fn.name
    owner = _owner_class(tree, fn)
    seen = set(_seen or ()) | {fn.name}
    for n in ast.walk(fn):
        if isinstance(n, ast.Return) and n.value is not None:
            for v in delivered(n.value):
                if isinstance(v, ast.Name) and v.id in tensor_params and not none_guarded(n):
                    f["unguardedInputReturns"] += 1
        elif isinstance(n, (ast.If, ast.IfExp, ast.While)):
            if data_dependent(n.test):
                f["dataBranches"] += 1
        elif isinstance(n, (ast.For, ast.comprehension)):
            if data_dependent(n.iter) or any(data_dependent(c) for c in getattr(n, "ifs", [])):
                f["dataBranches"] += 1
        elif isinstance(n, (ast.Global, ast.Nonlocal)):
            f["stateWrites"] += 1
        tgts = []
        if isinstance(n, ast.Assign):
            tgts = n.targets
        elif isinstance(n, (ast.AugAssign, ast.AnnAssign)):
            tgts = [n.target]
        for t in tgts:
            for e in (t.elts if isinstance(t, (ast.Tuple, ast.List)) else [t]):
                base = _base_name(e)
                if base is None:
                    continue
                if base.startswith("self.") or (base in containers and not isinstance(e, ast.Name)) or base == fname \
                        or (base in mutable_defaults and not isinstance(e, ast.Name)):
                    f["stateWrites"] += 1
                elif base in tensors and (isinstance(e, ast.Subscript) or isinstance(n, ast.AugAssign)):
                    f["inplaceOnArgs"] += 1
        if isinstance(n, ast.Call):
            if isinstance(n.func, ast.Attribute):
                base = _base_name(n.func.value)
                meth = n.func.attr
                if meth in _MUTATORS and base is not None and (base.startswith("self.") or base in containers or base in mutable_defaults
                                                               or base == fname):
                    f["stateWrites"] += 1
                if base in tensors and meth.endswith("_") and not meth.endswith("__"):
                    f["inplaceOnArgs"] += 1
            if ast.unparse(n.func) in ("setattr", "object.__setattr__"):
                f["stateWrites"] += 1
            for kw in n.keywords:
                if kw.arg == "out" and isinstance(kw.value, ast.Name) and kw.value.id in tensors:
                    f["inplaceOnArgs"] += 1
            if depth > 0:                     # follow helpers of the same module / class with the tensor-ness of their arguments
                r = _resolve_helper(tree, owner, n)
                if r is not None and r[0].name not in seen:
                    hp = [a.arg for a in r[0].args.args][1 if r[1] else 0:]
                    bound = dict(zip(hp, n.args))
                    bound.update({k.arg: k.value for k in n.keywords if k.arg})
                    ht = [pn for pn, a in bound.items() if tensorish(a) or (isinstance(a, ast.Compare) and any(tensorish(y) for y in ast.walk(a)))]
                    sub = func_facts(tree, r[0], ht, depth - 1, seen)
                    for k_ in ("stateWrites", "inplaceOnArgs", "dataBranches"):
                        f[k_] += sub[k_]
    return f


def _facts_lean(rows: list[tuple[str, dict]]) -> str:
    body = ",\n".join(
        f"  {{ name := {_lean_str(n)}, unguardedInputReturns := {f['unguardedInputReturns']}, stateWrites := {f['stateWrites']}, "
        f"inplaceOnArgs := {f['inplaceOnArgs']}, dataBranches := {f['dataBranches']} }}" for n, f in rows)
    return ("/-- semantic facts of the functions that decide the property, helpers followed: returns of an input outside a `is None` guard, "
            "state written, in-place updates of arguments, conditions / loop ranges depending on tensor shape / dtype / values or on the "
            "training / grad mode -/\ndef func_facts : List FuncFacts := [\n" + body + "\n]\n")


def _mul_kind(node: ast.BinOp, other: ast.AST, parents: dict) -> str:
    def masklike(e):
        if _masky(e) or isinstance(e, (ast.Compare, ast.BoolOp)):
            return True
        if isinstance(e, ast.Call):
            txt = ast.unparse(e.func)
            if txt.split(".")[-1] in ("ones", "ones_like", "astype", "bool", "int"):
                return True
        return False
    if masklike(other):
        return "mask algebra"
    if isinstance(other, ast.Call) and ast.unparse(other.func).split(".")[-1] == "apply_mask":
        return "weighting of an already masked operand"      # e.g. `T.apply_mask(kspace, acs_mask) * gaussian_mask`
    p = node
    while isinstance(parents.get(id(p)), ast.BinOp) and isinstance(parents[id(p)].op, ast.Mult):
        p = parents[id(p)]
    par = parents.get(id(p))
    if isinstance(par, ast.BinOp) and isinstance(par.op, ast.Add):
        o = par.right if par.left is p else par.left
        if isinstance(o, ast.Constant) and isinstance(o.value, float) and o.value == 0.0:
            return "multiplication by the mask, + 0.0"
    return "multiplication by the mask"


def scan_data_sites(repo) -> list[dict]:
    """masking sites in `direct/` outside `direct/nn`: where / apply_mask forms as in `scan_nn_sites`; products classified"""
    import pathlib

    sites = []
    root = pathlib.Path(repo) / "direct"
    for path in sorted(root.rglob("*.py")):
        rel = str(path.relative_to(repo))
        if rel.startswith("direct/nn/"):
            continue
        try:
            tree = parse_file(path)
        except Untranslatable:
            continue
        parents = {}
        for p in ast.walk(tree):
            for ch in ast.iter_child_nodes(p):
                parents[id(ch)] = p

        def qual_of(n):
            names = []
            p = parents.get(id(n))
            while p is not None:
                if isinstance(p, (ast.FunctionDef, ast.AsyncFunctionDef, ast.ClassDef)):
                    names.append(p.name)
                p = parents.get(id(p))
            return ".".join(reversed(names))

        for n in ast.walk(tree):
            if isinstance(n, ast.FunctionDef) and n.name in ("apply_mask", "apply_padding") and rel == T:
                continue
            if isinstance(n, ast.Call):
                fname = ast.unparse(n.func)
                if fname == "torch.where" and len(n.args) == 3 and any(_masky(x) for x in ast.walk(n.args[0])):
                    qual = qual_of(n)
                    if rel == T and qual in ("apply_mask", "apply_padding"):
                        continue                     # the anchored kernels themselves (translated separately)
                    sites.append({"file": rel, "func": qual, "form": '.flagged "torch.where outside the verified functions"',
                                  "operand": ast.unparse(n.args[2]), "mask": ast.unparse(n.args[0]), "zero": ""})
                elif fname.split(".")[-1] == "apply_mask" and len(n.args) >= 2:
                    comp = isinstance(n.args[1], ast.UnaryOp) and isinstance(n.args[1].op, ast.Invert)
                    sites.append({"file": rel, "func": qual_of(n), "form": f".applyMask {'true' if comp else 'false'}",
                                  "operand": ast.unparse(n.args[0]), "mask": ast.unparse(n.args[1]), "zero": "kspace"})
                elif isinstance(n.func, ast.Attribute) and n.func.attr in ("masked_fill", "masked_fill_", "masked_scatter"):
                    sites.append({"file": rel, "func": qual_of(n), "form": f'.flagged "{n.func.attr}"',
                                  "operand": ast.unparse(n.func.value), "mask": ast.unparse(n.args[0]) if n.args else "", "zero": ""})
                elif fname in ("torch.mul", "torch.multiply", "np.multiply") and any(_masky(x) for x in n.args):
                    sites.append({"file": rel, "func": qual_of(n), "form": '.flagged "multiplication by the mask"',
                                  "operand": ast.unparse(n.args[0]), "mask": ast.unparse(n.args[1]), "zero": ""})
            elif isinstance(n, ast.BinOp) and isinstance(n.op, ast.Mult) and (_masky(n.left) or _masky(n.right)):
                m, d = (n.left, n.right) if _masky(n.left) else (n.right, n.left)
                sites.append({"file": rel, "func": qual_of(n), "form": f'.flagged "{_mul_kind(n, d, parents)}"',
                              "operand": ast.unparse(d), "mask": ast.unparse(m), "zero": ""})
            elif isinstance(n, ast.AugAssign) and isinstance(n.op, ast.Mult) and _masky(n.value):
                sites.append({"file": rel, "func": qual_of(n), "form": '.flagged "multiplication by the mask"',
                              "operand": ast.unparse(n.target), "mask": ast.unparse(n.value), "zero": ""})
    return sites


def _norm_ifexp(e: ast.AST) -> str:
    """text of an expression with `a if not c else b` written as `b if c else a` (one decision tree for both spellings)"""
    class N(ast.NodeTransformer):
        def visit_IfExp(self, n):
            self.generic_visit(n)
            if isinstance(n.test, ast.UnaryOp) and isinstance(n.test.op, ast.Not):
                return ast.IfExp(test=n.test.operand, body=n.orelse, orelse=n.body)
            return n
    return " ".join(ast.unparse(ast.fix_missing_locations(N().visit(_copy.deepcopy(e)))).split())


def create_sampling_mask_plan(fn: ast.FunctionDef) -> list[bool]:
    """semantic facts of CreateSamplingMask.__call__ (see Bridge/C03 `create_sampling_mask_plan_eq`), read by data flow: which
    values can reach the `shape=` / `seed=` arguments of the mask-function call, what is stored under 'sampling_mask'"""
    env = _single_assign_env(fn)
    norm = lambda x: " ".join(ast.unparse(x).split())  # noqa: E731
    calls = [n for n in ast.walk(fn) if isinstance(n, ast.Call) and norm(n.func) == "self.mask_func"]
    main = [c for c in calls if not any(k.arg == "return_acs" and norm(k.value) == "True" for k in c.keywords)]
    stores = [n for n in ast.walk(fn) if isinstance(n, ast.Assign) and len(n.targets) == 1 and norm(n.targets[0]) == "sample['sampling_mask']"]
    if len(main) != 1 or len(stores) != 1:
        raise Untranslatable("CreateSamplingMask.__call__ no longer has one mask-function call and one store of the sampling mask")
    call, store = main[0], stores[0]
    kw = {k.arg: k.value for k in call.keywords}
    if call.args or "shape" not in kw or "seed" not in kw:
        raise Untranslatable("the mask function is not called with shape= and seed=")

    def reaching(expr, split=True):
        """the expressions that can be the value of `expr`: a multiply-assigned local stands for all its bindings"""
        e = _expand(expr, env)
        if isinstance(e, ast.Name):
            vals = [n.value for n in ast.walk(fn) if isinstance(n, ast.Assign) and len(n.targets) == 1
                    and isinstance(n.targets[0], ast.Name) and n.targets[0].id == e.id]
            if vals:
                return {_norm_ifexp(_expand(v, env)) for v in vals}
        if isinstance(e, ast.IfExp) and split:
            return reaching(e.body) | reaching(e.orelse)
        return {_norm_ifexp(e)}
    shapes = reaching(kw["shape"])
    default_shape = "sample['kspace'].shape[1:]" in shapes
    none_branch = "tuple((_ if _ else list(sample['kspace'].shape[1:-1])[idx] for idx, _ in enumerate(self.shape))) + (2,)" in shapes
    full_branch = "self.shape + (2,)" in shapes
    shape_guards = {_norm_ifexp(n.test) for n in ast.walk(fn) if isinstance(n, (ast.If, ast.IfExp))}
    guards_ok = "not self.shape" in shape_guards and "any((_ is None for _ in self.shape))" in shape_guards and len(shapes) == 3
    seed_ok = reaching(kw["seed"], split=False) == {"tuple(map(ord, str(sample['filename']))) if self.use_seed else None"}
    call_ok = norm(kw.get("return_acs", ast.Constant(False))) == "False"
    # what is stored: the call result, with the padded positions cleared when the sample has a padding
    stored = reaching(store.value)
    var = store.value.id if isinstance(store.value, ast.Name) else None
    pads = [n for n in ast.walk(fn) if isinstance(n, ast.If) and _norm_ifexp(n.test) == "'padding' in sample"]
    pad_ok = (len(pads) == 1 and not pads[0].orelse and len(pads[0].body) == 1 and isinstance(pads[0].body[0], ast.Assign)
              and var is not None and norm(pads[0].body[0].targets[0]) == var
              and norm(pads[0].body[0].value) == f"T.apply_padding({var}, sample['padding'])")
    store_ok = (var is not None and _norm_ifexp(_expand(call, env)) in stored
                and (not pads or pads[0].lineno < store.lineno) and call.lineno < store.lineno)
    return [default_shape, none_branch, full_branch and guards_ok, seed_ok, call_ok, pad_ok, store_ok]


_prev_extra3 = EXTRA["C03"]


def _c03_extra_phase3():
    from ..gen import REPO
    from ..pyexpr import find_function

    text, status = _prev_extra3()
    try:
        rows = []
        for name, file, qual, tensors in FACT_FUNCS:
            tree = parse_file(REPO / file)
            rows.append((name, func_facts(tree, find_function(tree, qual), tensors)))
        text += "\n" + _facts_lean(rows)
        status["func_facts"] = f"translated ({len(rows)} functions)"
    except Untranslatable as e:
        text += f"\n/-- SKIPPED ({e}); stands for the hand-written model -/\ndef func_facts : List FuncFacts := expectedFacts\n"
        status["func_facts"] = f"skipped: {e}"
    try:
        sites = scan_data_sites(REPO)
        rows = [f"  {{ file := {_lean_str(s['file'])}, func := {_lean_str(s['func'])}, form := {s['form']},\n"
                f"    operand := {_lean_str(s['operand'][:120])}, mask := {_lean_str(s['mask'])}, zeroDtypeOf := {_lean_str(s['zero'])} }}"
                for s in sites]
        text += ("\n/-- every masking site in `direct/` outside `direct/nn` (data pipeline, SSL transforms, datasets) -/\n"
                 "def data_mask_sites : List Site := [\n" + ",\n".join(rows) + "\n]\n")
        status["data_mask_sites"] = f"translated ({len(sites)} sites)"
    except Exception as e:  # noqa: BLE001
        text += f"\n/-- SKIPPED ({type(e).__name__}: {e}) -/\ndef data_mask_sites : List Site := []\n"
        status["data_mask_sites"] = f"skipped: {e}"
    try:
        out = []
        for fname, dname in (("apply_mask", "kspace"), ("apply_padding", "data")):
            tree_ = parse_file(REPO / T)
            fn = find_function(tree_, fname)
            ws = _effective_wheres(tree_, fn)
            if len(ws) != 1:
                raise Untranslatable(f"{len(ws)} torch.where calls in {fname}")
            zero = [a for a in ws[0].args[1:] if not (isinstance(a, ast.Name))]
            if len(zero) != 1:
                raise Untranslatable(f"constant branch of the where in {fname}")
            kws = {k.arg: ast.unparse(k.value) for k in _strip_to(zero[0]).keywords} if isinstance(_strip_to(zero[0]), ast.Call) else {}
            out.append((fname, kws.get("dtype", ""), kws.get("device", "")))
        text += ("\n/-- dtype / device of the zero constant of the two anchored `torch.where`s (the output must keep the k-space dtype) -/\n"
                 "def where_zero_dtypes : List (String × String × String) := ["
                 + ", ".join(f"({_lean_str(a)}, {_lean_str(b)}, {_lean_str(c)})" for a, b, c in out) + "]\n")
        status["where_zero_dtypes"] = "translated"
    except Untranslatable as e:
        text += (f"\n/-- SKIPPED ({e}) -/\ndef where_zero_dtypes : List (String × String × String) := "
                 '[("apply_mask", "kspace.dtype", "kspace.device"), ("apply_padding", "data.dtype", "data.device")]\n')
        status["where_zero_dtypes"] = f"skipped: {e}"
    try:
        fn = find_function(parse_file(REPO / MT), "ApplyZeroPadding.__call__")
        norm = lambda x: " ".join(ast.unparse(x).split())  # noqa: E731
        env_ = _single_assign_env(fn)
        writes = [n for n in ast.walk(fn) if isinstance(n, ast.Assign) and any(isinstance(t, ast.Subscript) and norm(t.value) == "sample"
                                                                                for t in n.targets)]
        calls = [n for n in ast.walk(fn) if isinstance(n, ast.Call) and ast.unparse(n.func).endswith("apply_padding")]
        rets = [n for n in ast.walk(fn) if isinstance(n, ast.Return)]
        if len(calls) != 1 or not writes:
            raise Untranslatable("ApplyZeroPadding.__call__ no longer stores one apply_padding result in the sample")
        c = _expand(calls[0], env_)
        w = writes[0]
        plan = [norm(w.targets[0]) == "sample[self.kspace_key]", norm(_expand(w.value, env_)) == norm(c),
                len(c.args) == 2 and norm(c.args[0]) == "sample[self.kspace_key]", len(c.args) == 2 and norm(c.args[1]) == "sample[self.padding_key]",
                len(writes) == 1 and len(rets) == 1 and norm(rets[0].value) == "sample"]
        text += ("\n/-- `ApplyZeroPadding.__call__`: (stores under kspace_key, the stored value is the apply_padding result, data read from "
                 "kspace_key, padding read from padding_key, nothing else but `return sample`) -/\n"
                 "def apply_zero_padding_plan : List Bool := [" + ", ".join("true" if b else "false" for b in plan) + "]\n")
        status["apply_zero_padding_plan"] = "translated"
    except Untranslatable as e:
        text += f"\n/-- SKIPPED ({e}) -/\ndef apply_zero_padding_plan : List Bool := [true, true, true, true, true]\n"
        status["apply_zero_padding_plan"] = f"skipped: {e}"
    try:
        plan = create_sampling_mask_plan(find_function(parse_file(REPO / MT), "CreateSamplingMask.__call__"))
        text += ("\n/-- `CreateSamplingMask.__call__`: (shape defaults to kspace.shape[1:], None entries filled from kspace.shape[1:-1] + (2,), "
                 "complete shape + (2,), seed = ord-tuple of the filename iff use_seed, mask_func(shape, seed, return_acs=False), padded "
                 "positions cleared with apply_padding, stored under 'sampling_mask' after that) -/\n"
                 "def create_sampling_mask_plan : List Bool := [" + ", ".join("true" if b else "false" for b in plan) + "]\n")
        status["create_sampling_mask_plan"] = "translated"
    except Untranslatable as e:
        text += (f"\n/-- SKIPPED ({e}) -/\ndef create_sampling_mask_plan : List Bool := [true, true, true, true, true, true, true]\n")
        status["create_sampling_mask_plan"] = f"skipped: {e}"
    return text, status


EXTRA["C03"] = _c03_extra_phase3
