"""C03 translation recipes: the predicate and both branches of every `torch.where` that implements
under-sampling, the mask-function call of `apply_mask`, and the composition order of the masked
operators, emitted as Lean definitions / data (see Bridge/C03.lean for what is proved about them).
"""
from __future__ import annotations

import ast

from ..gen import EXTRA, Kernel, Untranslatable, register

T = "direct/data/transforms.py"
MT = "direct/data/mri_transforms.py"
ENG = "direct/nn/mri_models.py"
RIM = "direct/nn/rim/rim.py"
CG = "direct/nn/conjgradnet/conjgrad.py"


# ---- helpers ------------------------------------------------------------------------------------
def _where_calls(fn: ast.AST) -> list[ast.Call]:
    out = [n for n in ast.walk(fn) if isinstance(n, ast.Call) and ast.unparse(n.func) == "torch.where"]
    out.sort(key=lambda n: (n.lineno, n.col_offset))
    return out


def _strip_to(node: ast.AST) -> ast.AST:
    """drop trailing `.to(...)` calls"""
    while isinstance(node, ast.Call) and isinstance(node.func, ast.Attribute) and node.func.attr == "to":
        node = node.func.value
    return node


def _number(node: ast.AST):
    if isinstance(node, ast.UnaryOp) and isinstance(node.op, ast.USub):
        v = _number(node.operand)
        return None if v is None else (-v if v != 0 else ("negzero" if isinstance(v, float) else 0))
    if isinstance(node, ast.Constant) and isinstance(node.value, (int, float)) and not isinstance(node.value, bool):
        return node.value
    return None


def _const_branch(node: ast.AST):
    """Lean FVal term when `node` is a constant tensor / scalar, else None."""
    node = _strip_to(node)
    val = None
    if isinstance(node, ast.Call) and ast.unparse(node.func) in ("torch.tensor", "torch.as_tensor") and node.args:
        a = node.args[0]
        if isinstance(a, (ast.List, ast.Tuple)) and len(a.elts) == 1:
            val = _number(a.elts[0])
        else:
            val = _number(a)
    elif isinstance(node, ast.Call) and ast.unparse(node.func) in ("torch.zeros_like", "torch.zeros"):
        val = 0.0
    else:
        val = _number(node)
    if val is None:
        return None
    if val == "negzero":
        return "FVal.negZero"
    if val == 0:
        return "FVal.posZero"
    if float(val) == int(val):
        return f"(FVal.fin ({int(val)}))"
    raise Untranslatable(f"non-integer constant branch {val!r}")


def _where_kernel(call: ast.Call, mask_names: set[str], data_ok) -> tuple[str, str]:
    """(Lean body over `mv kv`, source text of the data branch)."""
    if len(call.args) != 3 or call.keywords:
        raise Untranslatable("torch.where without exactly 3 positional arguments")
    pred, a, b = call.args
    if not (isinstance(pred, ast.Compare) and len(pred.ops) == 1 and isinstance(pred.left, ast.Name)
            and pred.left.id in mask_names):
        raise Untranslatable(f"predicate `{ast.unparse(pred)}` is not `<mask> <op> <literal>`")
    c = _number(pred.comparators[0])
    if c is None or c == "negzero" or float(c) != int(c):
        if c == "negzero":
            c = 0
        else:
            raise Untranslatable(f"predicate literal in `{ast.unparse(pred)}`")
    if isinstance(pred.ops[0], ast.Eq):
        cond = f"MaskVal.eqConst mv ({int(c)} : Int)"
    elif isinstance(pred.ops[0], ast.NotEq):
        cond = f"(!MaskVal.eqConst mv ({int(c)} : Int))"
    else:
        raise Untranslatable(f"comparison in `{ast.unparse(pred)}`")
    data_text = None

    def branch(node):
        nonlocal data_text
        k = _const_branch(node)
        if k is not None:
            return k
        if data_ok(node):
            data_text = ast.unparse(node)
            return "kv"
        raise Untranslatable(f"branch `{ast.unparse(node)[:60]}` is neither a constant nor the data")

    ta, tb = branch(a), branch(b)
    return f"if {cond} then {ta} else {tb}", data_text or ""


def _kernel_def(name: str, body: str, doc: str) -> str:
    return (f"/-- translated from {doc} -/\n"
            f"def {name} {{μ : Type}} [MaskVal μ] (mv : μ) (kv : FVal) : FVal :=\n  {body}\n")


def _is_name(*names):
    return lambda node: isinstance(node, ast.Name) and node.id in names


def _is_call_of(*funcs):
    return lambda node: isinstance(node, ast.Call) and ast.unparse(node.func) in funcs


_STAGE = {"apply_mask": "mask", "forward_operator": "fourier", "backward_operator": "fourier",
          "expand_operator": "expand", "reduce_operator": "reduce", "where": "mask"}


def _stage_chain(fn: ast.FunctionDef, mask_name: str, input_name: str) -> list[str]:
    """execution-order stage list of `return f(g(h(x, …), …), …)`"""
    rets = [s for s in fn.body if isinstance(s, ast.Return)]
    if len(rets) != 1 or rets[0].value is None:
        raise Untranslatable("expected a single `return <nested call>`")
    node = rets[0].value
    chain = []
    while isinstance(node, ast.Call):
        fname = node.func.attr if isinstance(node.func, ast.Attribute) else getattr(node.func, "id", "?")
        if fname not in _STAGE:
            raise Untranslatable(f"unknown stage `{ast.unparse(node.func)}`")
        st = _STAGE[fname]
        chain.append(st)
        if fname == "where":
            if len(node.args) != 3:
                raise Untranslatable("torch.where without 3 positional arguments")
            data = [a for a in node.args[1:] if _const_branch(a) is None]
            if len(data) != 1:
                raise Untranslatable("torch.where without exactly one data branch")
            node = data[0]
        else:
            if st == "mask":
                if len(node.args) < 2 or ast.unparse(node.args[1]) != mask_name:
                    raise Untranslatable("apply_mask is not called with the sampling mask")
            if not node.args:
                raise Untranslatable("stage without positional input")
            node = node.args[0]
    if not (isinstance(node, ast.Name) and node.id == input_name):
        raise Untranslatable(f"innermost argument `{ast.unparse(node)}` is not `{input_name}`")
    return chain[::-1]


def _stages_def(name: str, stages: list[str], doc: str) -> str:
    return (f"/-- translated from {doc} (execution order) -/\n"
            f"def {name} : List Stage := [" + ", ".join("." + s for s in stages) + "]\n")


# ---- the generated file -------------------------------------------------------------------------
def _c03_extra():
    from ..gen import REPO
    from ..pyexpr import find_function, parse_file

    chunks: list[str] = ["open DirectVerif.Mask\n"]
    status: dict[str, str] = {}

    def attempt(name, build, fallback):
        try:
            chunks.append(build())
            status[name] = "translated"
        except Untranslatable as e:
            chunks.append(f"/-- SKIPPED ({e}); stands for the hand-written model -/\n" + fallback)
            status[name] = f"skipped: {e}"

    def fb_kernel(name, model):
        return f"def {name} {{μ : Type}} [MaskVal μ] (mv : μ) (kv : FVal) : FVal := {model} mv kv\n"

    # apply_mask -------------------------------------------------------------------------------
    def b_apply_mask():
        fn = find_function(parse_file(REPO / T), "apply_mask")
        ws = _where_calls(fn)
        if len(ws) != 1:
            raise Untranslatable(f"{len(ws)} torch.where calls in apply_mask")
        body, _ = _where_kernel(ws[0], {"mask"}, _is_name("kspace"))
        return _kernel_def("apply_mask_kernel", body, f"`{T}`:`apply_mask`")

    attempt("apply_mask_kernel", b_apply_mask, fb_kernel("apply_mask_kernel", "whereZero"))

    def b_apply_mask_plan():
        fn = find_function(parse_file(REPO / T), "apply_mask")
        drop = fwd_seed = as_is = None
        for st in fn.body:
            if isinstance(st, ast.If) and "isinstance(mask_func, torch.Tensor)" in ast.unparse(st.test):
                neg = isinstance(st.test, ast.UnaryOp) and isinstance(st.test.op, ast.Not)
                func_branch, tensor_branch = (st.body, st.orelse) if neg else (st.orelse, st.body)
                shape_src = None
                for s in func_branch:
                    if isinstance(s, ast.Assign) and ast.unparse(s.targets[0]) == "shape":
                        shape_src = s.value
                    if isinstance(s, ast.Assign) and ast.unparse(s.targets[0]) == "mask":
                        v = s.value
                        if not (isinstance(v, ast.Call) and ast.unparse(v.func) == "mask_func"):
                            raise Untranslatable("mask is not `mask_func(…)`")
                        kw = {k.arg: ast.unparse(k.value) for k in v.keywords}
                        pos = [ast.unparse(a) for a in v.args]
                        shape_arg = kw.get("shape", pos[0] if pos else None)
                        seed_arg = kw.get("seed", pos[1] if len(pos) > 1 else None)
                        if shape_arg != "shape":
                            raise Untranslatable("mask_func is not called with `shape`")
                        fwd_seed = seed_arg == "seed"
                if shape_src is None:
                    raise Untranslatable("assignment to `shape` not found")
                lo, hi = _slice_bounds(shape_src)
                if lo < 0 or hi != "none":
                    raise Untranslatable("mask shape is not `kspace.shape[n:]`")
                drop = lo
                as_is = any(isinstance(s, ast.Assign) and ast.unparse(s.targets[0]) == "mask"
                            and ast.unparse(s.value) == "mask_func" for s in tensor_branch)
        if drop is None:
            raise Untranslatable("`isinstance(mask_func, torch.Tensor)` dispatch not found")
        asserts = any(isinstance(s, ast.Expr) and isinstance(s.value, ast.Call)
                      and ast.unparse(s.value.func) == "assert_complex"
                      and ast.unparse(s.value.args[0]) == "kspace"
                      and any(k.arg == "complex_last" and ast.unparse(k.value) == "True" for k in s.value.keywords)
                      for s in fn.body)
        b = lambda x: "true" if x else "false"  # noqa: E731
        return (f"/-- translated from `{T}`:`apply_mask`: (leading axes dropped from kspace.shape for the mask "
                f"function, seed forwarded, tensor mask used as is, assert_complex(kspace, complex_last=True)) -/\n"
                f"def apply_mask_plan : Nat × Bool × Bool × Bool := ({drop}, {b(fwd_seed)}, {b(as_is)}, {b(asserts)})\n")

    attempt("apply_mask_plan", b_apply_mask_plan,
            "def apply_mask_plan : Nat × Bool × Bool × Bool := (1, true, true, true)\n")

    # ApplyMaskModule.forward ------------------------------------------------------------------
    def b_module_plan():
        fn = find_function(parse_file(REPO / MT), "ApplyMaskModule.forward")
        calls = [n for n in ast.walk(fn) if isinstance(n, ast.Call) and ast.unparse(n.func).endswith("apply_mask")]
        if len(calls) != 1:
            raise Untranslatable(f"{len(calls)} apply_mask calls in ApplyMaskModule.forward")
        call = calls[0]
        top = [st for st in fn.body if any(n is call for n in ast.walk(st))]
        unconditional = bool(top) and isinstance(top[0], (ast.Assign, ast.Expr, ast.Return))
        pos = (call.lineno, call.col_offset)
        early = sum(1 for n in ast.walk(fn) if isinstance(n, ast.Return) and (n.lineno, n.col_offset) < pos)
        binds: dict[str, str] = {}
        other = 0
        for st in fn.body:
            if (st.lineno, st.col_offset) >= (top[0].lineno, top[0].col_offset) if top else False:
                break
            if isinstance(st, ast.Expr) and isinstance(st.value, ast.Constant) and isinstance(st.value.value, str):
                continue                                      # docstring
            if (isinstance(st, ast.If) and not st.orelse and len(st.body) == 1 and isinstance(st.body[0], ast.Raise)
                    and isinstance(st.test, ast.Compare) and len(st.test.ops) == 1 and isinstance(st.test.ops[0], ast.NotIn)
                    and ast.unparse(st.test.comparators[0]) == "sample"):
                continue                                      # `if key not in sample: raise …`
            if (isinstance(st, ast.Assign) and len(st.targets) == 1 and isinstance(st.targets[0], ast.Name)
                    and isinstance(st.value, ast.Subscript) and ast.unparse(st.value.value) == "sample"):
                binds[st.targets[0].id] = ast.unparse(st.value.slice)
                continue                                      # `x = sample[self.<key>]`
            other += 1
        args = [ast.unparse(a) for a in call.args]
        from_input = len(args) >= 1 and binds.get(args[0], args[0].replace("sample[", "").rstrip("]")) == "self.input_kspace_key"
        from_mask = len(args) >= 2 and binds.get(args[1], args[1].replace("sample[", "").rstrip("]")) == "self.sampling_mask_key"
        # the (first component of the) result is what gets stored under the target key
        stored = False
        if top and isinstance(top[0], ast.Assign):
            tgt = top[0].targets[0]
            res = tgt.elts[0].id if isinstance(tgt, ast.Tuple) and tgt.elts and isinstance(tgt.elts[0], ast.Name) else None
            if isinstance(tgt, ast.Subscript) and ast.unparse(tgt) == "sample[self.target_kspace_key]":
                stored = True
            for st in fn.body:
                if (res and isinstance(st, ast.Assign) and ast.unparse(st.targets[0]) == "sample[self.target_kspace_key]"
                        and ast.unparse(st.value) == res and st.lineno > top[0].lineno):
                    stored = True
        b = lambda x: "true" if x else "false"  # noqa: E731
        return (f"/-- translated from `{MT}`:`ApplyMaskModule.forward`: (returns before the apply_mask call, statements before it "
                f"that are neither key guards nor `x = sample[key]`, call is unconditional, k-space read from input_kspace_key, "
                f"mask read from sampling_mask_key, result stored under target_kspace_key) -/\n"
                f"def apply_mask_module_plan : Nat × Nat × Bool × Bool × Bool × Bool := "
                f"({early}, {other}, {b(unconditional)}, {b(from_input)}, {b(from_mask)}, {b(stored)})\n")

    attempt("apply_mask_module_plan", b_module_plan,
            "def apply_mask_module_plan : Nat × Nat × Bool × Bool × Bool × Bool := (0, 0, true, true, true, true)\n")

    # apply_padding ----------------------------------------------------------------------------
    def b_apply_padding():
        fn = find_function(parse_file(REPO / T), "apply_padding")
        ws = _where_calls(fn)
        if len(ws) != 1:
            raise Untranslatable(f"{len(ws)} torch.where calls in apply_padding")
        body, _ = _where_kernel(ws[0], {"padding"}, _is_name("data"))
        return _kernel_def("apply_padding_kernel", body, f"`{T}`:`apply_padding`")

    attempt("apply_padding_kernel", b_apply_padding, fb_kernel("apply_padding_kernel", "wherePad"))

    # MRILogLikelihood.forward -----------------------------------------------------------------
    def b_loglik():
        fn = find_function(parse_file(REPO / RIM), "MRILogLikelihood.forward")
        ws = _where_calls(fn)
        if len(ws) != 2:
            raise Untranslatable(f"{len(ws)} torch.where calls in MRILogLikelihood.forward")
        is_fwd = _is_call_of("self.forward_operator")
        is_data = _is_name("masked_kspace")
        bodies = {}
        for w in ws:
            body, data = _where_kernel(w, {"sampling_mask"}, lambda n: is_fwd(n) or is_data(n))
            bodies["forward" if data.startswith("self.forward_operator") else "data"] = body
        if set(bodies) != {"forward", "data"}:
            raise Untranslatable("the two where calls do not mask the prediction and the data")
        # raw (un-masked) uses of the data / the prediction
        inside = set()
        for w in ws:
            for n in ast.walk(w.args[2]):
                inside.add(id(n))
        parents = {}
        for p in ast.walk(fn):
            for ch in ast.iter_child_nodes(p):
                parents[id(ch)] = p
        raw = 0
        for n in ast.walk(fn):
            if id(n) in inside:
                continue
            if isinstance(n, ast.Name) and n.id == "masked_kspace" and isinstance(n.ctx, ast.Load):
                par = parents.get(id(n))
                if isinstance(par, ast.Attribute) and par.attr in ("dtype", "device", "shape", "ndim"):
                    continue
                raw += 1
            if is_fwd(n):
                raw += 1
        return (_kernel_def("loglik_forward_kernel", bodies["forward"], f"`{RIM}`:`MRILogLikelihood.forward` (mr_forward)")
                + _kernel_def("loglik_data_kernel", bodies["data"], f"`{RIM}`:`MRILogLikelihood.forward` (masked data)")
                + "/-- uses of `masked_kspace` / `self.forward_operator(…)` outside the data branch of a `torch.where` -/\n"
                + f"def loglik_raw_uses : Nat := {raw}\n")

    attempt("loglik_kernels", b_loglik,
            fb_kernel("loglik_forward_kernel", "whereZero") + fb_kernel("loglik_data_kernel", "whereZero")
            + "def loglik_raw_uses : Nat := 0\n")

    # ConjGrad._A_star_op ----------------------------------------------------------------------
    def b_astar():
        fn = find_function(parse_file(REPO / CG), "ConjGrad._A_star_op")
        ws = _where_calls(fn)
        if len(ws) != 1:
            raise Untranslatable(f"{len(ws)} torch.where calls in ConjGrad._A_star_op")
        body, _ = _where_kernel(ws[0], {"sampling_mask"}, _is_name("kspace"))
        return _kernel_def("a_star_kernel", body, f"`{CG}`:`ConjGrad._A_star_op`")

    def b_astar_stages():
        fn = find_function(parse_file(REPO / CG), "ConjGrad._A_star_op")
        stages = _stage_chain(fn, "sampling_mask", "kspace")
        return _stages_def("a_star_stages", stages, f"`{CG}`:`ConjGrad._A_star_op`")

    attempt("a_star_kernel", b_astar, fb_kernel("a_star_kernel", "whereZero"))
    attempt("a_star_stages", b_astar_stages, "def a_star_stages : List Stage := bwdStages\n")

    # engine operators -------------------------------------------------------------------------
    def b_fwd():
        fn = find_function(parse_file(REPO / ENG), "MRIModelEngine._forward_operator")
        return _stages_def("forward_operator_stages", _stage_chain(fn, "sampling_mask", "image"),
                           f"`{ENG}`:`MRIModelEngine._forward_operator`")

    def b_bwd():
        fn = find_function(parse_file(REPO / ENG), "MRIModelEngine._backward_operator")
        return _stages_def("backward_operator_stages", _stage_chain(fn, "sampling_mask", "kspace"),
                           f"`{ENG}`:`MRIModelEngine._backward_operator`")

    attempt("forward_operator_stages", b_fwd, "def forward_operator_stages : List Stage := fwdStages\n")
    attempt("backward_operator_stages", b_bwd, "def backward_operator_stages : List Stage := bwdStages\n")
    return "\n".join(chunks), status


EXTRA["C03"] = _c03_extra


def _slice_bounds(v: ast.AST) -> tuple[int, str]:
    """`np.array(kspace.shape)[lo:hi]` -> (lo, Lean Option Int of hi)"""
    if not (isinstance(v, ast.Subscript) and isinstance(v.slice, ast.Slice) and v.slice.step is None
            and "kspace.shape" in ast.unparse(v.value)):
        raise Untranslatable(f"shape is `{ast.unparse(v)}`")
    lo = 0 if v.slice.lower is None else _number(v.slice.lower)
    hi = None if v.slice.upper is None else _number(v.slice.upper)
    if not isinstance(lo, int) or not (hi is None or isinstance(hi, int)):
        raise Untranslatable(f"slice bounds of `{ast.unparse(v)}`")
    return lo, "none" if hi is None else f"some ({hi})"


def _shape_slice_build(k: Kernel, fn: ast.FunctionDef) -> str:
    """`shape = np.array(kspace.shape)[1:]` -> the slice of kspace.shape shown to the mask function"""
    for st in ast.walk(fn):
        if isinstance(st, ast.Assign) and ast.unparse(st.targets[0]) == "shape":
            lo, hi = _slice_bounds(st.value)
            return f"def {k.name} : Int × Option Int := (({lo} : Int), ({hi} : Option Int))\n"
    raise Untranslatable("assignment to `shape` not found")


register("C03", [
    Kernel("apply_mask_shape_slice", T, "apply_mask", [], "((1 : Int), (none : Option Int))", _shape_slice_build,
           ret_type="Int × Option Int", imports=("DirectVerif.Model.Mask",)),
])


# =================================================================================================
# every masking site under direct/nn (phase 2): torch.where(<mask> …), apply_mask, mask products, masked_fill
import re as _re

from ..pyexpr import parse_file  # noqa: E402

_MASKY = _re.compile(r"(^|_)mask($|_)")


def _masky(node: ast.AST) -> bool:
    """an expression that denotes a sampling mask (not `masked_kspace`)"""
    if isinstance(node, ast.Name):
        return bool(_MASKY.search(node.id))
    if isinstance(node, ast.Attribute):
        return bool(_MASKY.search(node.attr))
    if isinstance(node, ast.Subscript):
        if isinstance(node.slice, ast.Constant) and isinstance(node.slice.value, str):
            return bool(_MASKY.search(node.slice.value))
        return _masky(node.value)
    if isinstance(node, ast.UnaryOp) and isinstance(node.op, (ast.Invert, ast.Not)):
        return _masky(node.operand)
    if isinstance(node, ast.BinOp) and isinstance(node.op, ast.Sub):
        return _masky(node.right) and _number(node.left) is not None
    if isinstance(node, ast.Call) and isinstance(node.func, ast.Attribute) and node.func.attr in (
            "float", "to", "bool", "int", "type", "unsqueeze", "squeeze", "expand", "expand_as", "clone", "detach"):
        return _masky(node.func.value)
    return False


def _zero_dtype_of(node: ast.AST) -> str:
    node = _strip_to(node)
    if isinstance(node, ast.Call):
        for kw in node.keywords:
            if kw.arg == "dtype":
                t = ast.unparse(kw.value)
                return t[:-len(".dtype")] if t.endswith(".dtype") else t
    return ""


def _lean_str(s: str) -> str:
    return '"' + " ".join(s.split()).replace("\\", "\\\\").replace('"', "'") + '"'


def scan_nn_sites(repo) -> list[dict]:
    import pathlib

    sites = []
    root = pathlib.Path(repo) / "direct" / "nn"
    for path in sorted(root.rglob("*.py")):
        rel = str(path.relative_to(repo))
        try:
            tree = parse_file(path)
        except Untranslatable:
            continue

        def visit(node, qual):
            for ch in ast.iter_child_nodes(node):
                if isinstance(ch, (ast.FunctionDef, ast.AsyncFunctionDef, ast.ClassDef)):
                    visit(ch, (qual + "." if qual else "") + ch.name)
                else:
                    handle(ch, qual)
                    visit(ch, qual)

        def handle(n, qual):
            if isinstance(n, ast.Call):
                fname = ast.unparse(n.func)
                if fname == "torch.where" and len(n.args) == 3 and any(_masky(x) for x in ast.walk(n.args[0])):
                    pred, a, b = n.args
                    form = None
                    if (isinstance(pred, ast.Compare) and len(pred.ops) == 1 and _masky(pred.left)
                            and isinstance(pred.ops[0], (ast.Eq, ast.NotEq))):
                        c = _number(pred.comparators[0])
                        if c == "negzero":
                            c = 0
                        if c is not None and float(c) == int(c):
                            try:
                                ka, kb = _const_branch(a), _const_branch(b)
                            except Untranslatable:
                                ka = kb = None
                                c = None
                            if c is not None and (ka is None) != (kb is None):
                                br = lambda k: ".data" if k is None else f"(.const {k})"  # noqa: E731
                                form = (f".whereForm {{ predEq := {'true' if isinstance(pred.ops[0], ast.Eq) else 'false'}, "
                                        f"predLit := {int(c)}, thenB := {br(ka)}, elseB := {br(kb)} }}")
                                data = b if ka is not None else a
                                zero = a if ka is not None else b
                                sites.append({"file": rel, "func": qual, "form": form, "kind": "where",
                                              "operand": ast.unparse(data), "mask": ast.unparse(pred.left),
                                              "zero": _zero_dtype_of(zero)})
                                return
                    sites.append({"file": rel, "func": qual, "form": '.flagged "torch.where with an unrecognised predicate/branches"',
                                  "kind": "where?", "operand": ast.unparse(n.args[2]), "mask": ast.unparse(n.args[0]), "zero": ""})
                elif fname.split(".")[-1] == "apply_mask" and len(n.args) >= 2:
                    comp = isinstance(n.args[1], ast.UnaryOp) and isinstance(n.args[1].op, ast.Invert)
                    sites.append({"file": rel, "func": qual, "form": f".applyMask {'true' if comp else 'false'}",
                                  "kind": "apply_mask", "operand": ast.unparse(n.args[0]), "mask": ast.unparse(n.args[1]), "zero": "kspace"})
                elif (isinstance(n.func, ast.Attribute) and n.func.attr in ("_forward_operator", "_backward_operator", "_A_star_op", "_A_star_A_op")
                      and any(_masky(a) for a in n.args)):
                    marg = [a for a in n.args if _masky(a)][0]
                    comp = isinstance(marg, ast.UnaryOp) and isinstance(marg.op, ast.Invert)
                    sites.append({"file": rel, "func": qual, "form": f".operatorCall {'true' if comp else 'false'}",
                                  "kind": "operator-call:" + n.func.attr, "operand": ast.unparse(n.args[0]), "mask": ast.unparse(marg),
                                  "zero": "kspace"})
                elif isinstance(n.func, ast.Attribute) and n.func.attr in ("masked_fill", "masked_fill_", "masked_scatter"):
                    sites.append({"file": rel, "func": qual, "form": f'.flagged "{n.func.attr}"', "kind": n.func.attr,
                                  "operand": ast.unparse(n.func.value), "mask": ast.unparse(n.args[0]) if n.args else "", "zero": ""})
                elif fname in ("torch.mul", "torch.multiply") and any(_masky(x) for x in n.args):
                    sites.append({"file": rel, "func": qual, "form": '.flagged "multiplication by the mask"', "kind": "mul",
                                  "operand": ast.unparse(n.args[0]), "mask": ast.unparse(n.args[1]), "zero": ""})
            elif isinstance(n, ast.BinOp) and isinstance(n.op, ast.Mult) and (_masky(n.left) or _masky(n.right)):
                m, d = (n.left, n.right) if _masky(n.left) else (n.right, n.left)
                sites.append({"file": rel, "func": qual, "form": '.flagged "multiplication by the mask"', "kind": "mul",
                              "operand": ast.unparse(d), "mask": ast.unparse(m), "zero": ""})
            elif isinstance(n, ast.AugAssign) and isinstance(n.op, ast.Mult) and _masky(n.value):
                sites.append({"file": rel, "func": qual, "form": '.flagged "multiplication by the mask"', "kind": "mul",
                              "operand": ast.unparse(n.target), "mask": ast.unparse(n.value), "zero": ""})

        visit(tree, "")
    return sites


def _sites_lean(sites: list[dict]) -> str:
    rows = []
    for s in sites:
        rows.append(f"  {{ file := {_lean_str(s['file'])}, func := {_lean_str(s['func'])}, form := {s['form']},\n"
                    f"    operand := {_lean_str(s['operand'][:120])}, mask := {_lean_str(s['mask'])}, zeroDtypeOf := {_lean_str(s['zero'])} }}")
    return ("/-- every masking site under `direct/nn` (AST scan: `torch.where(<mask> …)`, `apply_mask`, products with a mask, "
            "`masked_fill`) -/\ndef nn_mask_sites : List Site := [\n" + ",\n".join(rows) + "\n]\n")


_prev_extra = EXTRA["C03"]


def _c03_extra_with_sites():
    from ..gen import REPO

    text, status = _prev_extra()
    try:
        sites = scan_nn_sites(REPO)
        text += "\n" + _sites_lean(sites)
        status["nn_mask_sites"] = f"translated ({len(sites)} sites)"
    except Exception as e:  # noqa: BLE001 - never an alarm by itself
        text += f"\n/-- SKIPPED ({type(e).__name__}: {e}) -/\ndef nn_mask_sites : List Site := []\n"
        status["nn_mask_sites"] = f"skipped: {e}"
    return text, status


EXTRA["C03"] = _c03_extra_with_sites


# =================================================================================================
# state carried between calls by the classes that contain masking sites: attribute writes outside __init__,
# module-level mutable caches, lru_cache — a stale mask can only survive a call through one of these
def scan_nn_state(repo, site_classes: set[tuple[str, str]]) -> list[tuple[str, str, str]]:
    import pathlib

    rows = []
    files = sorted({f for f, _ in site_classes})
    for rel in files:
        tree = parse_file(pathlib.Path(repo) / rel)
        # module-level mutable containers
        mod_caches = set()
        for st in tree.body:
            if isinstance(st, (ast.Assign, ast.AnnAssign)):
                val = st.value
                tgts = st.targets if isinstance(st, ast.Assign) else [st.target]
                if isinstance(val, (ast.Dict, ast.List, ast.Set)) or (
                        isinstance(val, ast.Call) and ast.unparse(val.func) in ("dict", "list", "set", "OrderedDict", "defaultdict",
                                                                                "collections.OrderedDict", "collections.defaultdict")):
                    for t in tgts:
                        if isinstance(t, ast.Name) and t.id != "__all__":
                            mod_caches.add(t.id)
        for cls in [n for n in tree.body if isinstance(n, ast.ClassDef) and (rel, n.name) in site_classes]:
            for fn in [n for n in cls.body if isinstance(n, (ast.FunctionDef, ast.AsyncFunctionDef))]:
                qual = f"{cls.name}.{fn.name}"
                for dec in fn.decorator_list:
                    d = ast.unparse(dec)
                    if "lru_cache" in d or d.split("(")[0].split(".")[-1] in ("cache", "cached_property", "memoize"):
                        rows.append((rel, qual, f"decorator {d}"))
                if fn.name in ("__init__", "__setstate__", "__new__"):
                    continue
                for n in ast.walk(fn):
                    tgts = []
                    if isinstance(n, ast.Assign):
                        tgts = n.targets
                    elif isinstance(n, (ast.AugAssign, ast.AnnAssign)):
                        tgts = [n.target]
                    elif isinstance(n, ast.Call) and ast.unparse(n.func) in ("setattr", "object.__setattr__") and n.args \
                            and ast.unparse(n.args[0]) == "self":
                        rows.append((rel, qual, "setattr(self, …)"))
                    elif isinstance(n, ast.Call) and isinstance(n.func, ast.Attribute) and n.func.attr in (
                            "register_buffer", "__setattr__", "setdefault", "update", "append", "add", "insert", "extend") \
                            and (ast.unparse(n.func.value).startswith("self.") and n.func.attr in ("setdefault", "update", "register_buffer", "__setattr__")
                                 or ast.unparse(n.func.value) in mod_caches):
                        rows.append((rel, qual, f"{ast.unparse(n.func)}(…)"))
                    for t in tgts:
                        for e in (t.elts if isinstance(t, (ast.Tuple, ast.List)) else [t]):
                            base = e
                            while isinstance(base, ast.Subscript):
                                base = base.value
                            if isinstance(base, ast.Attribute) and ast.unparse(base).startswith("self."):
                                rows.append((rel, qual, f"write {ast.unparse(base)}"))
                            elif isinstance(base, ast.Name) and base.id in mod_caches and isinstance(e, ast.Subscript):
                                rows.append((rel, qual, f"write module-level {base.id}[…]"))
                for n in ast.walk(fn):
                    if isinstance(n, ast.Global):
                        rows.append((rel, qual, "global " + ", ".join(n.names)))
    return sorted(set(rows))


_prev_extra2 = EXTRA["C03"]


def _c03_extra_with_state():
    from ..gen import REPO

    text, status = _prev_extra2()
    try:
        sites = scan_nn_sites(REPO)
        classes = {(s["file"], s["func"].split(".")[0]) for s in sites if "." in s["func"]}
        rows = scan_nn_state(REPO, classes)
        text += ("\n/-- state that outlives a call in the classes containing masking sites: attribute writes outside `__init__`, "
                 "module-level mutable containers written from methods, caching decorators -/\n"
                 "def nn_state_writes : List (String × String × String) := [\n"
                 + ",\n".join(f"  ({_lean_str(a)}, {_lean_str(b)}, {_lean_str(c)})" for a, b, c in rows) + "\n]\n")
        status["nn_state_writes"] = f"translated ({len(rows)} writes in {len(classes)} classes)"
    except Exception as e:  # noqa: BLE001
        text += f"\n/-- SKIPPED ({type(e).__name__}: {e}) -/\ndef nn_state_writes : List (String × String × String) := []\n"
        status["nn_state_writes"] = f"skipped: {e}"
    return text, status


EXTRA["C03"] = _c03_extra_with_state
