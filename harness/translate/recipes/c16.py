"""C16 — translation of the loop body of `Engine.training_loop` (direct/engine.py).

* `loopTable`: the ordered, guard-annotated list of the statements that touch gradients, optimiser and
  scheduler (backward / div_ / clip / step / scaler.update / zero_grad / lr_scheduler.step) as Lean data;
* `step_guard`, `div_guard`: the arithmetic of the two integer guards.
"""
from __future__ import annotations

import ast

from ..gen import EXTRA, REPO, Kernel, Untranslatable, register
from ..pyexpr import ExprTr, emit_def, find_function, parse_file

E = "direct/engine.py"
TRAIN = ("DirectVerif.Model.Train",)
GS = "self.cfg.training.gradient_steps"


def _norm(node: ast.AST) -> str:
    return ast.unparse(node).replace(" ", "")


def _main_loop(fn: ast.FunctionDef, need_transparent: bool = True) -> ast.For:
    """the loop of `training_loop` with the `self._method(…)` calls of the Engine class inlined at their call sites"""
    from .c16_inline import class_methods, inlined_main_loop

    loop = inlined_main_loop(fn, class_methods(parse_file(REPO / E)))
    if need_transparent and loop.c16_opaque:
        raise Untranslatable(f"self-call(s) {loop.c16_opaque} in the loop body could not be inlined")
    return loop


def classify_guard(test: ast.AST) -> str | None:
    """Lean constructor of a recognised guard, '' for guards that are irrelevant here, None = unknown.
    The *meaning* of the two integer guards is not decided here: whatever test over `iter_idx` and `gradient_steps`
    guards the step is labelled `.stepBranch`, and its arithmetic is translated separately (`step_guard`, `div_guard`)
    and compared with the model in the bridge."""
    t = _norm(test)
    names = {ast.unparse(n) for n in ast.walk(test) if isinstance(n, (ast.Name, ast.Attribute))}
    if GS in names and "iter_idx" in names:
        return ".stepBranch"
    if GS in names and isinstance(test, ast.Compare):
        return ".kGt1"
    if t in ("self.cfg.training.gradient_clipping>0.0", "self.cfg.training.gradient_clipping>0"):
        return ".clipOn"
    if t == "parameter.gradisnotNone":
        return ""
    return None


def classify_call(call: ast.Call) -> str | None:
    f = _norm(call.func)
    if f.endswith("._do_iteration"):
        return ".backward"
    if f.endswith(".grad.div_"):
        if len(call.args) != 1 or _norm(call.args[0]) != GS:
            raise Untranslatable(f"gradient divided by `{ast.unparse(call.args[0]) if call.args else ''}`, not by gradient_steps")
        return ".divGrad"
    if f.endswith("clip_grad_norm_"):
        return ".clip"
    if f.endswith("_scaler.step") or f.endswith("optimizer.step"):
        return ".optStep"
    if f.endswith("_scaler.update"):
        return ".scalerUpdate"
    if f.endswith(".zero_grad"):
        return ".zeroGrad"
    if f.endswith("lr_scheduler.step"):
        return ".schedStep"
    return None


def loop_events(loop: ast.For) -> list[tuple[str, list[str]]]:
    out: list[tuple[str, list[str]]] = []

    def calls_in(node: ast.AST):
        # calls of one simple statement, in source order
        cs = [n for n in ast.walk(node) if isinstance(n, ast.Call)]
        return sorted(cs, key=lambda n: (n.lineno, n.col_offset))

    def has_event(node: ast.AST) -> bool:
        return any(classify_call(c) for c in ast.walk(node) if isinstance(c, ast.Call))

    def walk(stmts, guards):
        for st in stmts:
            if isinstance(st, ast.If):
                g = classify_guard(st.test)
                if g is None:
                    if has_event(st):
                        raise Untranslatable(f"modelled statement under unknown guard `{ast.unparse(st.test)}`")
                    continue
                walk(st.body, guards + ([g] if g else []))
                if st.orelse and any(has_event(s) for s in st.orelse):
                    raise Untranslatable("modelled statement in an else branch")
            elif isinstance(st, ast.Try):
                before = len(out)
                walk(st.body, guards)
                # position relative to try/except is semantics (OOM recovery / kill path see whatever ran inside the try):
                # the model has only `_do_iteration` there
                if any(e != ".backward" for e, _ in out[before:]):
                    raise Untranslatable("gradient / optimiser statement inside the try block of `_do_iteration`")
                # handlers (OOM recovery, kill path) are not part of a completed iteration
                if any(has_event(s) for s in st.orelse + st.finalbody):
                    raise Untranslatable("modelled statement in try-else / finally")
            elif isinstance(st, ast.For):
                walk(st.body, guards)
            elif isinstance(st, (ast.While, ast.With)):
                if has_event(st):
                    raise Untranslatable("modelled statement inside while/with")
            else:
                for c in calls_in(st):
                    ev = classify_call(c)
                    if ev:
                        out.append((ev, list(guards)))
    walk(loop.body, [])
    return out


def _loop_table():
    name = "loopTable"
    try:
        fn = find_function(parse_file(REPO / E), "Engine.training_loop")
        evs = loop_events(_main_loop(fn))
        if not evs:
            raise Untranslatable("no modelled statement found in the loop body")
        rows = ", ".join(f"({e}, [{', '.join(g)}])" for e, g in evs)
        return (f"/-- translated from `{E}`:`Engine.training_loop` (statement order and guards) -/\n"
                f"def {name} : Train.LoopTable := [{rows}]\n"), {name: "translated"}
    except Untranslatable as e:
        return (f"/-- SKIPPED ({e}); stands for the hand-written table -/\n"
                f"def {name} : Train.LoopTable := Train.loopTable\n"), {name: f"skipped: {e}"}


# --------------------------------------------------------------------------------------------------
# per-engine handling of the loss: one row per class of direct/nn/**/*_engine.py, direct/nn/mri_models.py, direct/nn/ssl/mri_models.py
def engine_files():
    nn = REPO / "direct" / "nn"
    files = sorted(nn.glob("*/*_engine.py")) + [nn / "mri_models.py", nn / "ssl" / "mri_models.py"]
    return [f for f in files if f.exists()]


def engine_row(cls: ast.ClassDef):
    fns = {f.name: f for f in cls.body if isinstance(f, ast.FunctionDef)}
    if "_do_iteration" not in fns and "forward_function" not in fns:
        return None
    scope = [fns[n] for n in ("_do_iteration", "forward_function") if n in fns]
    n_back, guarded, scaled, in_loop, retain, detached = 0, True, True, False, False, False
    mentions, touches = False, False

    def walk(node, under_training, in_for):
        nonlocal n_back, guarded, scaled, in_loop, retain, detached, mentions, touches
        for ch in ast.iter_child_nodes(node):
            ut, inf = under_training, in_for
            if isinstance(node, ast.If) and ch in node.body and "training" in ast.unparse(node.test):
                ut = True
            if isinstance(node, (ast.For, ast.While)) and ch in node.body:
                inf = True
            if isinstance(ch, ast.Call) and isinstance(ch.func, ast.Attribute):
                f = ast.unparse(ch.func)
                if ch.func.attr == "backward" and not f.endswith("backward_operator"):
                    n_back += 1
                    guarded &= ut
                    recv = ast.unparse(ch.func.value)
                    scaled &= recv.replace(" ", "").startswith("self._scaler.scale(")
                    in_loop |= inf
                    retain |= any(k.arg == "retain_graph" for k in ch.keywords)
                    detached |= "detach" in recv
                if ch.func.attr in ("zero_grad",) or f.endswith("optimizer.step") or f.endswith("_scaler.step") \
                        or f.endswith("_scaler.update"):
                    touches = True
            if isinstance(ch, ast.Attribute) and ch.attr == "gradient_steps":
                mentions = True
            walk(ch, ut, inf)

    for fn in scope:
        walk(fn, False, False)
    b = lambda v: "true" if v else "false"  # noqa: E731
    return (f'{{ name := "{cls.name}", definesDoIteration := {b("_do_iteration" in fns)}, nBackward := {n_back}, '
            f"guarded := {b(guarded)}, scaled := {b(scaled)}, inLoop := {b(in_loop)}, retainGraph := {b(retain)}, "
            f"mentionsGradSteps := {b(mentions)}, touchesOptimizer := {b(touches)}, detached := {b(detached)} }}")


def _engine_table():
    name = "engineRows"
    try:
        rows = []
        for f in engine_files():
            tree = parse_file(f)
            for cls in tree.body:
                if isinstance(cls, ast.ClassDef):
                    r = engine_row(cls)
                    if r:
                        rows.append(r)
        if not rows:
            raise Untranslatable("no engine classes found")
        return (f"/-- translated from direct/nn/**: how every engine class back-propagates its loss -/\n"
                f"def {name} : List Train.EngineRow := [\n  " + ",\n  ".join(rows) + "]\n"), {name: f"translated ({len(rows)} classes)"}
    except Untranslatable as e:
        return (f"/-- SKIPPED ({e}) -/\ndef {name} : List Train.EngineRow := "
                f'[{{ name := "MRIModelEngine", definesDoIteration := true, nBackward := 1, guarded := true, scaled := true, '
                f"inLoop := false, retainGraph := false, mentionsGradSteps := false, touchesOptimizer := false, "
                f"detached := false }}]\n"), {name: f"skipped: {e}"}


def _scope_of(expr: ast.AST, env: list, line: int) -> str:
    """whose parameters an iterable denotes; names are resolved by the closest preceding assignment"""
    for _ in range(4):
        if isinstance(expr, ast.Name):
            prev = [(ln, v) for (ln, name, v) in env if name == expr.id and ln < line]
            if not prev:
                break
            line, expr = max(prev, key=lambda x: x[0])
    t = _norm(expr)
    if "self.models" in t and "self.model" in t.replace("self.models", ""):
        return ".allModels"
    if t in ("self.model.parameters()", "list(self.model.parameters())"):
        return ".mainOnly"
    raise Untranslatable(f"cannot tell whose parameters `{ast.unparse(expr)}` are")


def _scopes():
    out, status = [], {}
    try:
        fn = find_function(parse_file(REPO / E), "Engine.training_loop")
        loop = _main_loop(fn)
        env = []
        for n in ast.walk(loop):
            if isinstance(n, ast.Assign) and len(n.targets) == 1 and isinstance(n.targets[0], ast.Name):
                env.append((n.lineno, n.targets[0].id, n.value))
        div = clip = None
        fors = [n for n in ast.walk(loop) if isinstance(n, ast.For) and n is not loop
                and any(isinstance(c, ast.Call) and classify_call(c) == ".divGrad" for c in ast.walk(n))]
        if fors:
            inner = max(fors, key=lambda n: n.lineno)      # the innermost loop around `.grad.div_`
            div = _scope_of(inner.iter, env, inner.lineno)
        for n in ast.walk(loop):
            if isinstance(n, ast.Call) and classify_call(n) == ".clip" and n.args:
                clip = _scope_of(n.args[0], env, n.lineno)
        if div is None or clip is None:
            raise Untranslatable("div_ loop / clip_grad_norm_ call not found")
        for name, v in (("divScope", div), ("clipScope", clip)):
            out.append(f"/-- translated from `{E}`:`Engine.training_loop` -/\ndef {name} : Train.ParamScope := {v}\n")
            status[name] = "translated"
    except Untranslatable as e:
        for name in ("divScope", "clipScope"):
            out.append(f"/-- SKIPPED ({e}) -/\ndef {name} : Train.ParamScope := .allModels\n")
            status[name] = f"skipped: {e}"
    return "\n".join(out), status


def _c16_extra():
    from .c16_events import events_extra

    t1, s1 = _loop_table()
    t2, s2 = _engine_table()
    t3, s3 = _scopes()
    t4, s4 = events_extra()
    return t1 + "\n" + t2 + "\n" + t3 + "\n" + t4, {**s1, **s2, **s3, **s4}


EXTRA["C16"] = _c16_extra


def _guard_of_event(event: str, which: str):
    """Bool kernel = test of the `if` (the `which` guard) enclosing the statement `event`."""

    def build(k: Kernel, fn: ast.FunctionDef) -> str:
        loop = _main_loop(fn)
        found = []

        def walk(stmts, tests):
            for st in stmts:
                if isinstance(st, ast.If):
                    walk(st.body, tests + [st.test])
                    walk(st.orelse, tests)
                elif isinstance(st, (ast.For, ast.Try, ast.With)):
                    walk(st.body, tests)
                else:
                    for c in ast.walk(st):
                        if isinstance(c, ast.Call) and classify_call(c) == event:
                            found.append(tests)
        walk(loop.body, [])
        if not found:
            raise Untranslatable(f"statement {event} not found")
        tests = [t for t in found[0] if classify_guard(t) == which]
        if len(tests) != 1:
            raise Untranslatable(f"guard {which} of {event} not found")
        tr = ExprTr({"iter_idx": "iter_idx", GS: "k"})
        return emit_def(k.name, k.params, [], tr.bool(tests[0]), "Bool")

    return build


register("C16", [
    Kernel("step_guard", E, "Engine.training_loop", ["iter_idx", "k"],
           "(fun iter_idx k => Int.fmod (iter_idx + 1) k == 0)", _guard_of_event(".optStep", ".stepBranch"),
           ret_type="Bool", imports=TRAIN),
    Kernel("div_guard", E, "Engine.training_loop", ["iter_idx", "k"],
           "(fun _ k => decide (k > 1))", _guard_of_event(".divGrad", ".kGt1"), ret_type="Bool", imports=TRAIN),
])

from .c16_events import KERNELS as _EVENT_KERNELS  # noqa: E402

register("C16", _EVENT_KERNELS)
